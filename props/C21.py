"""C21 - Unbound local variables fail exactly where CPython fails (DESIGN 7/C21)."""
import itertools, json, os, re, concurrent.futures as cf
import cybuild

TITLE = "Unbound local variables fail exactly where CPython fails"
EXTRACTS = ["Flow"]
RULE = ("(a) core programs (props/C21_core.py = the statement language of M_FlowCFG): for every jump kind (continue, "
        "break, return, raise, none) x every nesting of try/finally, try/except, except..as, with (depth 1-3) x "
        "for/while: the jump inside the innermost layer, del / (conditional) assignment / read of the variable before, "
        "inside and after the try, in the finally clause, in the handler, at the loop head, in the else clause and "
        "after the loop; conditions are plain c[i] or counters (true for the first n evaluations / false for the "
        "first n), finally clauses may themselves end in a jump; (b) generated functions with random structured control flow (if/elif/else, for/while with else, "
        "break/continue, try/except/else/finally, with (swallowing or not), match, del, augmented and walrus "
        "assignment, comprehensions, closures with nonlocal) over a few variables; every function is called on "
        "every branch-selecting input vector (capped sample when > cap); distinct by (function source, input); "
        "non-trivial = the function contains at least one read/del whose definedness depends on the path")
EXPLANATION = ("CFG construction (M_FlowCFG = ControlFlowAnalysis.visit_* + normalize, variant flag fx): for the repaired "
               "builder every execution of a function body (any branch outcomes, loop counts, raise points; jumps through "
               "any nesting of try/finally/except/loops) is covered by the built graph (C21_cfg_covers_paths) and every "
               "name read while unbound therefore gets the cf_maybe_null hint from check_definitions "
               "(C21_unbound_use_is_checked; side condition graph_ok evaluated by the model on every program); for the "
               "builder as it is the statement is refuted (C21_asis_*_refuted = the two registered findings). "
               "Data flow: theorems (all finite CFGs, any block order): the round-robin reaching-definitions iteration of "
               "ControlFlow.reaching_definitions terminates within blocks*bits+1 passes, its result is the least "
               "fixpoint, it contains every definition that survives some CFG path (meet-over-paths soundness), and "
               "therefore a reference that check_definitions classifies 'definitely bound' (no run-time check "
               "emitted) is bound on every CFG path reaching it and one classified cf_is_null is unbound on every "
               "such path; initialize()'s gen/kill/mask bit sets are derived from the block statements inside the "
               "model. partial: graph_ok(build p) is checked per program, not proved for all p; no as-is theorem restricted to "
               "programs outside the finding classes; constructs outside the core language (match, comprehensions, "
               "closures, walrus, augmented assignment, elif) and NameNode code emission are tested against CPython, "
               "not modelled.")
TRUSTED = ["CPython 3.12 executing the same source text as the oracle for UnboundLocalError/NameError/values",
           "gcc as a conforming C compiler for the generated module",
           "dump of ControlFlow state through a monkey-patched FlowControl.check_definitions (pure-Python sources via pyload)"]
ASSUMPTIONS = ["core language semantics: only definedness matters; every condition, handler match and raise point is "
               "nondeterministic; except-clause patterns contain no tracked names; with = its WithTransform desugaring",
               "function scopes: scope_predefined_names is empty; ControlBlock.bounded is never populated by the code "
               "(checked on every dumped block)",
               "an execution follows CFG edges and executes the statements of each visited block in order "
               "(possibly stopping inside the last block)"]

# ----------------------------------------------------------------------------------------------
# program generator
# ----------------------------------------------------------------------------------------------
PRELUDE = '''
def g(c):
    if c:
        raise ValueError(c)
    return 0

class CM:
    def __init__(self, sw):
        self.sw = sw
    def __enter__(self):
        return 11
    def __exit__(self, *a):
        return bool(self.sw)
'''

MAXC = 6
MAXD = 2

# model variant of the CFG construction: "0" = the code as it is, "1" = after
# proposed_fixes/C21-jump_through_nested_finally.diff has been applied (flip the default then)
FX = os.environ.get("C21_FX", "1")


class Gen:
    def __init__(self, rng, del_in_try, closure, use_match, int_consts=False):
        self.rng = rng
        self.int_consts = int_consts
        self.doms = []
        self.del_in_try = del_in_try
        self.closure = closure
        self.use_match = use_match
        self.vars = ["a", "b"]
        self.extra = []          # loop variables, exception variables
        self.const = 100
        self.cnt = 0
        self.feat = set()
        self.mb = set()          # variables that may be bound here (structural over-approximation)
        self.acc = set()         # every variable assigned so far (for handler entry states)
        self.wild = False        # allow reads/dels of variables that are certainly unbound here

    def cond(self, dom=2):
        if len(self.doms) < MAXC:
            self.doms.append(dom)
            return "c[%d]" % (len(self.doms) - 1)
        same = [i for i, d in enumerate(self.doms) if d == dom]
        return "c[%d]" % self.rng.choice(same or list(range(len(self.doms))))

    def k(self):
        self.const += 1
        return self.const

    def val(self):
        """a constant to assign: a str object by default; int literals (which type inference turns into a
        C long local) only in int_consts mode"""
        self.const += 1
        return str(self.const) if self.int_consts else "'v%d'" % self.const

    def fresh(self, p):
        self.cnt += 1
        return "%s%d" % (p, self.cnt)

    def anyvar(self):
        pool = self.vars * 3 + self.extra
        return self.rng.choice(pool)

    def usevar(self):
        """variable to read or delete: normally one that may be bound on some path to this point (so that
        the compiler cannot reject the function as 'referenced before assignment')"""
        pool = [v for v in self.vars * 3 + self.extra if v in self.mb]
        if not pool or (self.wild and self.rng.random() < 0.15):
            if not pool and not self.wild:
                return None
            return self.anyvar()
        return self.rng.choice(pool)

    def bind(self, *vs):
        self.mb.update(vs)
        self.acc.update(vs)

    @staticmethod
    def ind(lines):
        return ["    " + l for l in lines]

    def block(self, depth, ctx, n=None):
        n = n or self.rng.randint(1, 3 if depth < 1 else 2)
        out = []
        for _ in range(n):
            out += self.stmt(depth, ctx)
        return out

    def stmt(self, depth, ctx):
        r = self.rng
        simple = [("assign", 5), ("read", 7), ("del", 4), ("aug", 1), ("mark", 1),
                  ("raisept", 4 if ctx["try"] else 1), ("comp", 1), ("walrus", 1), ("unpack", 1)]
        if self.closure:
            simple += [("clo", 4)]
        if ctx["loop"] and not ctx["fin"]:
            simple += [("brk", 2)]
        if not ctx["fin"]:
            simple += [("ret", 1)]
        comp = []
        if depth < MAXD:
            comp = [("if", 5), ("for", 3), ("while", 1), ("tryexc", 4), ("tryfin", 3), ("with", 2)]
            if self.use_match:
                comp += [("match", 2)]
        kinds = simple + comp
        kind = r.choices([k for k, _ in kinds], [w for _, w in kinds])[0]
        return getattr(self, "s_" + kind)(depth, ctx)

    # ---- simple statements
    def s_assign(self, depth, ctx):
        v = self.anyvar()
        self.bind(v)
        return ["%s = %s" % (v, self.val())]

    def s_read(self, depth, ctx):
        v = self.usevar()
        if v is None:
            return self.s_assign(depth, ctx)
        self.feat.add("read")
        return ["t.append(%s)" % v]

    def s_del(self, depth, ctx):
        if ctx["try"] and not self.del_in_try:
            return self.s_read(depth, ctx)
        v = self.usevar()
        if v is None:
            return self.s_assign(depth, ctx)
        self.feat.add("del")
        if ctx["try"]:
            self.feat.add("del_in_try")
        self.mb.discard(v)
        return ["del %s" % v]

    def s_aug(self, depth, ctx):
        v = self.usevar()
        if v is None or v not in self.vars:
            return self.s_assign(depth, ctx)
        return ["%s += %s" % (v, "1" if self.int_consts else "'x'")]

    def s_mark(self, depth, ctx):
        return ["t.append('m%d')" % self.k()]

    def s_raisept(self, depth, ctx):
        return ["g(%s)" % self.cond()]

    def s_comp(self, depth, ctx):
        v = self.usevar()
        w = self.usevar()
        if v is None or w is None:
            return self.s_assign(depth, ctx)
        form = self.rng.randrange(3)
        if form == 0:      # the comprehension variable shadows a local, must not bind it
            return ["t.append([%s for %s in range(%s)])" % (v, v, self.cond(3))]
        if form == 1:      # read of a function local from inside the comprehension
            return ["t.append([%s for _q in range(1)])" % v]
        return ["t.append({%s: %s for %s in range(2)})" % (v, w, v)]

    def s_walrus(self, depth, ctx):
        v = self.rng.choice(self.vars)
        if self.rng.random() < 0.5:
            self.bind(v)
            return ["t.append((%s := %s))" % (v, self.val())]
        head = "if %s and (%s := %s):" % (self.cond(), v, self.val())
        m0 = set(self.mb)
        self.bind(v)
        body = self.block(depth + 1, ctx, 1)
        self.mb |= m0
        return [head] + self.ind(body)

    def s_unpack(self, depth, ctx):
        v, w = self.anyvar(), self.anyvar()
        self.bind(v, w)
        return ["%s, %s = %s, %s" % (v, w, self.val(), self.val())]

    def s_clo(self, depth, ctx):
        form = self.rng.randrange(6)
        if form == 0:
            return ["k = %s" % self.val()]
        if form == 1:
            return ["t.append(k)"]
        if form == 2:
            return ["t.append(h1())"]
        if form == 3:
            return ["s1(%s)" % self.val()]
        if form == 4:
            return ["t.append((lambda: k)())"]
        return ["t.append(list(k for _z in range(2)))"]

    def s_brk(self, depth, ctx):
        w = self.rng.choice(["break", "continue"])
        if self.rng.random() < 0.8:
            return ["if %s:" % self.cond(), "    " + w]
        return [w]

    def s_ret(self, depth, ctx):
        if self.rng.random() < 0.85:
            return ["if %s:" % self.cond(), "    return 'r%d'" % self.k()]
        return ["return 'r%d'" % self.k()]

    # ---- compound statements
    def branch(self, m0, depth, ctx, n=None):
        """generate a block starting from may-bound state m0; returns (lines, end state)"""
        self.mb = set(m0)
        lines = self.block(depth + 1, ctx, n)
        return lines, set(self.mb)

    def s_if(self, depth, ctx):
        m0 = set(self.mb)
        b, m = self.branch(m0, depth, ctx)
        out = ["if %s:" % self.cond()] + self.ind(b)
        ends = [m]
        if self.rng.random() < 0.3:
            b, m = self.branch(m0, depth, ctx)
            out += ["elif %s:" % self.cond()] + self.ind(b)
            ends.append(m)
        if self.rng.random() < 0.6:
            b, m = self.branch(m0, depth, ctx)
            out += ["else:"] + self.ind(b)
            ends.append(m)
        else:
            ends.append(m0)
        self.mb = set().union(*ends)
        return out

    def s_for(self, depth, ctx):
        if self.rng.random() < 0.5:
            v = self.fresh("i")
            self.extra.append(v)
        else:
            v = self.rng.choice(self.vars)
        c2 = dict(ctx, loop=True)
        m0 = set(self.mb)
        self.acc.add(v)
        b, m = self.branch(m0 | {v}, depth, c2)
        out = ["for %s in range(%s):" % (v, self.cond(3))] + self.ind(b)
        m1 = m0 | m
        if self.rng.random() < 0.4:
            b, m = self.branch(m1, depth, ctx)
            out += ["else:"] + self.ind(b)
            m1 |= m
        self.mb = m1
        return out

    def s_while(self, depth, ctx):
        w = self.fresh("w")
        c2 = dict(ctx, loop=True)
        m0 = set(self.mb)
        b, m = self.branch(m0, depth, c2)
        out = ["%s = %s" % (w, self.cond(3)), "while %s:" % w, "    %s -= 1" % w] + self.ind(b)
        m1 = m0 | m
        if self.rng.random() < 0.4:
            b, m = self.branch(m1, depth, ctx)
            out += ["else:"] + self.ind(b)
            m1 |= m
        self.mb = m1
        return out

    def s_tryexc(self, depth, ctx):
        ct = dict(ctx, **{"try": True})
        m0 = set(self.mb)
        a0 = set(self.acc)
        b, mt = self.branch(m0, depth, ct)
        out = ["try:"] + self.ind(b)
        mh = m0 | (self.acc - a0) | mt          # state at handler entry: anything the body may have bound
        ends = []
        if self.rng.random() < 0.5:
            ev = self.rng.choice(["e", "e", "a"])
            if ev == "e" and "e" not in self.extra:
                self.extra.append("e")
            out += ["except ValueError as %s:" % ev]
            self.acc.add(ev)
            body, m = self.branch(mh | {ev}, depth, ctx)
            if self.rng.random() < 0.5:
                body = ["t.append(str(%s))" % ev] + body
            out += self.ind(body)
            ends.append(m - {ev})
        else:
            body, m = self.branch(mh, depth, ctx)
            out += ["except ValueError:"] + self.ind(body)
            ends.append(m)
        if self.rng.random() < 0.3:
            body, m = self.branch(mt, depth, ctx)
            out += ["else:"] + self.ind(body)
            ends.append(m)
        else:
            ends.append(mt)
        me = set().union(*ends)
        if self.rng.random() < 0.25:
            body, m = self.branch(me | mh | (self.acc - a0), depth, dict(ctx, fin=True))
            out += ["finally:"] + self.ind(body)
            me = m
        self.mb = me
        return out

    def s_tryfin(self, depth, ctx):
        ct = dict(ctx, **{"try": True})
        m0 = set(self.mb)
        a0 = set(self.acc)
        b, mt = self.branch(m0, depth, ct)
        body, m = self.branch(m0 | mt | (self.acc - a0), depth, dict(ctx, fin=True))
        self.mb = m
        return ["try:"] + self.ind(b) + ["finally:"] + self.ind(body)

    def s_with(self, depth, ctx):
        ct = dict(ctx, **{"try": True})
        tgt = ""
        m0 = set(self.mb)
        if self.rng.random() < 0.6:
            v = self.rng.choice(self.vars)
            tgt = " as %s" % v
            self.acc.add(v)
            m0 = m0 | {v}
        a0 = set(self.acc)
        head = "with CM(%s)%s:" % (self.cond(), tgt)
        b, m = self.branch(m0, depth, ct)
        self.mb = m0 | m | (self.acc - a0)
        return [head] + self.ind(b)

    def s_match(self, depth, ctx):
        v = self.rng.choice(self.vars)
        w = self.rng.choice(self.vars)
        self.bind(v)
        form = self.rng.randrange(3)
        if form == 0:
            out = ["match %s:" % self.cond(3), "    case 0:"] + self.ind(self.ind(self.block(depth + 1, ctx)))
            out += ["    case %s:" % v] + self.ind(self.ind(self.block(depth + 1, ctx)))
        elif form == 1:
            out = ["match [%s, %d]:" % (self.cond(3), self.k()),
                   "    case [0, %s]:" % v] + self.ind(self.ind(self.block(depth + 1, ctx)))
            out += ["    case [1, _]:"] + self.ind(self.ind(self.block(depth + 1, ctx)))
        else:
            out = ["match %s:" % self.cond(3),
                   "    case %s if %s:" % (v, self.cond())] + self.ind(self.ind(self.block(depth + 1, ctx)))
            out += ["    case 1:"] + self.ind(self.ind(self.block(depth + 1, ctx)))
        return out


def gen_function(rng, name, del_in_try, closure, use_match, int_consts=False, wild=False):
    g = Gen(rng, del_in_try, closure, use_match, int_consts)
    g.wild = wild
    ctx = {"loop": False, "try": False, "fin": False}
    body = []
    if int_consts:
        g.feat.add("int_consts")
    for v in g.vars:
        if rng.random() < 0.6:
            body.append("%s = %s" % (v, g.val()))
            g.bind(v)
    if closure:
        body += ["def h1():", "    return k", "def s1(v):", "    nonlocal k", "    k = v",
                 "if %s:" % g.cond(), "    k = %s" % g.val()]
    body += g.block(0, ctx, rng.randint(2, 4))
    cand = [v for v in g.vars + g.extra if v in g.mb or wild]
    tail = ["t.append(%s)" % v for v in rng.sample(cand, min(2, len(cand)))]
    if closure:
        tail.append("t.append(k)")
    body += tail + ["return 'end'"]
    never = [v for v in g.vars + g.extra if v not in g.acc]
    if never:       # make them locals without ever binding them (c[0] is never 9)
        body = ["if c[0] == 9:"] + ["    %s = 'never'" % v for v in never] + body
    src = ["def %s(c, t):" % name] + Gen.ind(body)
    doms = g.doms or [2]
    return "\n".join(src) + "\n", doms, sorted(g.feat)


def inputs_for(doms, rng, cap):
    total = 1
    for d in doms:
        total *= d
    if total <= cap:
        return [list(x) for x in itertools.product(*[range(d) for d in doms])]
    seen = set()
    out = []
    while len(out) < cap:
        x = tuple(rng.randrange(d) for d in doms)
        if x not in seen:
            seen.add(x)
            out.append(list(x))
    return out


# hand-written functions compiled in every run (module c21m0): (source, doms, features)
FIXED = [
    ("""def fx0(c, t):
    a = 'v1'
    try:
        del a
        g(c[0])
    except ValueError:
        t.append(a)
    return 'end'
""", [2], ["del", "del_in_try", "read"]),
    ("""def fx1(c, t):
    a = 'v1'
    with CM(1):
        del a
        g(c[0])
    t.append(a)
    return 'end'
""", [2], ["del", "del_in_try", "read"]),
    ("""def fx2(c, t):
    a = 'v1'
    del a
    if c[0]:
        del a
    t.append('m1')
    return 'end'
""", [2], ["del", "read"]),
    ("""def fx3(c, t):
    if c[0]:
        a = 5
    t.append(a)
    return 'end'
""", [2], ["int_consts", "read"]),
    ("""def fx4(c, t):
    a = 'v1'
    for i in range(c[0]):
        try:
            if c[1]:
                break
            a = 'v2'
        finally:
            del a
        a = 'v3'
    t.append(a)
    return 'end'
""", [3, 2], ["del", "read"]),
    ("""def fx5(c, t):
    try:
        g(c[0])
        a = 'v1'
    except ValueError as e:
        t.append(str(e))
    t.append(a)
    t.append(e)
    return 'end'
""", [2], ["read"]),
]

# ----------------------------------------------------------------------------------------------
# worker scripts (run in subprocesses)
# ----------------------------------------------------------------------------------------------
WORKER = r'''
import sys, os, json, io, traceback
import pyload
pyload.install()
from Cython.Compiler import Main, Options, Errors, FlowControl as FC
pyload.assert_sources()
assert FC.__file__.endswith(".py"), FC.__file__

DUMPS = []
_orig = FC.check_definitions
CUR = [None]

# creation order of the statements of every flow (the blocks of flow.blocks only hold the reachable ones)
def _track(name):
    orig = getattr(FC.ControlFlow, name)
    def wrapper(self, *a, **kw):
        blk = self.block
        n = len(blk.stats) if blk else 0
        r = orig(self, *a, **kw)
        if blk and len(blk.stats) > n:
            if not hasattr(self, "_c21_created"):
                self._c21_created = []
            self._c21_created.extend(blk.stats[n:])
        return r
    setattr(FC.ControlFlow, name, wrapper)
for _n in ("mark_assignment", "mark_argument", "mark_deletion", "mark_reference"):
    _track(_n)

def dump_flow(flow, node):
    entries = list(flow.assmts.keys())
    eidx = {e: i for i, e in enumerate(entries)}
    blocks = [flow.entry_point] + [b for b in flow.blocks if b is not flow.entry_point]
    bidx = {b: i for i, b in enumerate(blocks)}
    E = []
    for e in entries:
        a = flow.assmts[e]
        E.append({"name": e.name, "bit": str(a.bit), "mask": str(a.mask),
                  "from_closure": bool(e.from_closure), "in_closure": bool(e.in_closure),
                  "static": bool(flow.is_statically_assigned(e))})
    B = []
    for b in blocks:
        S = []
        for st in b.stats:
            if isinstance(st, FC.NameAssignment):
                nd = st.lhs
                d = {"k": "D" if st.is_deletion else "A", "e": eidx[st.entry], "bit": str(getattr(st, "bit", 0))}
            else:
                nd = st.node
                d = {"k": "R", "e": eidx[st.entry]}
            d["null"] = bool(getattr(nd, "cf_is_null", False))
            d["maybe"] = bool(getattr(nd, "cf_maybe_null", True))
            d["allow"] = bool(getattr(nd, "allow_null", False))
            d["line"] = nd.pos[1] if getattr(nd, "pos", None) else 0
            d["nid"] = id(nd)
            d["sid"] = id(st)
            S.append(d)
        B.append({"parents": sorted(bidx[p] for p in b.parents if p in bidx),
                  "orphans": sum(1 for p in b.parents if p not in bidx),
                  "gen": str(b.i_gen), "kill": str(b.i_kill), "in": str(b.i_input), "out": str(b.i_output),
                  "bounded": sorted(eidx[e] for e in b.bounded), "stats": S})
    name = None
    try:
        name = node.entry.name if node is not None and getattr(node, "entry", None) else None
    except Exception:
        pass
    created = []
    for st in getattr(flow, "_c21_created", []):
        if isinstance(st, FC.NameAssignment):
            created.append({"k": "D" if st.is_deletion else "A", "name": st.entry.name, "nid": id(st.lhs), "sid": id(st)})
        else:
            created.append({"k": "R", "name": st.entry.name, "nid": id(st.node), "sid": id(st)})
    return {"entries": E, "blocks": B, "fname": name, "created": created,
            "line": (node.pos[1] if node is not None and getattr(node, "pos", None) else 0)}

def patched(flow, directives):
    _orig(flow, directives)
    try:
        fr = sys._getframe(1)
        node = fr.f_locals.get("node")
        d = dump_flow(flow, node)
    except Exception:
        d = {"dump_error": traceback.format_exc()[-2000:]}
    d["module"] = CUR[0]
    DUMPS.append(d)
FC.check_definitions = patched

def main():
    spec = json.loads(sys.stdin.read())
    Options.error_on_uninitialized = bool(spec.get("strict", True))
    results = []
    for job in spec["jobs"]:
        CUR[0] = job["name"]
        directives = dict(Options.get_directive_defaults())
        directives["language_level"] = 3
        opts = Main.CompilationOptions(Main.default_options, compiler_directives=directives,
                                       output_file=job["out"])
        err = io.StringIO(); old = sys.stderr
        res = {"name": job["name"], "ok": False, "crash": None}
        try:
            sys.stderr = err
            try:
                r = Main.compile(job["src"], opts)
                res["ok"] = (r.num_errors == 0) and os.path.exists(job["out"])
            finally:
                sys.stderr = old
        except BaseException as e:
            res["crash"] = "".join(traceback.format_exception(type(e), e, e.__traceback__))[-3000:]
        res["errors"] = err.getvalue()[-6000:]
        results.append(res)
    with open(spec["dumpfile"], "w") as f:
        json.dump(DUMPS, f)
    print(json.dumps(results))
main()
'''

RUNNER = r'''
import json, importlib
_cache = {}
def _ns_py(path):
    if path not in _cache:
        ns = {"__name__": "oracle"}
        exec(compile(open(path).read(), path, "exec"), ns)
        _cache[path] = ns
    return _cache[path]
def _one(fn, c):
    t = []
    try:
        r = fn(list(c), t)
        return ["ok", repr(r), repr(t)]
    except BaseException as ex:
        return [type(ex).__name__, "", repr(t)]
def run_py(path, fname, inputs):
    fn = _ns_py(path)[fname]
    return json.dumps([_one(fn, c) for c in inputs])
def run_cy(mod, fname, inputs):
    fn = getattr(importlib.import_module(mod), fname)
    return json.dumps([_one(fn, c) for c in inputs])
'''


# ----------------------------------------------------------------------------------------------
def encode_flow(fl):
    ne = len(fl["entries"])
    clo = "".join("1" if e["from_closure"] else "0" for e in fl["entries"]) or "-"
    sta = "".join("1" if e["static"] else "0" for e in fl["entries"]) or "-"
    bl = []
    for i, b in enumerate(fl["blocks"]):
        st = [] if i == 0 else ["%s%d" % (s["k"], s["e"]) for s in b["stats"]]
        bl.append("%s/%s/%s" % (",".join(map(str, b["parents"])) or "-", ",".join(st) or "-",
                                ",".join(map(str, b["bounded"])) or "-"))
    return "an %d %s %s %s" % (ne, clo, sta, "|".join(bl))


def expected_cls(s):
    return "N" if s["null"] else ("M" if s["maybe"] else "B")


def compare_flow(ctx, fl, ans, where):
    """model answer vs dumped ControlFlow state, bit for bit.  Returns number of compared items."""
    if ans == "NONE" or ans.startswith("!"):
        ctx.corr_break("flow:analyse", where, "fixpoint reached by the code", ans)
        return 0
    masks, blocks, bits, clss = ans.split(" ")
    n = 0
    mm = [] if masks == "-" else masks.split(",")
    if mm != [e["mask"] for e in fl["entries"]]:
        ctx.corr_break("flow:masks", where, [e["mask"] for e in fl["entries"]], mm)
    for i, (b, mb, bb, cc) in enumerate(zip(fl["blocks"], blocks.split("|"), bits.split("|"), clss.split("|"))):
        got = [b["gen"], b["kill"], b["in"], b["out"]]
        if i == 0:
            got[2] = "0"
        if mb.split(",") != got:
            ctx.corr_break("flow:gen,kill,in,out", dict(where, block=i), got, mb)
        n += 4
        if i == 0:
            continue
        mbits = [] if bb == "-" else bb.split(",")
        for s, k in zip(b["stats"], mbits):
            if s["k"] != "R" and str(1 << int(k)) != s["bit"]:
                ctx.corr_break("flow:stat.bit", dict(where, block=i), s["bit"], k)
        mcls = "" if cc == "-" else cc
        if len(mcls) != len(b["stats"]):
            ctx.corr_break("flow:nstats", dict(where, block=i), len(b["stats"]), mcls)
            continue
        for s, m in zip(b["stats"], mcls):
            n += 1
            if s.get("shared"):
                continue       # a node visited more than once accumulates cf_state: compared after merging
            if m != expected_cls(s):
                ctx.corr_break("flow:cf_hint", dict(where, block=i, stat=s["k"], line=s["line"]),
                               expected_cls(s), m)
    return n


def compare_core(ctx, fl, f, ans, where):
    """model of the CFG construction (M_FlowCFG.visit + normalize + M_Flow.analyse, variant FX) vs the real
    ControlFlowAnalysis: same statements in the same creation order, same NameNode sharing, and the same
    cf_is_null / cf_maybe_null hint on every statement (X = block detached by normalize: no hint)."""
    if ans == "NONE" or ans.startswith("!"):
        ctx.corr_break("cfg:model", where, "CFG built and analysed by the code", ans)
        return 0
    wf, eae, nblocks, items = ans.split(" ")
    items = [] if items == "-" else [x.split(":") for x in items.split(";")]
    names = f["names"]
    exp = [(int(it[0]), it[1], names[int(it[2])]) for it in items]   # statements the model created
    real = fl["created"]
    if wf != "1" or eae != "1":
        ctx.corr_break("cfg:side-conditions", where, "hypotheses of C21_unbound_use_is_checked: wf, graph_ok",
                       {"wf": wf, "graph_ok": eae})
    if [(c["k"], c["name"]) for c in real] != [(k, n) for _, k, n in exp] or len(items) != len(exp):
        ctx.corr_break("cfg:stat-sequence", where, [(c["k"], c["name"]) for c in real],
                       [(k, n) for _, k, n in exp])
        return 0
    l2n, n2l = {}, {}
    for c, (l, _, _) in zip(real, exp):
        if l2n.setdefault(l, c["nid"]) != c["nid"] or n2l.setdefault(c["nid"], l) != l:
            ctx.corr_break("cfg:node-sharing", where, "label %d" % l, "distinct NameNodes")
            return 0
    hint = {}
    for b in fl["blocks"]:
        for s in b["stats"]:
            hint[s["sid"]] = expected_cls(s)
    n = 0
    for i, (c, it) in enumerate(zip(real, items)):
        n += 1
        rc = hint.get(c["sid"], "X")
        if rc != it[4]:
            ctx.corr_break("cfg:cf_hint", dict(where, stat=i, kind=c["k"], name=c["name"]), rc, it[4])
    return n


def _reads_garbage_int(pt, ct):
    import re
    extra = ct[len(pt):]
    nums = [int(x) for x in re.findall(r"-?\d+", extra)]
    return any(abs(n) > 10 ** 6 for n in nums) or (bool(nums) and all(n not in range(0, 1000) for n in nums))


def classify(feat, dump_feat, py, cy):
    """stable class of a failing case, from the function's features first.  The known classes all have the
    shape 'CPython raises the unbound error here, the compiled code reads NULL or carries on'."""
    unbound = ("UnboundLocalError", "NameError")
    if "retfinjump" in feat and cy[0] == "CRASH":
        return "return_in_loop_overridden_by_finally_jump"
    if FX == "0" and (cy[0] in ("CRASH", "SystemError") or (py[0] in unbound) != (cy[0] in unbound) or
                      (py[0] in unbound and cy[0] in unbound and py[2] != cy[2])):
        # known defects of the CFG construction (refuted theorems C21_asis_*): only for functions that have the
        # syntactic shape, and only the symptoms "the unbound error is raised at a different point / not at all",
        # "the compiled code dereferences NULL" (also in the decref of an assignment target wrongly hinted bound)
        if "jump2fin" in feat or "ret3fin" in feat:
            return "jump_skips_outer_finally"
        if "finjump" in feat:
            return "exception_in_finally_ending_in_jump"
    if py[0] in unbound:
        pt, ct = py[2][1:-1], cy[2][1:-1]
        continued = (cy[0] != "CRASH" and ct.startswith(pt) and
                     (len(ct) > len(pt) or cy[0] not in unbound))
        if "int_consts" in feat and continued and _reads_garbage_int(pt, ct):
            # the compiled code carried on past the read and logged an integer that is not one of the program's
            # values: an uninitialised C long (a local inferred as C long is never unbound-checked)
            return "int_literal_local_inferred_c_long_unchecked"
        if "del_in_try" in feat and (cy[0] in ("CRASH", "SystemError") or continued):
            return "del_in_try_no_exception_edge"
        if "int_consts" in feat and continued:
            return "int_literal_local_inferred_c_long_unchecked"
        if "del_defnull" in dump_feat and continued:
            return "lenient_del_of_definitely_unbound_is_noop"
    if "ret1fin" in feat and "tryexc" in feat and py[0] in unbound and (
            cy[0] in ("CRASH", "SystemError") or cy[0] not in unbound or py[2] != cy[2]):
        # try: [try: ... return ... / finally: <may raise>] / except: <continues>  -- the exception raised inside a
        # finally clause that was entered by 'return' reaches the outer handler, whose continuation then reads a
        # variable that is unbound on that path only; minimal program in known_findings.json
        return "finally_entered_by_return_raises_into_outer_handler"
    return "unbound_behaviour_differs"


def build_all(ctx, mods):
    """mods: list of dict(name, src_path).  Compile with the patched compiler (lenient mode) in parallel
    workers, then gcc.  Returns dumps per module name and the per-module status."""
    W = ctx.workdir
    nw = 6 if len(mods) <= 6 else 8
    chunks = [mods[i::nw] for i in range(nw)]
    chunks = [c for c in chunks if c]

    def cy(i):
        jobs = [{"name": m["name"], "src": m["src"], "out": os.path.join(W, m["name"] + ".c")} for m in chunks[i]]
        spec = {"strict": False, "dumpfile": os.path.join(W, "dump%d.json" % i), "jobs": jobs}
        return cybuild.run_script(WORKER, W, spec, name="c21worker%d.py" % i, timeout=1500)
    status, dumps = {}, {}
    with cf.ThreadPoolExecutor(max_workers=nw) as ex:
        rs = list(ex.map(cy, range(len(chunks))))
    for i, r in enumerate(rs):
        if not r["json"]:
            for m in chunks[i]:
                status[m["name"]] = "worker failed: " + r["err"][-1500:]
            continue
        for res in r["json"]:
            status[res["name"]] = None if res["ok"] else ("cython: " + (res["crash"] or res["errors"])[-1500:])
            status[res["name"] + "/warnings"] = res["errors"]
        for d in json.load(open(os.path.join(W, "dump%d.json" % i))):
            dumps.setdefault(d["module"], []).append(d)

    def cc(m):
        if status.get(m["name"]) is not None:
            return None
        rc, err = cybuild.cc(os.path.join(W, m["name"] + ".c"), os.path.join(W, m["name"] + cybuild.EXT),
                             cflags=["-O0"])
        return None if rc == 0 else "cc: " + err[-1500:]
    with cf.ThreadPoolExecutor(max_workers=8) as ex:
        for m, e in zip(mods, ex.map(cc, mods)):
            if e:
                status[m["name"]] = e
    return dumps, status


def mark_shared(fl):
    cnt = {}
    for b in fl["blocks"]:
        for s in b["stats"]:
            cnt[s["nid"]] = cnt.get(s["nid"], 0) + 1
    for b in fl["blocks"]:
        for s in b["stats"]:
            if cnt[s["nid"]] > 1:
                s["shared"] = True


def run(ctx):
    quick = ctx.tier == "quick"
    rng = ctx.rng
    nmods, nfun, cap = (4, 10, 40) if quick else (32, 14, 128)
    W = ctx.workdir
    with open(os.path.join(W, "c21run.py"), "w") as f:
        f.write(RUNNER)
    mods = []
    for mi in range(nmods):
        name = "c21m%d" % mi
        funcs = []
        src = "# cython: language_level=3\n" + PRELUDE
        for fi in range(nfun):
            if mi == 0 and fi < len(FIXED):
                fsrc, doms, feat = FIXED[fi]
                fsrc = fsrc.replace("def fx%d(" % fi, "def f%d(" % fi)
            else:
                fsrc, doms, feat = gen_function(rng, "f%d" % fi, del_in_try=(rng.random() < 0.3),
                                                closure=(rng.random() < 0.25), use_match=(rng.random() < 0.3),
                                                int_consts=(rng.random() < 0.1), wild=(rng.random() < 0.2))
            start = src.count("\n") + 1
            src += "\n" + fsrc
            funcs.append({"name": "f%d" % fi, "doms": doms, "feat": feat, "src": fsrc,
                          "lines": (start, src.count("\n") + 1), "inputs": inputs_for(doms, rng, cap)})
        path = os.path.join(W, name + ".pyx")
        with open(path, "w") as f:
            f.write(src)
        mods.append({"name": name, "src": path, "funcs": funcs})
    # ---- core programs: the language of M_FlowCFG (jumps through nested try/finally/except/with in loops)
    here = os.path.dirname(os.path.abspath(__file__))
    import sys
    if here not in sys.path:
        sys.path.insert(0, here)
    import C21_core as K
    combos = [(j, w) for ji, j in enumerate(K.JUMPS) for wi, w in enumerate(K.WRAPS)
              if not quick or (wi + ji) % 2 == 0]
    reps = 1 if quick else 12
    core_funcs = [(list(b), "fixed", ()) for b in K.FIXED_CORE]
    for rep in range(reps):
        for ci, (j, w) in enumerate(combos):
            body, doms = K.gen_core(rng, j, w, ("for", "while")[(rep + ci) % 2],
                                    fin_jump_prob=0.15 if rep % 2 == 1 else 0.0,
                                    contrast_prob=(1.0, 0.0, 0.6)[rep % 3],
                                    shape="ABAC"[(ci + rep) % 4] if rep % 3 == 0 else None)
            core_funcs.append((body, j, w))
    ncm = 3 if quick else 24
    core_cap = 300 if quick else 1500
    for mi in range(ncm):
        name = "c21k%d" % mi
        funcs = []
        src = "# cython: language_level=3\n" + PRELUDE + K.PRELUDE_CORE
        for fi, (body, j, w) in enumerate(core_funcs[mi::ncm]):
            fname = "k%d" % fi
            fsrc = K.render_function(fname, body)
            ne, args, toks, names = K.encode(body)
            start = src.count("\n") + 1
            src += "\n" + fsrc
            doms = K.slots(body)
            feat = sorted(K.features(body) | {"core"})
            funcs.append({"name": fname, "doms": doms, "feat": feat, "src": fsrc,
                          "lines": (start, src.count("\n") + 1), "inputs": inputs_for(doms, rng, core_cap),
                          "core": {"q": "cfg %s %d %s %s" % (FX, ne, args, toks), "names": names,
                                   "jump": j, "wraps": "".join(w)}})
        path = os.path.join(W, name + ".pyx")
        with open(path, "w") as f:
            f.write(src)
        mods.append({"name": name, "src": path, "funcs": funcs, "prelude": PRELUDE + K.PRELUDE_CORE})
    import time
    t0 = time.time()
    dumps, status = build_all(ctx, mods)
    t1 = time.time()

    # ---- (a) model vs dumped ControlFlow state
    model = ctx.model("flow")
    q, meta = [], []
    for m in mods:
        for fl in dumps.get(m["name"], []):
            if "dump_error" in fl:
                ctx.corr_break("flow:dump", {"module": m["name"]}, fl["dump_error"], "dump")
                continue
            for b in fl["blocks"]:
                if b["bounded"] or b["orphans"]:
                    ctx.corr_break("flow:assumption", {"module": m["name"], "fname": fl["fname"]},
                                   {"bounded": b["bounded"], "orphans": b["orphans"]}, "bounded empty, parents in graph")
            mark_shared(fl)
            q.append(encode_flow(fl))
            meta.append((m, fl))
    answers = model.batch(q) if q else []
    dump_feat = {}
    for (m, fl), line, ans in zip(meta, q, answers):
        where = {"module": m["name"], "fname": fl["fname"], "line": fl["line"], "query": line}
        n = compare_flow(ctx, fl, ans, where)
        nb = len(fl["blocks"])
        ctx.case("cfg/blocks<=%d" % (8 if nb <= 8 else 20 if nb <= 20 else 50 if nb <= 50 else 1000),
                 {"module": m["name"], "fname": fl["fname"], "blocks": nb}, sig=("cfg", line))
        df = set()
        for b in fl["blocks"]:
            for s in b["stats"]:
                if s["k"] == "D" and s["null"]:
                    df.add("del_defnull")
                if s["k"] == "R" and s["null"] and not s["allow"]:
                    df.add("rejected_by_default")
        for f in m["funcs"]:
            if f["lines"][0] <= fl["line"] < f["lines"][1]:
                dump_feat.setdefault((m["name"], f["name"]), set()).update(df)

    # ---- (a2) model of the CFG construction vs the statements and hints of the real flow (core functions)
    cq, cmeta = [], []
    for m in mods:
        by_name = {fl.get("fname"): fl for fl in dumps.get(m["name"], []) if "dump_error" not in fl}
        for f in m["funcs"]:
            if "core" not in f:
                continue
            fl = by_name.get(f["name"])
            if fl is None:
                if status.get(m["name"]) is None:
                    ctx.corr_break("cfg:dump", {"module": m["name"], "func": f["name"]}, "no flow dumped", "flow")
                continue
            cq.append(f["core"]["q"])
            cmeta.append((m, f, fl))
    cans = model.batch(cq) if cq else []
    for (m, f, fl), ans in zip(cmeta, cans):
        where = {"module": m["name"], "func": f["name"], "source": f["src"], "query": f["core"]["q"]}
        compare_core(ctx, fl, f["core"], ans, where)
        ctx.case("corecfg/%s/depth%d" % (f["core"]["jump"], len(f["core"]["wraps"])),
                 {"module": m["name"], "func": f["name"]}, sig=("corecfg", f["core"]["q"]))

    t2 = time.time()
    # ---- (b) compiled functions vs CPython on every input vector
    cy_cases, py_cases, owners = [], [], []
    for m in mods:
        if status.get(m["name"]) is not None:
            ctx.corr_break("build", {"module": m["name"], "source": m["src"]}, status[m["name"]], "module builds")
            continue
        for f in m["funcs"]:
            cy_cases.append(["c21run.run_cy", [m["name"], f["name"], f["inputs"]]])
            py_cases.append(["c21run.run_py", [m["src"], f["name"], f["inputs"]]])
            owners.append((m, f))
    rc = cybuild.call_cases(W, cy_cases, setup="import c21run", alarm=60)
    rp = cybuild.call_cases(W, py_cases, setup="import c21run", alarm=60)
    # a crash loses the whole function: re-run it one input at a time
    # (at most RETRY inputs: every crash costs a fresh interpreter)
    RETRY = 24 if quick else 60
    retry = [(i, j) for i, r in enumerate(rc) if "e" in r for j in range(min(RETRY, len(owners[i][1]["inputs"])))]
    rr = cybuild.call_cases(W, [["c21run.run_cy", [owners[i][0]["name"], owners[i][1]["name"],
                                                    [owners[i][1]["inputs"][j]]]] for i, j in retry],
                            setup="import c21run", alarm=20, max_crashes=400) if retry else []
    ctx.note("wall: build %.0fs, model %.0fs, run %.0fs; %d functions, %d crashed and were re-run per input" % (
        t1 - t0, t2 - t1, time.time() - t2, len(owners), len(set(i for i, _ in retry))))
    single = {}
    for (i, j), r in zip(retry, rr):
        single[(i, j)] = json.loads(eval(r["r"]))[0] if "r" in r else [r["e"], "", ""]
    for i, ((m, f), c, p) in enumerate(zip(owners, rc, rp)):
        if "e" in p:
            ctx.corr_break("oracle", {"module": m["name"], "func": f["name"]}, p, "CPython runs the source")
            continue
        pys = json.loads(eval(p["r"]))
        cys = json.loads(eval(c["r"])) if "r" in c else [single[(i, j)] for j in range(min(RETRY, len(f["inputs"])))]
        dfe = dump_feat.get((m["name"], f["name"]), set())
        for inp, py, cy in zip(f["inputs"], pys, cys):
            unb = py[0] in ("UnboundLocalError", "NameError")
            stratum = "%s/%s%s" % ("lenient-only" if "rejected_by_default" in dfe else "default",
                                   "unbound" if unb else ("exc" if py[0] != "ok" else "value"),
                                   "/closure" if "def h1" in f["src"] else "")
            if "core" in f:
                stratum = "core/%s/%s" % (f["core"]["jump"], stratum)
            ctx.case(stratum, {"module": m["name"], "func": f["name"], "c": inp}, sig=(f["src"], tuple(inp)),
                     nontrivial=("read" in f["feat"] or "del" in f["feat"]))
            if py != cy:
                ctx.fail(classify(f["feat"], dfe, py, cy),
                         {"module": m["name"], "func": f["name"], "c": inp,
                          "source": m.get("prelude", PRELUDE) + "\n" + f["src"]},
                         cy, py, note="features %s %s" % (f["feat"], sorted(dfe)))
    _debug_dump(ctx)


def _debug_dump(ctx):
    path = os.environ.get("C21_DEBUG")
    if not path:
        return
    import collections
    with open(path, "w") as f:
        cnt = collections.Counter(x["class"] for x in ctx.prop_failures)
        f.write("fail classes (unknown, first 50): %s\nknown hits: %s\n" % (
            dict(cnt), {k: v["count"] for k, v in ctx.known_hits.items()}))
        for x in ctx.prop_failures[:12]:
            f.write("FAIL %s %s %s c=%s obs=%s exp=%s %s\n%s\n" % (
                x["class"], x["input"].get("module"), x["input"].get("func"), x["input"].get("c"),
                x["observed"], x["expected"], x["note"], x["input"].get("source", "")[-1500:]))
        for x in ctx.corr_breaks[:20]:
            f.write("BREAK %s %s impl=%s model=%s\n" % (x["pair"], json.dumps(x["input"])[:1800],
                                                       json.dumps(x["impl"])[:600], json.dumps(x["model"])[:600]))
        f.write("notes: %s\n" % ctx.notes)


def replay(ctx, obj):
    inp = obj["input"]
    W = ctx.workdir
    with open(os.path.join(W, "c21run.py"), "w") as f:
        f.write(RUNNER)
    path = os.path.join(W, "c21replay.pyx")
    with open(path, "w") as f:
        f.write("# cython: language_level=3\n" + inp["source"])
    dumps, status = build_all(ctx, [{"name": "c21replay", "src": path}])
    print("build:", status.get("c21replay"))
    r = cybuild.call_cases(W, [["c21run.run_cy", ["c21replay", inp["func"], [inp["c"]]]],
                               ["c21run.run_py", [path, inp["func"], [inp["c"]]]]], setup="import c21run")
    print("compiled:", r[0])
    print("CPython :", r[1], "expected", obj.get("expected"))
