"""C09 part (c): ConstantFolding on constant expression trees (Optimize.py: visit_SequenceNode, visit_MulNode /
_calculate_constant_seq, visit_BinopNode, visit_PrimaryCmpNode, visit_BoolBinopNode, visit_CondExprNode,
visit_SliceIndexNode ...).

Two families of generated expressions, all compiled into ONE module (module level, an untyped function, a function
with C-typed arguments, and a function that is never called for expressions CPython rejects at run time):
  * model expressions (the grammar of coq/theories/Model/M_Fold.v): the tree the compiler holds right after the
    ConstantFolding stage (node kinds, args, mult_factor, constant_result) is compared with the extracted model,
    the compiled value with CPython's value of the same text and with the model's value;
  * operator expressions: trees over literal constants under every foldable operator, compared with CPython
    (type-exact, float bits) -- no model.
"""
import ast, json, os, re, struct
import cybuild

# model flag: "1" after the orchestrator applied proposed_fixes/C09-multiplied_sequence_stale_constant.diff
SEQ_CRES = os.environ.get("C09_SEQ_CRES", "1") == "1"

# run-time names: index in the model's environment, name, Python value text, C type in the typed function
VARS = [("n0", "0", "Py_ssize_t"), ("n1", "1", "Py_ssize_t"), ("n2", "2", "Py_ssize_t"), ("n3", "3", "int"),
        ("nm", "-1", "int"), ("bt", "True", "object"), ("bf", "False", "object"), ("s2", "(1, 2)", "tuple"),
        ("l1", "[7]", "list"), ("e0", "()", "tuple"), ("nn", "None", "object")]
VIDX = {v[0]: i for i, v in enumerate(VARS)}


def V(name):
    return ("V", VIDX[name])


def I(z):
    return ("I", z)


def T(*items):
    return ("T", list(items))


def L(*items):
    return ("L", list(items))


def M(a, b):
    return ("M", a, b)


def ST(e):
    return ("*", e)


ATOM = ("I", "B", "O", "V", "T", "L")


def render(e, top=True):
    k = e[0]
    if k == "I":
        return str(e[1]) if e[1] >= 0 else "(%d)" % e[1]
    if k == "B":
        return "True" if e[1] else "False"
    if k == "O":
        return "..." if e[1] else "None"
    if k == "V":
        return VARS[e[1]][0]
    if k == "*":
        return "*" + render(e[1])
    if k in "TL":
        body = ", ".join(render(x) for x in e[1])
        if k == "T":
            return "(" + body + ("," if len(e[1]) == 1 else "") + ")"
        return "[" + body + "]"
    if k == "M":
        def op(x, left):
            s = render(x)
            return "(" + s + ")" if x[0] == "M" and not left else s
        return op(e[1], True) + " * " + op(e[2], False)
    if k == "C":
        return "(" + render(e[1], False) + " == " + render(e[2], False) + ")"
    if k == "R":
        return "(" + render(e[1], False) + " or " + render(e[2], False) + ")"
    if k == "Q":
        return "(" + render(e[2], False) + " if " + render(e[1], False) + " else " + render(e[3], False) + ")"
    raise ValueError(e)


def tokens(e):
    k = e[0]
    if k == "I":
        return ["I%d" % e[1]]
    if k in "BO":
        return ["%s%d" % (k, int(e[1]))]
    if k == "V":
        return ["V%d" % e[1]]
    if k == "*":
        return ["*"] + tokens(e[1])
    if k in "TL":
        return ["%s%d" % (k, len(e[1]))] + [t for x in e[1] for t in tokens(x)]
    return [k] + [t for x in e[1:] for t in tokens(x)]


def sval(v):
    """canonical text of a Python value (the model's notation)"""
    if v is None:
        return "o0"
    if v is Ellipsis:
        return "o1"
    if isinstance(v, bool):
        return "b%d" % v
    if isinstance(v, int):
        return "i%d" % v
    if isinstance(v, tuple):
        return "t[" + ",".join(sval(x) for x in v) + "]"
    if isinstance(v, list):
        return "l[" + ",".join(sval(x) for x in v) + "]"
    return "?" + type(v).__name__


def env_values():
    return [eval(v[1]) for v in VARS]


def env_tokens():
    out = []
    def tok(v):
        if v is None:
            out.append("o0")
        elif isinstance(v, bool):
            out.append("b%d" % v)
        elif isinstance(v, int):
            out.append("i%d" % v)
        else:
            out.append(("t" if isinstance(v, tuple) else "l") + str(len(v)))
            for x in v:
                tok(x)
    for v in env_values():
        tok(v)
    return out


def has_seq_mul(e):
    """a repetition of a display somewhere in the tree"""
    def seqish(x):
        return x[0] in "TL" or (x[0] == "M" and (seqish(x[1]) or seqish(x[2])))
    if e[0] == "M" and (seqish(e[1]) or seqish(e[2])):
        return True
    if e[0] in "TL":
        return any(has_seq_mul(x) for x in e[1])
    if e[0] in "IBOV":
        return False
    return any(has_seq_mul(x) for x in e[1:])


def bool_times_display(e):
    """True * (1, 2) / False * [7]: a bool LITERAL as the left operand of a display repetition makes the compiler emit
    C that does not compile ('PyList_New(1 * True)': MulNode.analyse_sequence_mul) -- no run-time value to compare,
    reported separately; the generators leave the shape out"""
    def seqish(x):
        return x[0] in "TL" or (x[0] == "M" and (seqish(x[1]) or seqish(x[2])))
    if e[0] == "M" and e[1][0] in "BCRQ" and seqish(e[2]):      # ('==', 'or', conditional: may fold to a bool literal)
        return True
    if e[0] in "TL":
        return any(bool_times_display(x) for x in e[1])
    if e[0] in "IBOV":
        return False
    return any(bool_times_display(x) for x in e[1:])


def classify_model(e):
    """finding class of a wrong value, from the expression only"""
    def consumer_on_mul(x):
        if x[0] == "C" and (has_seq_mul(x[1]) or has_seq_mul(x[2])):
            return True
        if x[0] in "RQ" and has_seq_mul(x[1]):
            return True
        if x[0] in "TL":
            return any(consumer_on_mul(y) for y in x[1])
        if x[0] in "IBOV":
            return False
        return any(consumer_on_mul(y) for y in x[1:])
    if consumer_on_mul(e):
        return "multiplied_sequence_stale_constant"
    if any(t == "*" for t in tokens(e)):
        return "starred_display_wrong"
    return "sequence_display_wrong"


def classify_text(text):
    """the same for an operator expression given as text"""
    try:
        tree = ast.parse(text, mode="eval")
    except SyntaxError:
        return "folded_expr_wrong"
    def seqish(n):
        return isinstance(n, (ast.Tuple, ast.List)) or (isinstance(n, ast.BinOp) and isinstance(n.op, ast.Mult)
                                                         and (seqish(n.left) or seqish(n.right)))
    def has_mul(n):
        return any(isinstance(x, ast.BinOp) and isinstance(x.op, ast.Mult) and (seqish(x.left) or seqish(x.right))
                   for x in ast.walk(n))
    # x in [a, b] * n with a run-time n: FlattenInListTransform tests the items and ignores the factor
    for n in ast.walk(tree):
        if isinstance(n, ast.Compare) and len(n.ops) == 1 and isinstance(n.ops[0], (ast.In, ast.NotIn)):
            r = n.comparators[0]
            if isinstance(r, ast.BinOp) and isinstance(r.op, ast.Mult) and (seqish(r.left) or seqish(r.right)) \
                    and any(isinstance(x, ast.Name) for x in ast.walk(r)):
                return "in_test_runtime_factor_ignored"
    # a conditional expression / and / or whose alternatives are an int-valued and a float-valued constant expression
    # is typed C double (255 if c else -1e400 gives 255.0): the spanning-type defect registered under C40
    # (c_typed_condexpr_boolop), seen here through constant operands
    def num_kind(n):
        try:
            v = eval(compile(ast.Expression(body=n), "<k>", "eval"), {"__builtins__": {}}, {})
        except Exception:
            return None
        return type(v).__name__ if type(v) in (int, float, bool) else None
    for n in ast.walk(tree):
        ops = n.values if isinstance(n, ast.BoolOp) else [n.body, n.orelse] if isinstance(n, ast.IfExp) else None
        if ops:
            kinds = {num_kind(o) for o in ops}
            if "float" in kinds and ("int" in kinds or "bool" in kinds):
                return "int_float_choice_typed_double"
    for n in ast.walk(tree):
        if isinstance(n, (ast.Compare, ast.BoolOp, ast.IfExp)) or (isinstance(n, ast.UnaryOp) and isinstance(n.op, ast.Not)):
            if has_mul(n):
                return "multiplied_sequence_stale_constant"
    return "folded_expr_wrong"


# ------------------------------------------------------------------------------------------------
# generators
# ------------------------------------------------------------------------------------------------
def model_exprs(rng, quick):
    """(stratum, expr) for the model grammar: every branch of _calculate_constant_seq / visit_SequenceNode"""
    E = []
    seqs = [T(I(1), I(2)), L(I(7)), T(), L(), T(I(0)), L(("B", True), ("O", False))]
    consts = [I(0), I(1), I(2), I(3), I(-1), I(-2), ("B", True), ("B", False)]
    runtime = [V(n) for n in ("n0", "n1", "n2", "n3", "nm", "bt", "bf")]
    bad = [("O", False), ("O", True), V("nn"), T(I(1)), V("s2")]
    # 1. sequence * factor, factor * sequence: factor <= 0, 1, > 1, bool, run-time, not a number
    for s in seqs:
        for f in consts + runtime + bad:
            E.append(("mul/seq*factor", M(s, f)))
            E.append(("mul/factor*seq", M(f, s)))
    # 2. a sequence that already has a factor: merged, dropped, left as a product
    fs = [I(2), I(0), I(-1), I(1), I(3), V("n2"), V("n0"), ("B", True), ("B", False)]
    for s in (T(I(1), I(2)), L(I(7))):
        for f1 in fs:
            for f2 in fs:
                E.append(("mul/nested/(s*a)*b", M(M(s, f1), f2)))
                E.append(("mul/nested/b*(s*a)", M(f2, M(s, f1))))
                E.append(("mul/nested/(a*s)*b", M(M(f1, s), f2)))
                E.append(("mul/nested/b*(a*s)", M(f2, M(f1, s))))
    for f1, f2, f3 in [(I(2), I(3), I(2)), (I(2), V("n2"), I(2)), (V("n2"), I(2), I(3)), (I(2), I(2), I(0)), (I(2), I(0), I(3))]:
        E.append(("mul/nested/three", M(M(M(T(I(1), I(2)), f1), f2), f3)))
        E.append(("mul/nested/int-product", M(M(f1, f2), L(I(7)))))
    # 3. starred items: literal with / without factor, in tuple and list displays, first / middle / last / only
    inner = [T(I(1), I(2)), L(I(7)), T(), L(I(4), I(5), I(6))]
    facs = [None, I(2), I(3), I(1), I(0), I(-1), V("n2"), V("n0"), V("bt"), ("B", True)]
    for disp in (T, L):
        for s in inner:
            for f in facs:
                x = s if f is None else M(s, f)
                E.append(("star/only", disp(ST(x))))
                E.append(("star/first", disp(ST(x), I(3))))
                E.append(("star/last", disp(I(0), ST(x))))
                E.append(("star/middle", disp(I(0), ST(x), I(3))))
                if f is not None and f[0] == "I":
                    E.append(("star/int*seq", disp(I(0), ST(M(f, s)))))
                E.append(("star/two", disp(ST(x), ST(M(T(I(3)), I(2))))))
                E.append(("star/two", disp(ST(T(I(8), I(9))), ST(x))))
    for x in [T(ST(T(I(1), ST(M(T(I(2)), I(2))))), I(3)), T(ST(L(ST(M(T(I(1), I(2)), I(2))))), I(3)),
              T(ST(M(T(ST(T(I(1), I(2)))), I(2)))), L(ST(M(L(ST(M(L(I(7)), I(2)))), I(2)))),
              M(T(ST(M(T(I(1), I(2)), I(2))), I(3)), I(2)), M(I(2), L(I(0), ST(M(L(I(7)), V("n2"))))),
              T(T(ST(M(T(I(1)), I(3))), I(2)), T(I(1), I(2))), T(M(T(I(1), I(2)), I(2)), I(3)),
              T(ST(V("s2")), I(1)), T(ST(M(V("s2"), I(2))), I(1)), L(ST(M(V("l1"), V("n2")))), T(ST(V("e0"))),
              T(ST(M(I(2), V("s2")))), T(ST(V("nn"))), L(ST(M(T(I(1)), ("O", False))))]:
        E.append(("star/nested", x))
    # 4. consumers of constant results
    prods = [M(T(I(1), I(2)), I(2)), M(L(I(7)), I(3)), M(T(I(0)), I(0)), M(T(I(0)), V("n0")), M(T(I(0)), V("n2")),
             M(T(I(1), I(2)), V("n1")), M(I(2), T(I(1), I(2))), M(M(T(I(1), I(2)), V("n2")), I(2)), M(T(), I(2)),
             M(L(I(1)), ("B", False)), M(T(I(1), I(2)), I(1)), M(T(I(1), I(2)), ("B", True)), T(ST(M(T(I(1), I(2)), I(2)))),
             T(M(T(I(1), I(2)), I(2)), I(3)), T(I(1), I(2)), L(I(7)), T(), I(0), I(5), ("B", False), ("O", False), V("n0")]
    others = [T(I(1), I(2)), T(I(1), I(2), I(1), I(2)), L(I(7)), L(I(7), I(7), I(7)), T(), L(), T(I(0)), T(T(I(1), I(2)), I(3)),
              T(T(I(1), I(2), I(1), I(2)), I(3)), L(I(1), I(2)), T(("B", True), I(2)), I(0), ("B", False)]
    for p in prods:
        for o in (others if not quick else rng.sample(others, 6)):
            E.append(("consumer/==", ("C", p, o)))
            if rng.random() < 0.3:
                E.append(("consumer/==", ("C", o, p)))
        E.append(("consumer/or", ("R", p, I(5))))
        E.append(("consumer/or", ("R", p, M(T(I(1)), I(2)))))
        E.append(("consumer/cond", ("Q", p, I(1), I(2))))
        E.append(("consumer/cond", ("Q", p, M(T(I(1)), I(2)), T())))
        E.append(("consumer/nested", T(("R", p, I(5)), ("C", p, p))))
    # 5. random trees
    def rnd(d, seq_bias=0.5):
        r = rng.random()
        if d <= 0 or r < 0.18:
            return rng.choice(consts + runtime[:5] + [("O", False), V("s2"), V("l1")])
        if r < 0.50:
            n = rng.choice([0, 1, 1, 2, 2, 3])
            items = []
            for _ in range(n):
                x = rnd(d - 1)
                if rng.random() < 0.35 and (x[0] in "TL" or (x[0] == "M" and has_seq_mul(x)) or x in (V("s2"), V("l1"))):
                    x = ST(x)      # (a starred int literal is a compile-time error in Cython, a TypeError in CPython)
                items.append(x)
            return (rng.choice("TL"), items)
        if r < 0.82:
            a, b = rnd(d - 1), rng.choice(consts[:5] + runtime[:5]) if rng.random() < 0.7 else rnd(d - 1)
            return M(a, b) if rng.random() < 0.7 else M(b, a)
        def obj(x):
            # a tuple display of run-time C values is a ctuple; its truth test / comparison is typed C code
            # (invalid C for 'ctuple or ctuple'): the operands of the consumers are list displays then
            if x[0] == "T" and any(t[0] in "VCRQ" for t in tokens(x)):
                return ("L", x[1])
            return x
        if r < 0.90:
            return ("C", obj(rnd(d - 1)), obj(rnd(d - 1)))
        if r < 0.95:
            return ("R", obj(rnd(d - 1)), obj(rnd(d - 1)))
        # both branches of one category: Cython types 'lit if c else (lit,)' statically and rejects the mix
        def cat(x):
            if x[0] == "L":           # (two tuple displays of different lengths are different ctuple types: rejected too)
                return "list"
            return "int" if x[0] in "IB" or (x[0] == "V" and x[1] < 5) else "other"
        a = rnd(d - 1)
        for _ in range(20):
            b = rnd(d - 1)
            if cat(a) == cat(b) != "other":
                return ("Q", obj(rnd(d - 1)), a, b)
        return ("Q", obj(rnd(d - 1)), a, a)
    for _ in range(120 if quick else 3000):
        x = rnd(3)
        if x[0] not in "IBOV":
            E.append(("random", x))
    if quick:
        # budget: everything systematic of families 3/4 and a sample of the big cross products
        keep, seen = [], set()
        by = {}
        for st, x in E:
            by.setdefault(st, []).append(x)
        for st, xs in by.items():
            cap = {"mul/seq*factor": 45, "mul/factor*seq": 35, "mul/nested/(s*a)*b": 30, "mul/nested/b*(s*a)": 16,
                   "mul/nested/(a*s)*b": 16, "mul/nested/b*(a*s)": 12, "star/two": 20, "star/only": 20, "star/first": 20,
                   "star/last": 20, "star/middle": 30, "star/int*seq": 16, "consumer/==": 50, "consumer/or": 24,
                   "consumer/cond": 24, "consumer/nested": 12, "random": 60}.get(st, 10 ** 6)
            if len(xs) > cap:
                xs = rng.sample(xs, cap)
            keep += [(st, x) for x in xs]
        E = keep
    out, seen = [], set()
    for st, x in E:
        if bool_times_display(x):
            continue
        t = render(x)
        if t not in seen:
            seen.add(t)
            out.append((st, x, t))
    return out


INTS = ["0", "1", "-1", "2", "3", "7", "-7", "255", "2147483648", "-9223372036854775809", "10000000000001", "2**64", "2**100 + 1"]
FLOATS = ["0.0", "-0.0", "1.5", "-2.5", "2.0", "1e308", "1e400", "-1e400", "5e-324", "0.1"]
STRS = ["''", "'a'", "'ab'", "'abc'", "'\\xe9'", "'%d'"]
BYTES = ["b''", "b'a'", "b'ab'", "b'\\xff\\x00'"]


def op_exprs(rng, quick):
    """operator expressions over literal constants (text); only those CPython gives a value are kept"""
    E = []
    def add(st, t):
        E.append((st, t))
    seqs = ["(1, 2)", "[7]", "()", "[]", "(0,)", "(1, 2.0, True)", "[0.0, -0.0]", "('a', b'a')", "(None, ...)", "(2**64, -1)"]
    reps = ["(1, 2) * 2", "[7] * 3", "(0,) * 0", "2 * (1, 2)", "(1, 2) * 2 * 2", "[0.0] * 2", "(-0.0, 0) * 2", "(1,) * True",
            "[1, 2] * -1", "(1, 2) * n2", "n3 * [7]", "[1, 2] * n0", "(*(1, 2) * 2, 3)", "[0, *[7] * 3]", "(*(1, 2), *(3,) * 2)",
            "(*(1.0, -0.0) * 2, True)", "[0, *(False, 0) * 2, *[2 ** 70] * 2]", "((*(1,) * 3, 2), (1, 2))", "[*((1, 2) * n2), 3]"]
    flat = ["(1, 2, 1, 2)", "[7, 7, 7]", "(1, 2)", "[7]", "()", "[]", "(1, 2, 1, 2, 3)", "(1, 2, 3)", "[0, 7, 7, 7]", "[0, 7]"]
    # comparisons, membership, boolean operators, conditional expressions on repeated / starred displays
    for a in reps:
        for b in (flat if not quick else rng.sample(flat, 2)):
            op = rng.choice(["==", "!=", "<", "<=", ">", ">="])
            add("seq/compare", "(%s) %s %s" % (a, op, b))
        add("seq/compare", "(%s) == (%s)" % (a, a))
        add("seq/bool", "(%s) or 5" % a)
        add("seq/bool", "(%s) and 5" % a)
        add("seq/bool", "not (%s)" % a)
        add("seq/cond", "1 if (%s) else 2" % a)
        add("seq/cond", "(%s) if (%s) else ()" % (a, a))
        add("seq/in", "%s in (%s)" % (rng.choice(["1", "7", "2", "0", "1.0", "True", "(1, 2)"]), a))
        add("seq/in", "%s not in (%s)" % (rng.choice(["1", "7", "3", "0.0"]), a))
        # (indexing a display with a starred item: the type inferred for the assigned name is the starred operand's,
        #  'x = [0, *[7] * 3][1]' raises "Expected list, got int" -- type inference, not constant folding; left out)
        if "0,) * 0" not in a and "-1" not in a and "n0" not in a and "*(" not in a and "*[" not in a:
            add("seq/index", "(%s)[%s]" % (a, rng.choice(["0", "-1", "1"])))
        add("seq/slice", "(%s)[%s]" % (a, rng.choice(["1:3", ":1", "1:", "-2:", "::2", ":0", "0:100", "-100:2"])))
        add("seq/len", "len(%s)" % a)
        add("seq/concat", "(%s) + (%s)" % (a, a))
        add("seq/call", "_args(*%s)" % a if not a.startswith(("(*", "[*", "((*", "[0, *")) else "_args(*(%s))" % a)
        add("seq/call", "_args(0, *(%s), *%s)" % (a, rng.choice(seqs)))
        add("seq/nested", "((%s), [%s], 3)" % (a, a))
        add("seq/tuple()", "tuple(%s)" % a)
    for s in seqs + flat:
        add("seq/slice", "%s[%s]" % (s, rng.choice(["1:3", ":1", "1:", "-2:", "::2", ":0", "0:100", "-1:"])))
        if eval(s):
            add("seq/index", "%s[%s]" % (s, rng.choice(["0", "-1"])))
        add("seq/in", "%s in %s" % (rng.choice(["1", "7", "0", "0.0", "True", "None", "'a'"]), s))
        add("seq/bool", "%s or %s" % (s, rng.choice(seqs)))
        add("seq/bool", "%s and %s" % (s, rng.choice(seqs)))
        add("seq/compare", "%s == %s" % (s, rng.choice(seqs + flat)))
    for t in ["{*(1, 2) * 2, 3}", "{*[7] * 3}", "{0, *(1, 2), *(2, 3) * 2}", "{1: 2, **{3: 4}}", "{'a': (1,) * 2, 'b': [0.0] * 2}",
              "{**{1: (0,) * 2}, 1: 5}", "{1, 1.0, True}", "{0: 'a', 0.0: 'b', False: 'c'}", "3 in {1, 2, 3}",
              "1 in [1, 2] * n0", "1 not in [1, 2] * n0", "1 in [1, 2] * n2", "1 in (1, 2) * nm", "3 in [1, 2] * n0", "1 in [1, 2] * 0", "2.0 in {1, 2, 3}",
              "(1, 2) in {(1, 2), 3}", "'a' in 'abc'", "'' in ''", "b'a' in b'abc'", "'d' not in 'abc'", "1 in [1.0]", "True in (1,)",
              "None in (None,)", "1 < 2 < 3", "1 < 2 > 3", "(1, 2) < (1, 3) == (1, 3)", "0 == 0.0 == -0.0 == False", "1 == 1.0 != 2",
              "None is None", "None is not None", "() == []", "(1,) == [1]", "'a' == b'a'", "'a' * 3", "3 * 'ab'", "b'ab' * 2", "'ab' * 0",
              "'ab' * -1", "'a' * True", "('ab' * 3)[1:4]", "'abcdef'[1:4]", "'abcdef'[-2:]", "'abcdef'[::2]", "b'abcdef'[1:3]", "'abc'[1]",
              "b'abc'[1]", "'a' 'b'", "'a' + 'b'", "b'a' + b'b'", "'%d-%s' % (1, 'x')", "'%5.2f' % 1.5", "'%s' % ((1, 2) * 2,)",
              "f'{1}{(1, 2) * 2}'", "'a' if 1 else 'b'", "'a' or 'b'", "'' or 'b'", "'' and 'b'", "0 or 0.0", "0.0 or -0.0", "-0.0 or 0",
              "0 and 1", "None or 0", "None and 1", "not None", "not ()", "not (0,)", "not 0.0", "not -0.0", "not 'a'", "not ''",
              "1 if () else 2", "1 if (0,) else 2", "1 if None else 2", "1 if 0.0 else 2", "1 if '' else 2", "1 if b'' else 2",
              "(1 if 1.5 else 2) * (3 if 0 else 4)", "True + True", "True * True", "True & False", "True | False", "True ^ True",
              "~True", "-True", "+True", "True / True", "True // True", "True ** 2", "True << 2", "abs(-5)", "1 + 2 * 3 - 4 // 3",
              "(1).real", "2 ** -1", "0 ** 0", "0.0 ** 0", "(-8) ** (1 / 3) == 0", "10 ** 20 // 3", "-7 // 2", "-7 % 2", "7 % -2", "-7 // 2.0",
              "1e308 * 10", "-1e308 * 10", "1e400 * 0 == 0", "0.1 + 0.2", "1 / 3", "2 ** 0.5", "1e16 + 1", "int(1e16) + 1",
              "1 << 64", "-1 << 64", "-1 >> 64", "1 >> 1", "2 ** 64 >> 3", "~(2 ** 64)", "-(2 ** 63)", "--1", "- -0.0", "+-0.0"]:
        add("ops/fixed", t)
    # random operator trees, type-directed
    def num(d):
        if d <= 0 or rng.random() < 0.35:
            return rng.choice(INTS + FLOATS + ["True", "False"])
        op = rng.choice(["+", "-", "*", "/", "//", "%", "**", "<<", ">>", "&", "|", "^"])
        if op in ("<<", ">>", "&", "|", "^"):
            a, b = rng.choice(INTS + ["True", "False"]), rng.choice(["0", "1", "3", "7", "True", "64"] if op in ("<<", ">>") else INTS)
        elif op == "**":
            # (no negative exponents here: <big int literal> ** -1 is typed as a Python int although it is a float, and
            #  the product with a float then runs the PyLong fast path on it (assertion in debug headers) -- power typing,
            #  reported separately; 2 ** -1 is among the fixed expressions)
            #  a float ** 0.5 differs from CPython in the last bit (C pow / sqrt: the power properties' subject)
            a, b = num(d - 1), rng.choice(["0", "1", "2", "3", "True"])
        else:
            a, b = num(d - 1), num(d - 1)
        r = "(%s) %s (%s)" % (a, op, b)
        return rng.choice(["-", "+", "not ", ""]) + "(" + r + ")" if rng.random() < 0.2 else r
    def anyx(d):
        r = rng.random()
        if r < 0.35:
            return num(d)
        if r < 0.45:
            return rng.choice(STRS + BYTES + ["None"])
        if r < 0.6:
            return rng.choice(seqs + reps + flat)
        if r < 0.7:
            return "(%s) %s (%s)" % (num(d - 1), rng.choice(["==", "!=", "<", "<=", ">", ">="]), num(d - 1))
        if r < 0.8:
            return "(%s) %s (%s)" % (anyx(d - 1), rng.choice(["and", "or"]), anyx(d - 1))
        if r < 0.88:
            # branches of one kind (Cython types the conditional expression statically)
            g = rng.choice([lambda: num(d - 1), lambda: rng.choice(STRS), lambda: rng.choice(BYTES), lambda: rng.choice(["[7] * 3", "[7, 7, 7]", "[]", "[0, *[7] * 3]", "[1, 2] * n0", "[0.0] * 2", "[7]"])])
            return "(%s) if (%s) else (%s)" % (g(), anyx(d - 1), g())
        if r < 0.94:
            return "(%s, %s)" % (anyx(d - 1), anyx(d - 1))
        return "(%s) * %s" % (rng.choice(STRS + BYTES + seqs), rng.choice(["0", "1", "2", "3", "-1", "True", "n2"]))
    for _ in range(60 if quick else 4000):
        add("ops/random", anyx(2))
    for _ in range(40 if quick else 2000):
        add("ops/random-num", num(3))
    return E


def evaluate(text, env):
    """CPython's value of the text, or None when it raises / is too big (generator filter only)"""
    import warnings
    try:
        with warnings.catch_warnings():
            warnings.simplefilter("ignore")
            v = eval(compile(text, "<c09>", "eval"), dict(env))
    except Exception:
        return False, None
    def has_complex(x):
        if isinstance(x, complex):
            return True
        if isinstance(x, (tuple, list, set, frozenset)):
            return any(has_complex(y) for y in x)
        if isinstance(x, dict):
            return any(has_complex(k) or has_complex(y) for k, y in x.items())
        return False
    try:
        if has_complex(v):            # negative ** fraction: crashes the compiler (own module, see complex_fold)
            return False, None
        if len(repr(v)) > 400:
            return False, None
    except Exception:
        return False, None
    return True, v


# ------------------------------------------------------------------------------------------------
# workers
# ------------------------------------------------------------------------------------------------
FRONT = r'''
import sys, json, os, io
import pyload; pyload.install()
spec = json.load(sys.stdin)
from Cython.Compiler import Main, Options, ExprNodes, Optimize, Nodes, Visitor, ModuleNode
from Cython import Utils
pyload.assert_sources()
VIDX = spec["vidx"]
def sval(v):
    if v is None: return "o0"
    if v is Ellipsis: return "o1"
    if isinstance(v, bool): return "b%d" % v
    if isinstance(v, int): return "i%d" % v
    if isinstance(v, tuple): return "t[" + ",".join(sval(x) for x in v) + "]"
    if isinstance(v, list): return "l[" + ",".join(sval(x) for x in v) + "]"
    return "?" + type(v).__name__
def cres(n):
    c = n.constant_result
    if c is ExprNodes.not_a_constant or c is ExprNodes.constant_value_not_set:
        return "-"
    return sval(c)
def desc(n):
    if isinstance(n, ExprNodes.BoolNode): return "B%d" % bool(n.value)
    if isinstance(n, ExprNodes.IntNode):
        v = Utils.str_to_number(n.value)
        return "I%d" % v if v == n.constant_result else "I?%s/%r" % (n.value, n.constant_result)
    if isinstance(n, ExprNodes.NoneNode): return "O0"
    if isinstance(n, ExprNodes.EllipsisNode): return "O1"
    if isinstance(n, ExprNodes.NameNode): return "V%s" % VIDX.get(n.name, "?" + n.name)
    if isinstance(n, ExprNodes.StarredUnpackingNode): return "*" + desc(n.target)
    if isinstance(n, (ExprNodes.TupleNode, ExprNodes.ListNode)):
        return "S%s(%s;%s;%s)" % ("t" if isinstance(n, ExprNodes.TupleNode) else "l", ",".join(desc(a) for a in n.args),
                                  "-" if n.mult_factor is None else desc(n.mult_factor), cres(n))
    if isinstance(n, ExprNodes.MulNode): return "M(%s,%s;%s)" % (desc(n.operand1), desc(n.operand2), cres(n))
    if isinstance(n, ExprNodes.PrimaryCmpNode) and n.operator == "==" and n.cascade is None:
        return "C(%s,%s)" % (desc(n.operand1), desc(n.operand2))
    if isinstance(n, ExprNodes.BoolBinopNode) and n.operator == "or": return "R(%s,%s)" % (desc(n.operand1), desc(n.operand2))
    if isinstance(n, ExprNodes.CondExprNode): return "Q(%s,%s,%s)" % (desc(n.condition), desc(n.true_val), desc(n.false_val))
    return "?" + type(n).__name__
REC = {}
class W(Visitor.TreeVisitor):
    def visit_Node(self, node):
        self.visitchildren(node)
    def visit_SingleAssignmentNode(self, node):
        nm = getattr(node.lhs, "name", None)
        if nm and nm[:2] in ("g_", "r_", "c_", "x_"):
            try:
                REC[nm] = desc(node.rhs)
            except Exception as e:
                REC[nm] = "!%s: %s" % (type(e).__name__, e)
        self.visitchildren(node)
orig = Optimize.ConstantFolding.__call__
def call(self, root):
    r = orig(self, root)
    if isinstance(r, ModuleNode.ModuleNode):
        W().visit(r)
    return r
Optimize.ConstantFolding.__call__ = call
directives = dict(Options.get_directive_defaults()); directives["language_level"] = 3
src = os.path.join(spec["dir"], spec["name"] + ".pyx")
err = io.StringIO(); old = sys.stderr; sys.stderr = err
try:
    opts = Main.CompilationOptions(Main.default_options, compiler_directives=directives, output_file=src[:-4] + ".c")
    res = Main.compile(src, opts)
    n = res.num_errors
except BaseException as e:
    import traceback
    n = -1; err.write(traceback.format_exc())
finally:
    sys.stderr = old
print(json.dumps({"errors": n, "stderr": err.getvalue()[-3000:], "rec": REC}))
'''

RUN = r'''
import sys, json, struct, warnings, math
spec = json.load(sys.stdin)
def canon(v):
    if isinstance(v, float):
        return ["float", "nan" if v != v else struct.pack("<d", v).hex()]
    if isinstance(v, complex):
        return ["complex", repr(v)]
    if isinstance(v, bool):
        return ["bool", repr(v)]
    if isinstance(v, int):
        return ["int", hex(v)]
    if isinstance(v, (tuple, list)):
        return [type(v).__name__] + [canon(x) for x in v]
    if isinstance(v, (set, frozenset)):
        return [type(v).__name__] + sorted([canon(x) for x in v], key=repr)
    if isinstance(v, dict):
        return ["dict"] + [[canon(k), canon(x)] for k, x in v.items()]
    return [type(v).__name__, repr(v)]
def _args(*a):
    return a
env = {k: eval(t) for k, t in spec["env"]}
env["_args"] = _args
out = {}
warnings.simplefilter("ignore")
want = []
for t in spec["texts"]:
    try:
        want.append(canon(eval(compile(t, "<c09>", "eval"), dict(env))))
    except BaseException as e:
        want.append(["EXC", type(e).__name__])
out["want"] = want
try:
    import c09fold as m
    res = {}
    for fn in spec["funcs"]:
        try:
            res[fn] = [canon(x) for x in getattr(m, fn)(*[env[k] for k, _ in spec["env"]])]
        except BaseException as e:
            res[fn] = ["EXC", type(e).__name__, str(e)[:200]]
    out["funcs"] = res
    out["globals"] = {k: canon(getattr(m, k)) for k in spec["globals"]}
except BaseException as e:
    import traceback
    out["import_error"] = traceback.format_exc()[-1500:]
print(json.dumps(out))
'''


def run(ctx):
    """returns None or an error tuple like build_and_compare"""
    rng, quick = ctx.rng, ctx.tier == "quick"
    wd = os.path.join(ctx.workdir, "fold")
    os.makedirs(wd, exist_ok=True)
    env = [(v[0], eval(v[1])) for v in VARS]
    env_ns = dict(env)
    env_ns["_args"] = lambda *a: a
    mex = model_exprs(rng, quick)
    oex = []
    seen = set()
    for st, t in op_exprs(rng, quick):
        if t in seen:
            continue
        seen.add(t)
        ok, _ = evaluate(t, env_ns)
        if ok:
            oex.append((st, t))
    # ---- the module ----
    items = []          # (kind, stratum, expr-or-None, text, valued)
    for st, x, t in mex:
        ok, _ = evaluate(t, env_ns)
        items.append(("model", st, x, t, ok))
    for st, t in oex:
        items.append(("ops", st, None, t, True))
    args_plain = ", ".join(v[0] for v in VARS)
    args_typed = ", ".join(("%s %s" % (v[2], v[0])) if v[2] != "object" else v[0] for v in VARS)
    lines = ["# cython: language_level=3", "def _args(*a):", "    return a", ""]
    lines += ["%s = %s" % (v[0], v[1]) for v in VARS] + [""]
    place = {}          # index -> list of (where, name)
    fbody = {"fv": [], "fc": [], "fe": []}
    for i, (kind, st, x, t, valued) in enumerate(items):
        if not valued:
            fbody["fe"].append((i, "x_%d" % i, t))
            place[i] = [("fe", "x_%d" % i)]
            continue
        # ('or' / conditional expressions mixing C integers with tuples are typed differently (C semantics): untyped only)
        mixed = re.search(r"\bor\b|\band\b|\bif\b", t) is not None
        fn = "fc" if not mixed and ((i % 2 and kind == "model") or (kind == "ops" and i % 3 == 0)) else "fv"
        nm = ("c_%d" if fn == "fc" else "r_%d") % i
        fbody[fn].append((i, nm, t))
        place[i] = [(fn, nm)]
        if i % 3 == 0 or st.startswith(("consumer", "seq/compare", "seq/bool", "ops/fixed")):
            lines.append("g_%d = %s" % (i, t))
            place[i].append(("g", "g_%d" % i))
    lines.append("")
    for fn, args in (("fv", args_plain), ("fc", args_typed), ("fe", args_plain)):
        lines.append("def %s(%s):" % (fn, args))
        for _, nm, t in fbody[fn]:
            lines.append("    %s = %s" % (nm, t))
        lines.append("    return [%s]" % ", ".join(nm for _, nm, _ in fbody[fn]))
        lines.append("")
    src = "\n".join(lines)
    with open(os.path.join(wd, "c09fold.pyx"), "w") as f:
        f.write(src)
    model = ctx.model("fold")
    et = " ".join(env_tokens())
    mq = ["fold %d 1 %s | %s" % (SEQ_CRES, et, " ".join(tokens(x))) for kind, st, x, t, v in items if kind == "model"]
    import concurrent.futures as cf
    with cf.ThreadPoolExecutor(2) as ex:
        mfut = ex.submit(model.batch, mq)
        r = cybuild.run_script(FRONT, wd, {"dir": wd, "name": "c09fold", "vidx": {v[0]: i for i, v in enumerate(VARS)}},
                               timeout=3000, name="c09fold_front.py")
        mres = mfut.result()
    fr = r["json"]
    if r["rc"] != 0 or not isinstance(fr, dict) or fr.get("errors") != 0:
        fr = fr if isinstance(fr, dict) else {}
        return ("front", "errors=%s %s %s" % (fr.get("errors"), (fr.get("stderr") or "")[-1100:], (r["err"] or "")[-300:]))
    rc, err = cybuild.cc(os.path.join(wd, "c09fold.c"), os.path.join(wd, "c09fold" + cybuild.EXT), cflags=["-O0"])
    if rc != 0:
        return ("cc", err[-1500:])
    r2 = cybuild.run_script(RUN, wd, {"env": [[v[0], v[1]] for v in VARS], "texts": [it[3] for it in items],
                                      "funcs": ["fv", "fc"], "globals": [nm for pl in place.values() for w, nm in pl if w == "g"]},
                            timeout=600, name="c09fold_run.py")
    out = r2["json"]
    if r2["rc"] != 0 or not isinstance(out, dict) or "import_error" in out:
        return ("run", (r2["err"] or "")[-800:] + str(out)[-1500:])
    got = {}
    for fn in ("fv", "fc"):
        res = out["funcs"][fn]
        if res and res[0] == "EXC":
            ctx.fail("function_raises", {"module": "c09fold", "func": fn}, res, "a list of values")
            continue
        for (i, nm, t), v in zip(fbody[fn], res):
            got[nm] = v
    got.update(out["globals"])
    complex_fold(ctx, wd)
    rec = fr["rec"]
    mi = 0
    for i, (kind, st, x, t, valued) in enumerate(items):
        want = out["want"][i]
        if kind == "model":
            line = mres[mi]
            mi += 1
            parts = line.split(" | ")
            inp = {"expr": t, "where": [w for w, _ in place[i]]}
            ctx.case("fold-model/" + st + ("" if valued else "/cpython-raises"), inp, sig=("foldm", t))
            if len(parts) != 4:
                ctx.corr_break("fold:model-query", inp, None, line[:200])
                continue
            mtree, meval, mden, _ = parts
            # tie 1: the tree after ConstantFolding (node kinds, args, mult_factor, constant_result)
            for w, nm in place[i]:
                if rec.get(nm) != mtree:
                    ctx.corr_break("fold:tree after ConstantFolding (compiler vs model)", {"expr": t, "at": w}, rec.get(nm), mtree)
                    break
            # tie 2: the model's Python semantics against CPython
            cp = None if want[0] == "EXC" else want
            mv = None if meval == "E" else meval
            if (cp is None) != (mv is None) or (cp is not None and canon_of_sval(mv) != cp):
                ctx.corr_break("fold:eval (model semantics vs CPython)", {"expr": t}, want, meval)
            if not valued:
                continue
            # property + tie 3: the compiled value is CPython's; if not, the model predicted that very value
            for w, nm in place[i]:
                g = got.get(nm)
                if g != want:
                    ctx.fail(classify_model(x), {"expr": t, "at": {"g": "module level", "fv": "function", "fc": "function with C-typed arguments"}[w],
                                                 "folded": rec.get(nm)}, g, want)
                    if mden == "E" or canon_of_sval(mden) != g:
                        ctx.corr_break("fold:value of the folded tree (compiler vs model)", {"expr": t, "at": w}, g, mden)
                    break
                elif mden != meval:
                    ctx.corr_break("fold:value of the folded tree (compiler vs model)", {"expr": t, "at": w}, g, mden)
                    break
        else:
            ctx.case("fold-ops/" + st, t, sig=("foldo", t))
            for w, nm in place[i]:
                g = got.get(nm)
                if g != want:
                    ctx.fail(classify_text(t), {"expr": t, "at": {"g": "module level", "fv": "function", "fc": "function with C-typed arguments"}[w]},
                             g, want)
                    break
    return None


def complex_fold(ctx, wd):
    """a folded binary operation with a complex result ((-1) ** 0.5): module of its own, a compiler crash must not
    hide the other cases"""
    for k, text in enumerate(["(-1) ** 0.5"]):
        inp = {"expr": text, "module": "c09cplx%d" % k}
        ctx.case("fold-ops/complex-result", inp, sig=("foldc", text))
        try:
            cybuild.build("c09cplx%d" % k, "# cython: language_level=3\ndef f():\n    return %s\n" % text, wd, cflags=["-O0"])
        except cybuild.BuildError as e:
            if e.stage == "cython-crash" and "could not convert string to float" in e.detail:
                ctx.fail("complex_constant_result_crash", inp, "compiler raises ValueError (FloatNode built from a complex constant result)",
                         "module builds; value as in CPython")
            else:
                ctx.corr_break("module c09cplx%d" % k, inp, str(e)[-600:], "builds")
            continue
        r = cybuild.call_cases(wd, [["c09cplx%d.f" % k, []]], setup="import c09cplx%d" % k)
        want = eval(text)
        # (after a repair the power runs in C: its last-bit accuracy is the power properties' subject, only the class counts)
        if r[0].get("t") not in ("complex", "float"):
            ctx.fail("complex_constant_result_wrong", inp, r[0], {"t": "complex", "r": repr(want)})


def canon_of_sval(s):
    """model value text -> the canon() form of the run worker"""
    pos = [0]
    def parse():
        c = s[pos[0]]
        if c in "ibo":
            m = re.match(r"[ibo]-?\d+", s[pos[0]:])
            tok = m.group(0)
            pos[0] += len(tok)
            if c == "i":
                return ["int", hex(int(tok[1:]))]
            if c == "b":
                return ["bool", "True" if tok[1:] == "1" else "False"]
            return ["ellipsis", "Ellipsis"] if tok[1:] == "1" else ["NoneType", "None"]
        kind = "tuple" if c == "t" else "list"
        pos[0] += 2
        out = [kind]
        while s[pos[0]] != "]":
            out.append(parse())
            if s[pos[0]] == ",":
                pos[0] += 1
        pos[0] += 1
        return out
    return parse()
