"""C44 - Tracebacks and code positions point at the right source (DESIGN 7/C44)."""
import json, os
import cybuild

TITLE = "Tracebacks and code positions point at the right source"
EXTRACTS = ["LineTable"]
RULE = ("start-sorted position lists (length 1..60/300; line deltas from {0,1,2,3..10,11..5000,up to 2^20}; "
        "multi-line spans 0/1..5/large; columns around the form boundaries 16/80/128 and up to 70000; end column "
        "before/after the start) with firstlineno <= first start; every entry form (short 0-9, one-line 10-12, long 14) "
        "is a stratum; synthetic valid tables with all 16 entry codes for the decoder model; ill-formed lists "
        "(unsorted, negative, end<start) for the error outcomes; generated .pyx modules (14/60 functions and methods each, "
        "nesting depth <= 3/5 of for/while/if/try-except/try-finally/with/re-raising handler/nested def) with raise sites "
        "of 7 kinds (raise, //0, KeyError, AttributeError, assert, C builtin, call chain into another function's site), "
        "one call per site; a fixed module with two functions raising at the same line number; distinct by (positions, "
        "firstlineno) resp. table bytes resp. (module source, raise site); non-trivial = non-empty list / raising call")
EXPLANATION = ("theorems: for EVERY list of well-formed positions sorted by start line (unbounded length and values) the "
               "repaired encoder's bytes decode, under the model of CPython 3.12's co_positions() reader, to exactly the "
               "input list, and under the model of the line reader (co_lines/PyCode_Addr2Line) to the start lines; the "
               "bytes are well formed (entry start bytes have bit 7 and length field 0, payload bytes are below 128); "
               "the code as it is does the same on single-line positions (all the compiler itself records) and is refuted "
               "on a multi-line span followed by another entry (F1). Correspondence: model bytes = build_line_table "
               "bytes; model decoders = CPython's co_positions()/co_lines() on the same bytes; CPython's decoding = "
               "the recorded positions; for compiled modules co_positions()/co_lines() of every function = the node_positions "
               "the compiler recorded, every raise-site line is in the table, and traceback entries (function, file, line, "
               "order, exception type) = CPython's for the same source. partial: traceback construction (AddTraceback, "
               "error_goto/mark_pos) and the tables of real compiled functions are only tested differentially against "
               "CPython, not proved; the columns recorded by _build_positions have no independent oracle.")
TRUSTED = ["model of CPython 3.12 Objects/codeobject.c readers (advance_with_locations, read_varint, advance, "
           "get_line_delta) written from the C source; tied to the running interpreter by the correspondence run",
           "C int arithmetic of the CPython reader modelled in Z (exact while lines < 2^30 and columns < 2^31-1)",
           "Python int / chr / format(':c') / latin-1 semantics of LineTable.py as modelled (byte = code point 0..255)",
           "oracles: code.replace(co_linetable=...).co_positions() / co_lines() of CPython 3.12.1; CPython's own "
           "traceback for the same source run interpreted"]
ASSUMPTIONS = ["positions are ints with 0 <= start_lineno <= end_lineno, 0 <= columns, sorted by start_lineno, "
               "firstlineno <= first start_lineno", "LineTable.py runs as Python source (uncompiled): no cython.int truncation"]

# which variant of the model corresponds to the tree under test:
#   0 = encode_single_position's long form returns end_lineno (the tree as it is)
#   1 = it returns start_lineno (after proposed_fixes/C44-multiline_span_followed_by_entry.diff)
MODEL_FX = int(os.environ.get("C44_MODEL_FX", "1"))

IMPL_SCRIPT = r'''
import pyload; pyload.install()
import sys, json
from Cython.Compiler import LineTable
pyload.assert_sources()
def _f(): pass
code = _f.__code__
def conv(t): return [-1 if x is None else x for x in t]
cases = json.load(sys.stdin)
out = []
for c in cases:
    first = c["first"]
    if c["k"] == "enc":
        ps = [tuple(p) for p in c["ps"]]
        try:
            s = LineTable.build_line_table(ps, first)
            b = s.encode("iso8859-1")            # as CodeObjectNode.generate_codeobj does
        except Exception as e:
            out.append({"e": type(e).__name__}); continue
    else:
        b = bytes.fromhex(c["hex"])
    co = code.replace(co_linetable=b, co_firstlineno=first)
    pos = [conv(t) for t in co.co_positions()]
    lines = []
    for (s, e, l) in co.co_lines():
        lines += [(-1 if l is None else l)] * ((e - s) // 2)
    out.append({"hex": b.hex(), "pos": pos, "lines": lines})
print(json.dumps(out))
'''


# ----------------------------------------------------------------------------- generators
def gen_col(rng):
    r = rng.random()
    if r < 0.30: return rng.randrange(0, 16)
    if r < 0.50: return rng.randrange(60, 100)
    if r < 0.70: return rng.randrange(110, 140)
    if r < 0.90: return rng.randrange(0, 400)
    return rng.randrange(0, 70000)


def gen_delta(rng):
    r = rng.random()
    if r < 0.35: return 0
    if r < 0.50: return 1
    if r < 0.60: return 2
    if r < 0.75: return rng.randrange(3, 11)
    if r < 0.95: return rng.randrange(11, 5001)
    return rng.randrange(5001, 2 ** 20)


def gen_positions(rng, maxlen, multiline):
    n = rng.randrange(1, maxlen + 1)
    first = rng.choice([1, 1, 2, 7, rng.randrange(1, 100000)])
    line = first + rng.choice([0, 0, 0, 1, 2, 3, rng.randrange(0, 5000)])
    ps = []
    for i in range(n):
        if i:
            line += gen_delta(rng)
        span = 0
        if multiline and rng.random() < 0.25:
            span = rng.choice([1, 1, 2, 5, rng.randrange(1, 64), rng.randrange(64, 5000)])
        sc = gen_col(rng)
        r = rng.random()
        if r < 0.45: ec = sc + rng.randrange(0, 20)
        elif r < 0.55: ec = sc + rng.choice([15, 16, 17])
        elif r < 0.75: ec = gen_col(rng)
        elif r < 0.85: ec = rng.randrange(0, sc + 1)
        else: ec = rng.choice([0, 127, 128, sc, sc + 1])
        ps.append([line, line + span, sc, ec])
    return ps, first


def boundary_cases():
    """every form boundary, deterministically"""
    out = []
    for sc in (0, 7, 8, 79, 80, 127, 128, 129):
        for d in (0, 1, 15, 16):
            for dl in (0, 1, 2, 3):
                out.append(([[10 + dl, 10 + dl, sc, sc + d]], 10))
    for ec in (0, 127, 128):
        for sc in (0, 79, 127, 128):
            out.append(([[5, 5, sc, ec], [5, 5, sc, ec]], 5))
    for v in (0, 1, 31, 32, 62, 63, 64, 65, 4094, 4095, 4096, 2 ** 18 - 1, 2 ** 18, 2 ** 24, 2 ** 29):
        out.append(([[1 + v, 1 + v, 0, 1]], 1))            # line delta varint (value 2*v)
        out.append(([[3, 3 + v, 0, 1]], 1))                # end line varint
        out.append(([[3, 4, v, 0]], 1))                    # column varints (value v+1)
        out.append(([[3, 4, 0, v]], 1))
        out.append(([[3, 3 + v, 0, 1], [3 + v, 3 + v, 1, 2]], 1))
        out.append(([[3, 3 + v, 0, 1], [4 + v, 4 + v, 1, 2]], 2))
    out.append(([[1, 3, 0, 5], [4, 4, 0, 1]], 1))          # DESIGN F1 witness
    out.append(([[1, 3, 0, 5], [2, 2, 0, 1]], 1))          # F1, assertion variant
    out.append(([[1, 3, 0, 5]], 1))                        # multi-line span last: fine
    out.append(([], 1))
    return out


def gen_nonwf(rng):
    kind = rng.choice(["unsorted", "negcol", "endline_lt_start", "first_gt_start", "negcol_long"])
    ps, first = gen_positions(rng, 6, False)
    i = rng.randrange(len(ps))
    if kind == "unsorted":
        ps.append([ps[-1][0] - rng.randrange(1, 50), ps[-1][0], 0, 1])
    elif kind == "negcol":
        ps[i][2] = -rng.randrange(1, 200); ps[i][3] = ps[i][2] + rng.randrange(0, 10)
    elif kind == "negcol_long":
        ps[i][1] += 1; ps[i][rng.choice([2, 3])] = -rng.randrange(1, 5)
    elif kind == "endline_lt_start":
        ps[i][1] = ps[i][0] - rng.randrange(1, 5)
    else:
        first = ps[0][0] + rng.randrange(1, 50)
    return kind, ps, first


def enc_varint(v):
    out = []
    while v >= 64:
        out.append(64 | (v & 63)); v >>= 6
    out.append(v)
    return out


def gen_table(rng, n):
    """a valid location table using every entry code (built here independently, decoder models only)"""
    bs = []
    for _ in range(n):
        code = rng.choice(list(range(16)) + [13, 14, 15, 14])
        ln = rng.randrange(0, 8) if rng.random() < 0.4 else 0
        bs.append(128 | (code << 3) | ln)
        sv = lambda: (lambda d: enc_varint((d << 1) if d >= 0 else (((-d) << 1) | 1)))(
            rng.choice([0, 1, 2, -1, -3, rng.randrange(-40, 6000), rng.randrange(0, 2 ** 20)]))
        uv = lambda: enc_varint(rng.choice([0, 1, 63, 64, rng.randrange(0, 5000), rng.randrange(0, 2 ** 22)]))
        if code == 15:
            pass
        elif code == 14:
            bs += sv() + uv() + uv() + uv()
        elif code == 13:
            bs += sv()
        elif code >= 10:
            bs += [rng.randrange(0, 128), rng.randrange(0, 128)]
        else:
            bs += [rng.randrange(0, 128)]
    return bytes(bs).hex()


def form_of(p, last):
    sl, el, sc, ec = p
    d = sl - last
    if el == sl and d == 0 and sc < 80 and 0 <= ec - sc < 16:
        return "short"
    if el == sl and 0 <= d < 3 and sc < 128 and ec < 128:
        return "oneline%d" % d
    return "long-multiline" if el != sl else "long"


def wellformed(ps, first):
    last = first
    for sl, el, sc, ec in ps:
        if not (0 <= sl <= el and sc >= 0 and ec >= 0 and sl >= last):
            return False
        last = sl
    return first >= 0


def classify(ps, first):
    """finding classes, from the input only"""
    if wellformed(ps, first) and any(p[1] > p[0] for p in ps[:-1]):
        return "multiline_span_followed_by_entry"
    return "wrong_positions"


def flat(ps):
    return ",".join(str(x) for p in ps for x in p) or "-"


def parse_model_pos(m):
    if not m.startswith("OK"):
        return m
    body = m[2:].strip()
    if body in ("", "-"):
        return []
    v = [int(x) for x in body.split(",")]
    return [v[i:i + 4] for i in range(0, len(v), 4)]


def parse_model_lines(m):
    if not m.startswith("OK"):
        return m
    body = m[2:].strip()
    return [] if body in ("", "-") else [int(x) for x in body.split(",")]


ERRMAP = {"AssertionError": "AssertionError", "ValueError": "EncodeError", "OverflowError": "EncodeError",
          "UnicodeEncodeError": "EncodeError"}


# ----------------------------------------------------------------------------- encoder part
def run_encoder(ctx):
    quick = ctx.tier == "quick"
    rng = ctx.rng
    cases = []          # (stratum, ps, first, is_wf)
    for ps, first in boundary_cases():
        cases.append(("boundary", ps, first))
    nrand = 1500 if quick else 20000
    for i in range(nrand):
        multiline = (i % 3 == 0)
        ps, first = gen_positions(rng, 60 if quick or i % 50 else 300, multiline)
        cases.append(("multiline" if multiline else "single-line", ps, first))
    for i in range(150 if quick else 1500):
        kind, ps, first = gen_nonwf(rng)
        cases.append(("nonwf/" + kind, ps, first))
    tables = [("table", gen_table(rng, rng.randrange(1, 40)), rng.randrange(10 ** 6, 2 * 10 ** 6))
              for _ in range(300 if quick else 4000)]

    stdin = [{"k": "enc", "ps": ps, "first": first} for _, ps, first in cases] + \
            [{"k": "dec", "hex": h, "first": first} for _, h, first in tables]
    r = cybuild.run_script(IMPL_SCRIPT, ctx.workdir, stdin, name="c44_impl.py", timeout=1500)
    if r["json"] is None or len(r["json"]) != len(stdin):
        ctx.corr_break("impl-script", "c44_impl.py", (r["rc"], r["err"][-800:]), "one result per case")
        return
    res = r["json"]
    model = ctx.model("linetable")
    mb = model.batch(["build %d %d %s" % (MODEL_FX, first, flat(ps)) for _, ps, first in cases])
    mb_fixed = model.batch(["build 1 %d %s" % (first, flat(ps)) for _, ps, first in cases])

    # second round of model queries: the decoders on the implementation's bytes
    dq, didx = [], []
    for i, ((st, ps, first), ri) in enumerate(zip(cases, res[:len(cases)])):
        if "hex" in ri:
            dq.append("decode %d %s" % (first, ri["hex"] or "-")); dq.append("lines %d %s" % (first, ri["hex"] or "-"))
            didx.append(i)
    for (st, h, first) in tables:
        dq.append("decode %d %s" % (first, h)); dq.append("lines %d %s" % (first, h))
    dres = model.batch(dq)
    dmap = {i: (dres[2 * k], dres[2 * k + 1]) for k, i in enumerate(didx)}

    forms_seen = {}
    for i, ((st, ps, first), ri, m, mf) in enumerate(zip(cases, res, mb, mb_fixed)):
        inp = {"positions": ps, "firstlineno": first}
        wf = wellformed(ps, first)
        last = first
        forms = set()
        for p in ps:
            forms.add(form_of(p, last)); last = p[0]
        for f in forms:
            forms_seen[f] = forms_seen.get(f, 0) + 1
        stratum = st if st.startswith("nonwf") else "%s/%s" % (
            st, "multi-line-span-not-last" if any(p[1] > p[0] for p in ps[:-1]) else
            ("multi-line-span-last" if ps and ps[-1][1] > ps[-1][0] else "single-line-only"))
        ctx.case(stratum, inp, sig=(tuple(map(tuple, ps)), first), nontrivial=bool(ps))
        # (1) tie: model bytes/outcome = implementation bytes/outcome
        if "e" in ri:
            impl = ERRMAP.get(ri["e"], ri["e"])
            if m != impl:
                ctx.corr_break("linetable:build", inp, ri["e"], m)
        else:
            if m != "OK " + (ri["hex"] or "-"):
                ctx.corr_break("linetable:build", inp, ri["hex"], m)
            dm, lm = dmap[i]
            if parse_model_pos(dm) != ri["pos"]:
                ctx.corr_break("linetable:decode_positions", {"hex": ri["hex"], "first": first}, ri["pos"], dm)
            if parse_model_lines(lm) != ri["lines"]:
                ctx.corr_break("linetable:decode_lines", {"hex": ri["hex"], "first": first}, ri["lines"], lm)
        if not wf:
            continue                      # outside the documented input: only the tie is checked
        # (2) property: CPython decodes the table to the recorded positions / start lines
        if "e" in ri:
            ctx.fail(classify(ps, first), inp, ri["e"], "a table decoding to the positions")
        else:
            if ri["pos"] != ps:
                bad = next((k for k, (a, b) in enumerate(zip(ri["pos"], ps)) if a != b), min(len(ps), len(ri["pos"])))
                ctx.fail(classify(ps, first), inp, {"co_positions": ri["pos"][max(0, bad - 1):bad + 2], "first_bad_index": bad},
                         "co_positions() == positions", note="model(current)=%s" % m[:80])
            elif ri["lines"] != [p[0] for p in ps]:
                ctx.fail(classify(ps, first), inp, {"co_lines": ri["lines"][:20]}, "co_lines() == start lines")
        # (3) the repaired model variant against the property oracle (independent of the tree): always exact
        if not mf.startswith("OK"):
            ctx.corr_break("linetable:build-fixed-total", inp, "wf input", mf)
    for (st, h, first), ri, k in zip(tables, res[len(cases):], range(len(tables))):
        dm, lm = dres[2 * len(didx) + 2 * k], dres[2 * len(didx) + 2 * k + 1]
        ctx.case("decoder-table", {"hex": h, "first": first}, sig=(h, first))
        if parse_model_pos(dm) != ri["pos"]:
            ctx.corr_break("linetable:decode_positions", {"hex": h, "first": first}, ri["pos"], dm)
        if parse_model_lines(lm) != ri["lines"]:
            ctx.corr_break("linetable:decode_lines", {"hex": h, "first": first}, ri["lines"], lm)
    ctx.extra["entry_forms_seen"] = forms_seen
    for f in ("short", "oneline0", "oneline1", "oneline2", "long", "long-multiline"):
        if not forms_seen.get(f):
            ctx.corr_break("generator", f, "form never generated", "every entry form is exercised")


# ----------------------------------------------------------------------------- compiled modules
CY_SCRIPT = r"""
import pyload; pyload.install()
import sys, json
from Cython.Compiler import Main, Options, ExprNodes
rec = []
cur = [None]
orig_blt = ExprNodes.build_line_table
def spy(positions, first):
    r = orig_blt(positions, first)
    if cur[0] is not None:
        cur[0]["encoder_calls"].append({"positions": [list(p) for p in positions], "first": first,
                                        "hex": r.encode("iso8859-1").hex()})
    return r
ExprNodes.build_line_table = spy
orig_gen = ExprNodes.CodeObjectNode.generate_codeobj
def gen(self, code, error_label):
    # what the compiler recorded for this function: node_positions (ParseTreeTransforms._build_positions)
    cur[0] = {"name": str(self.def_node.name), "first": self.def_node.pos[1],
              "positions": [list(p) for p in (self.def_node.node_positions or [])], "encoder_calls": []}
    rec.append(cur[0])
    try:
        return orig_gen(self, code, error_label)
    finally:
        cur[0] = None
ExprNodes.CodeObjectNode.generate_codeobj = gen
pyload.assert_sources()
name = sys.argv[1]
d = dict(Options.get_directive_defaults()); d["language_level"] = 3
opts = Main.CompilationOptions(Main.default_options, compiler_directives=d, output_file=name + ".c")
try:
    r = Main.compile(name + ".pyx", opts)
    print(json.dumps({"errors": r.num_errors, "rec": rec}))
except BaseException as e:
    import traceback
    print(json.dumps({"errors": -1, "crash": traceback.format_exc()[-3000:], "rec": rec}))
"""

TB_SCRIPT = r"""
import sys, json, os, traceback, types, importlib
spec = json.load(sys.stdin)
name = spec["module"]
mod = importlib.import_module(name)
assert mod.__file__.endswith(".so"), mod.__file__
src = open(name + ".pyx").read()
ns = {"__name__": name}
exec(compile(src, name + ".pyx", "exec"), ns)

def entries(e, compiled):
    out = []
    tb = e.__traceback__.tb_next          # skip this driver's frame
    while tb is not None:
        co = tb.tb_frame.f_code
        if compiled:
            nm = co.co_name                # AddTraceback: "<module>.<qualified name>"
        else:
            nm = name + "." + co.co_qualname.replace("<locals>.", "")
        out.append([nm, os.path.basename(co.co_filename), tb.tb_lineno])
        tb = tb.tb_next
    return out

def call(space, case, compiled):
    f = space[case["func"]] if isinstance(space, dict) else getattr(space, case["func"])
    if case["method"]:
        f = f().m
    try:
        f(case["sid"], 0, {})
        return {"exc": None, "tb": []}
    except BaseException as e:
        return {"exc": type(e).__name__, "tb": entries(e, compiled)}

res = [{"cy": call(mod, c, True), "py": call(ns, c, False)} for c in spec["cases"]]
# code objects of the compiled functions
codes = []
def conv(t): return [-1 if x is None else x for x in t]
def add(f):
    co = getattr(f, "__code__", None)
    if co is None: return
    lines = []
    for (s, e, l) in co.co_lines():
        lines += [(-1 if l is None else l)] * ((e - s) // 2)
    codes.append({"name": co.co_name, "first": co.co_firstlineno, "file": os.path.basename(co.co_filename),
                  "pos": [conv(t) for t in co.co_positions()], "lines": lines})
for k, v in sorted(vars(mod).items()):
    if k.startswith("g") and callable(v) and not isinstance(v, type): add(v)
    elif isinstance(v, type) and k.startswith("K"): add(v.__dict__["m"])
print(json.dumps({"res": res, "codes": codes}))
"""

RAISERS = {
    "raise": "raise ValueError(k)",
    "div": "x = 1 // z",
    "key": "x = d[k]",
    "attr": "x = d.nope",
    "assert": "assert k < 0",
    "cfunc": "x = int('x%d' % k)",
}
CAUGHT = "(ZeroDivisionError, ValueError, KeyError, AttributeError, AssertionError)"


class TbGen:
    """one module: functions g<i>(k, z, d) / classes K<i>.m(self, k, z, d); calling with k = site id
    raises at exactly that site (z = 0, d = {})."""

    def __init__(self, rng, name, nfuncs, maxdepth):
        self.rng, self.name, self.maxdepth = rng, name, maxdepth
        self.lines = ["class Ctx:", "    def __enter__(self): return self",
                      "    def __exit__(self, *a): return False", ""]
        self.sites = {}          # sid -> dict(func, method, line, kind, depth, withs, reraise, chain)
        self.sid = 100
        self.wcount = 0
        self.inner = 0
        self.funcs = []          # (name, method)
        # generate last function first so that chains go to already known sites
        order = list(range(nfuncs))
        blocks = {}
        for i in reversed(order):
            blocks[i] = self.gen_func(i)
        # emit in index order; line numbers are assigned now
        for i in order:
            fl, marks = blocks[i]
            base = len(self.lines)
            for sid, off in marks:
                self.sites[sid]["line"] = base + off + 1
            self.lines += fl + [""]
        self.source = "\n".join(self.lines) + "\n"

    def emit(self, buf, ind, text):
        buf.append("    " * ind + text)

    def gen_func(self, i):
        rng = self.rng
        method = rng.random() < 0.25
        buf, marks = [], []
        self.cur = {"func": ("K%d" % i) if method else ("g%d" % i), "method": method, "index": i}
        if method:
            self.emit(buf, 0, "class K%d:" % i)
            self.emit(buf, 1, "def m(self, k, z, d):")
            ind = 2
        else:
            self.emit(buf, 0, "def g%d(k, z, d):" % i)
            ind = 1
        self.emit(buf, ind, "q = 0")
        self.nsites = 0
        self.gen_block(buf, marks, ind, 0, 0, False)
        if self.nsites == 0:
            self.gen_site(buf, marks, ind, 0, 0, False)
        self.emit(buf, ind, "return q")
        self.funcs.append((self.cur["func"], method))
        return buf, marks

    def gen_site(self, buf, marks, ind, depth, withs, reraise):
        rng = self.rng
        self.sid += 1; sid = self.sid
        later = [s for s, v in self.sites.items() if v["index"] > self.cur["index"]]
        kind = rng.choice(list(RAISERS) + (["chain", "chain"] if later else []))
        info = dict(self.cur); info.update(kind=kind, depth=depth, withs=withs, reraise=reraise, chain=None,
                                           nested=self.inner > 0)
        if kind == "chain":
            tgt = rng.choice(later); t = self.sites[tgt]
            callee = ("%s().m" % t["func"]) if t["method"] else t["func"]
            stmt = "return %s(%d, z, d)" % (callee, tgt)
            info["chain"] = tgt
        else:
            stmt = RAISERS[kind]
        if rng.random() < 0.3:
            self.emit(buf, ind, "if k == %d: %s" % (sid, stmt)); marks.append((sid, len(buf) - 1))
        else:
            self.emit(buf, ind, "if k == %d:" % sid)
            self.emit(buf, ind + 1, stmt); marks.append((sid, len(buf) - 1))
        self.sites[sid] = info
        self.nsites += 1
        return sid

    def gen_block(self, buf, marks, ind, depth, withs, reraise):
        rng = self.rng
        for _ in range(rng.randrange(1, 4)):
            r = rng.random()
            if r < 0.25:
                self.emit(buf, ind, "q = k + %d" % rng.randrange(9))
            elif r < 0.6 or depth >= self.maxdepth:
                self.gen_site(buf, marks, ind, depth, withs, reraise)
            else:
                c = rng.choice(["for", "while", "if", "tryexc", "tryfin", "with", "reraise", "def", "ifelse"])
                if c == "for":
                    self.emit(buf, ind, "for i%d in range(2):" % depth)
                    self.gen_block(buf, marks, ind + 1, depth + 1, withs, reraise)
                elif c == "while":
                    self.wcount += 1; w = "w%d" % self.wcount
                    self.emit(buf, ind, "%s = 0" % w)
                    self.emit(buf, ind, "while %s < 2:" % w)
                    self.gen_block(buf, marks, ind + 1, depth + 1, withs, reraise)
                    self.emit(buf, ind + 1, "%s += 1" % w)
                elif c == "if":
                    self.emit(buf, ind, "if z == 0:")
                    self.gen_block(buf, marks, ind + 1, depth + 1, withs, reraise)
                elif c == "ifelse":
                    self.emit(buf, ind, "if z != 0:")
                    self.emit(buf, ind + 1, "q = 1")
                    self.emit(buf, ind, "else:")
                    self.gen_block(buf, marks, ind + 1, depth + 1, withs, reraise)
                elif c == "tryexc":
                    self.emit(buf, ind, "try:")
                    self.gen_block(buf, marks, ind + 1, depth + 1, withs, reraise)
                    self.emit(buf, ind, "except KeyboardInterrupt:")
                    self.emit(buf, ind + 1, "q = 2")
                elif c == "tryfin":
                    self.emit(buf, ind, "try:")
                    self.gen_block(buf, marks, ind + 1, depth + 1, withs, reraise)
                    self.emit(buf, ind, "finally:")
                    self.emit(buf, ind + 1, "q = 3")
                elif c == "with":
                    self.emit(buf, ind, "with Ctx():")
                    self.gen_block(buf, marks, ind + 1, depth + 1, withs + 1, reraise)
                elif c == "reraise":
                    self.emit(buf, ind, "try:")
                    self.gen_block(buf, marks, ind + 1, depth + 1, withs, True)
                    self.emit(buf, ind, "except %s:" % CAUGHT)
                    self.emit(buf, ind + 1, "raise")
                else:
                    self.wcount += 1; fn = "inner%d" % self.wcount
                    self.emit(buf, ind, "def %s():" % fn)
                    self.emit(buf, ind + 1, "q = 4")
                    # a new frame: constructs of the enclosing function do not enclose these sites lexically,
                    # but the call below is inside them
                    before = set(self.sites)
                    self.inner += 1
                    self.gen_block(buf, marks, ind + 1, depth + 1, 0, False)
                    self.inner -= 1
                    self.emit(buf, ind + 1, "return q")
                    self.emit(buf, ind, "q = %s()" % fn)
                    for s in set(self.sites) - before:
                        self.sites[s]["withs"] += withs
                        self.sites[s]["reraise"] = self.sites[s]["reraise"] or reraise

    def flags(self, sid):
        """(number of with blocks, any re-raising handler) on the whole path of frames"""
        w, r = 0, False
        while sid is not None:
            s = self.sites[sid]
            w += s["withs"]; r = r or s["reraise"]; sid = s["chain"]
        return w, r


def tb_classify(withs, reraise):
    """from the generated input only: is the raise site (in some frame of the call path) lexically inside a
    `with` body or inside a `try` whose except clause catches the exception and re-raises it with a bare `raise`?"""
    if withs or reraise:
        return "reraise_through_handler_extra_traceback_entry"
    return "wrong_traceback"


def dedup_frames(tb):
    """Cython's entries with, for every run of consecutive entries of one function, only the last kept"""
    out = []
    for e in tb:
        if out and out[-1][0] == e[0] and out[-1][1] == e[1]:
            out[-1] = e
        else:
            out.append(e)
    return out


def build_tb_module(ctx, g):
    wd = ctx.workdir
    with open(os.path.join(wd, g.name + ".pyx"), "w") as f:
        f.write(g.source)
    r = cybuild.run_script(CY_SCRIPT, wd, None, name="c44_cy_%s.py" % g.name, args=[g.name], timeout=900)
    js = r["json"]
    if not js or js.get("errors") != 0:
        return None, "cython: %s %s" % (js and (js.get("crash") or js.get("errors")), r["err"][-1500:])
    rc, err = cybuild.cc(os.path.join(wd, g.name + ".c"), os.path.join(wd, g.name + cybuild.EXT), cflags=["-O0"])
    if rc != 0:
        return None, "cc: " + err[-1500:]
    return js["rec"], None


def run_compiled(ctx):
    import concurrent.futures as cf
    quick = ctx.tier == "quick"
    gens = [TbGen(ctx.rng, "c44_tb%d" % i, 14 if quick else 60, 3 if i % 2 == 0 else 5)
            for i in range(2 if quick else 6)]
    class G: pass
    same = G(); same.name = "c44_same"; same.source = SAME_MAIN
    with open(os.path.join(ctx.workdir, "c44_same_a.pxi"), "w") as f:
        f.write(SAME_INC)
    with cf.ThreadPoolExecutor(max_workers=7) as ex:
        built = list(ex.map(lambda g: build_tb_module(ctx, g), gens + [same]))
    ctx.same_built = built.pop()
    model = ctx.model("linetable")
    for g, (rec, err) in zip(gens, built):
        if err is not None:
            ctx.corr_break("build " + g.name, g.name, err, "module builds")
            continue
        cases = [{"func": s["func"], "method": s["method"], "sid": sid} for sid, s in sorted(g.sites.items())]
        r = cybuild.run_script(TB_SCRIPT, ctx.workdir, {"module": g.name, "cases": cases},
                               name="c44_tbrun_%s.py" % g.name, timeout=900)
        js = r["json"]
        if not js or len(js.get("res", [])) != len(cases):
            ctx.corr_break("run " + g.name, g.name, (r["rc"], r["err"][-1500:]), "one result per site")
            continue
        # (a) tracebacks: compiled vs CPython on the same source
        for c, res in zip(cases, js["res"]):
            s = g.sites[c["sid"]]
            withs, reraise = g.flags(c["sid"])
            depthc = "d%d" % min(s["depth"], 5)
            stratum = "traceback/%s/%s%s%s" % (s["kind"], depthc, "/with" if withs else "", "/reraise" if reraise else "")
            inp = {"module": g.name, "func": c["func"], "method": c["method"], "site": c["sid"],
                   "line": s["line"], "kind": s["kind"], "source_sha": _sha(g.source)}
            ctx.case(stratum, inp, sig=(_sha(g.source), c["sid"]))
            cy, py = res["cy"], res["py"]
            if py["exc"] is None or not py["tb"] or py["tb"][-1][2] != _final_line(g, c["sid"]):
                ctx.corr_break("generator:site", inp, py, "CPython raises at the generated site line %d" % _final_line(g, c["sid"]))
                continue
            if cy == py:
                continue
            klass = tb_classify(withs, reraise)
            if klass != "wrong_traceback":
                # the known families add entries of the same function before the right one; anything
                # else (wrong line/function/order/exception) is not part of them
                if cy["exc"] != py["exc"] or dedup_frames(cy["tb"]) != py["tb"]:
                    klass = "wrong_traceback"
            ctx.fail(klass, dict(inp, source=g.source), cy, py, note="entries are [function, file, line], outermost first")
        # (b) the table attached to every compiled function decodes to what the compiler recorded
        byname = {}
        for x in rec:
            byname.setdefault((x["name"], x["first"]), []).append(x)
        dq = []
        for co in js["codes"]:
            inp = {"module": g.name, "function": co["name"], "firstlineno": co["first"], "source_sha": _sha(g.source)}
            ctx.case("codeobject", inp, sig=(_sha(g.source), co["name"], co["first"]))
            cands = byname.get((co["name"], co["first"]), [])
            if len(cands) != 1:
                ctx.corr_break("codeobject:recorded", inp, "%d recorded tables" % len(cands), "exactly one")
                continue
            x = cands[0]
            if co["file"] != g.name + ".pyx":
                ctx.fail("wrong_code_filename", inp, co["file"], g.name + ".pyx")
            if co["pos"] != x["positions"]:
                ctx.fail(classify(x["positions"], x["first"]), {"positions": x["positions"], "firstlineno": x["first"]},
                         {"co_positions": co["pos"][:6]}, "co_positions() of the compiled function == recorded positions")
            if co["lines"] != [p[0] for p in x["positions"]]:
                ctx.fail(classify(x["positions"], x["first"]), {"positions": x["positions"], "firstlineno": x["first"]},
                         {"co_lines": co["lines"][:12]}, "co_lines() == recorded start lines")
            # every raise site of the function itself is a recorded start line
            own = sorted(v["line"] for v in g.sites.values()
                         if not v["nested"] and v["func"] == (co["name"] if co["name"] != "m" else None))
            if co["name"] == "m":
                own = sorted(v["line"] for v in g.sites.values() if not v["nested"] and v["method"]
                             and _first_of(g, v["func"]) == co["first"])
            missing = [l for l in own if l not in set(co["lines"])]
            if missing:
                ctx.fail("site_line_missing_from_table", dict(inp, lines=missing), sorted(set(co["lines"])),
                         "the table of the function has an entry starting at each raise-site line")
            for call in x["encoder_calls"]:
                dq.append((inp, call))
        mres = model.batch(["build %d %d %s" % (MODEL_FX, x["first"], flat(x["positions"])) for _, x in dq])
        for (inp, x), m in zip(dq, mres):
            if m != "OK " + (x["hex"] or "-"):
                ctx.corr_break("linetable:build(compiler-recorded)", inp, x["hex"], m)
    ctx.extra["compiled_modules"] = [{"module": g.name, "functions": len(g.funcs), "raise_sites": len(g.sites),
                                      "source_sha": _sha(g.source)} for g in gens]


def _first_of(g, cls):
    """line of `def m` of class K<i>"""
    lines = g.source.split("\n")
    i = lines.index("class %s:" % cls)
    return i + 2


def _final_line(g, sid):
    while g.sites[sid]["chain"] is not None:
        sid = g.sites[sid]["chain"]
    return g.sites[sid]["line"]


def _sha(s):
    import hashlib
    return hashlib.sha1(s.encode()).hexdigest()[:12]


# ----------------------------------------------------------------------------- same-line functions
SAME_MAIN = """def from_main(z):
    return 1 // z

include "c44_same_a.pxi"

def h(z):
    return list(1 // z for i in range(2))

def other(z):
    x = 0
    return 1 // z
"""
SAME_INC = """def from_inc(z):
    return 1 // z
"""
SAME_SCRIPT = r"""
import sys, json, os, re
import c44_same as m
def norm(n):
    return re.sub(r"\d+$", "", n.split(".")[-1].strip("<>"))
out = []
for fn in json.load(sys.stdin):
    try:
        getattr(m, fn)(0)
        out.append({"exc": None, "tb": []})
    except BaseException as e:
        tb, ent = e.__traceback__.tb_next, []
        while tb is not None:
            co = tb.tb_frame.f_code
            ent.append([norm(co.co_name), os.path.basename(co.co_filename), tb.tb_lineno]); tb = tb.tb_next
        out.append({"exc": type(e).__name__, "tb": ent})
print(json.dumps(out))
"""


def run_same_line(ctx):
    """two different functions whose raising statements have the same line number (one in an included
    file; a generator expression inside its function), called one after the other in one process"""
    rec, err = ctx.same_built
    if err is not None:
        ctx.corr_break("build c44_same", "c44_same", err, "module builds"); return
    calls = ["other", "from_main", "from_inc", "from_main", "h"]
    expect = {"other": [["other", "c44_same.pyx", 11]], "from_main": [["from_main", "c44_same.pyx", 2]],
              "from_inc": [["from_inc", "c44_same_a.pxi", 2]],
              "h": [["h", "c44_same.pyx", 7], ["genexpr", "c44_same.pyx", 7]]}
    r = cybuild.run_script(SAME_SCRIPT, ctx.workdir, calls, name="c44_same_run.py")
    js = r["json"]
    if not js or len(js) != len(calls):
        ctx.corr_break("run c44_same", calls, (r["rc"], r["err"][-800:]), "one result per call"); return
    for i, (fn, res) in enumerate(zip(calls, js)):
        same_line = fn in ("from_inc", "h")      # a different function raised at this line number before / in this call
        inp = {"module": "c44_same", "calls_in_order": calls[:i + 1], "main": SAME_MAIN, "c44_same_a.pxi": SAME_INC}
        ctx.case("traceback/same-line" if same_line else "traceback/same-line-control", inp, sig=("same", i))
        exp = {"exc": "ZeroDivisionError", "tb": expect[fn]}
        if res != exp:
            ctx.fail("same_line_functions_share_traceback_code_object" if same_line else "wrong_traceback",
                     inp, res, exp, note="entries are [function (last component), file, line]; expected = CPython's frames")


FL_SCRIPT = r"""
import sys, json, importlib
spec = json.load(sys.stdin)
out = {}
for name in spec["modules"]:
    m = importlib.import_module(name)
    d = {}
    for k, v in sorted(vars(m).items()):
        if callable(v) and hasattr(v, "__code__") and k.startswith("f"):
            co = v.__code__
            d[k] = [co.co_firstlineno, sorted(set(l for _, _, l in co.co_lines() if l is not None))[:3]]
    out[name] = d
print(json.dumps(out))
"""


def run_firstline(ctx):
    """co_firstlineno of every function when the LARGEST first line of the module sits on each side of a power of two
    (the per-module description struct stores first lines in a bit-field as wide as the largest one needs)"""
    quick = ctx.tier == "quick"
    ks = [2, 3, 6, 7] if quick else [1, 2, 3, 4, 5, 6, 7, 8, 10]
    specs, want = [], {}
    for k in ks:
        for delta in (-1, 0, 1):
            last = 2 ** k + delta
            if last < 2:
                continue
            name = "c44_fl_%d_%s" % (k, {-1: "m", 0: "e", 1: "p"}[delta])
            lines, expect, n = [], {}, 0
            while len(lines) + 1 < last - 1 and n < 3:          # a few early functions
                expect["f%d" % n] = len(lines) + 1
                lines += ["def f%d(a):" % n, "    return a + %d" % n]
                n += 1
            while len(lines) + 1 < last:
                lines.append("# filler")
            expect["flast"] = len(lines) + 1
            lines += ["def flast(a, b=2):", "    c = a * b", "    return c"]
            assert expect["flast"] == last
            specs.append(dict(name=name, source="\n".join(lines) + "\n", workdir=ctx.workdir, cflags=["-O0"]))
            want[name] = expect
    built = cybuild.build_many(specs, jobs=8)
    ok = []
    for sp, (so, err) in zip(specs, built):
        if err is not None:
            ctx.corr_break("build " + sp["name"], sp["name"], str(err)[:800], "module builds")
        else:
            ok.append(sp["name"])
    r = cybuild.run_script(FL_SCRIPT, ctx.workdir, {"modules": ok}, name="c44_fl_run.py", timeout=600)
    js = r["json"]
    if js is None:
        ctx.corr_break("firstline worker", ok, (r["rc"], r["err"][-800:]), "worker runs")
        return
    for name in ok:
        for fn, line in sorted(want[name].items()):
            inp = {"module": name, "function": fn, "def_line": line, "largest_first_line": want[name]["flast"]}
            ctx.case("firstlineno", inp, sig=(name, fn))
            got = js[name].get(fn)
            if got is None or got[0] != line or (got[1] and got[1][0] < line):
                ctx.fail("wrong_firstlineno", inp, got, "co_firstlineno == %d and no table line before it" % line)


def run(ctx):
    run_encoder(ctx)
    run_compiled(ctx)
    run_same_line(ctx)
    run_firstline(ctx)


def replay(ctx, obj):
    inp = obj["input"]
    if "calls_in_order" in inp:
        class G: pass
        same = G(); same.name = "c44_same"; same.source = SAME_MAIN
        with open(os.path.join(ctx.workdir, "c44_same_a.pxi"), "w") as f:
            f.write(SAME_INC)
        ctx.same_built = build_tb_module(ctx, same)
        run_same_line(ctx); print("replayed the same-line module; failures:", ctx.prop_failures or ctx.known_hits); return
    if "source" in inp:
        class G: pass
        g = G(); g.name = inp["module"]; g.source = inp["source"]
        rec, err = build_tb_module(ctx, g)
        if err:
            print("build failed:", err); return
        r = cybuild.run_script(TB_SCRIPT, ctx.workdir, {"module": g.name, "cases": [
            {"func": inp["func"], "method": inp["method"], "sid": inp["site"]}]}, name="c44_tbrun.py")
        print("replayed: %s site %s (line %s) -> %s" % (inp["func"], inp["site"], inp["line"],
              json.dumps(r["json"] and r["json"]["res"][0])), "expected cy == py")
        return
    if "positions" in inp:
        stdin = [{"k": "enc", "ps": inp["positions"], "first": inp["firstlineno"]}]
    else:
        stdin = [{"k": "dec", "hex": inp["hex"], "first": inp["first"]}]
    r = cybuild.run_script(IMPL_SCRIPT, ctx.workdir, stdin, name="c44_impl.py")
    print("replayed:", json.dumps(inp)[:400], "->", json.dumps(r["json"])[:800], "expected", obj.get("expected"))
