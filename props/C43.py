"""C43 — the compiler never crashes and accepts all valid Python (DESIGN 7/C43)."""
import os, re, sys, json, ast, warnings, subprocess, concurrent.futures as cf
import cybuild, framework

TITLE = "The compiler never crashes and accepts all valid Python"
EXTRACTS = ["Lexicon", "CallArgs"]
RULE = ("programs: grammar-generated valid Python 3.12 modules (props/C43_gen.py: every statement/expression kind incl. match, "
        "walrus, async, decorators, f-strings, star-expressions, except*, relative imports), literal-focused modules (huge numbers, "
        "all prefixes/escapes, deep nesting), mutated/truncated variants, systematic token/grammar interaction snippets (dot runs of "
        "length 1..7 (thorough: 1..40) in from-imports in every spelling and form, '...' in every expression position, operators "
        "glued without spaces, soft keywords as names; grouped into modules, a failing group is bisected), "
        "the SYSTEMATIC grammar enumeration of props/C43_enum.py (argument lists: every sequence over {positional, *iterable, "
        "keyword, **mapping} up to length 4 (thorough 5) in calls / class headers / decorators / nested contexts, with trailing "
        "comma and comprehension clause, every special form as argument value; decorators; subscripts and slices; parameter "
        "lists of def and lambda (/, *, kw-only, defaults, annotations); comprehension clauses; assignment targets incl. starred, "
        "chained, annotated, augmented; import forms incl. conditional ones; with items incl. parenthesised; except / except* "
        "clauses; match patterns and subjects; f-string forms; global / nonlocal / del; walrus and star-expression positions; "
        "class headers; statement forms - candidates are over-generated, CPython's compile() keeps the valid ones; the argument-list "
        "families complete, the others a fixed stride sample of 15 (thorough 60) per family; 100 snippets per module, a failing "
        "module is split into chunks of 10 and then single snippets), fixed regression probes "
        "and one minimal witness per registered input family; each compiled as .py (mutants also as .pyx) by the compiler under "
        "test, the C checked by gcc -fsyntax-only; distinct by source hash; a failure outside the registered families is re-run in "
        "a pristine forked compiler before it is reported. tokens: number-like strings (all strings over a reduced alphabet up to a "
        "length, grammar-generated and mutated literals) and runs of 1..40 dots after 'from': real PyrexScanner + p_int_literal + "
        "str_to_number + p_from_import_statement vs extracted model vs CPython tokenizer/int()/ast. argument lists: every kind "
        "sequence up to length 6 (thorough 8) through the real p_call_parse_args (accepted?, grouping of positional_args, order of "
        "keyword_args) vs the extracted M_CallArgs model vs CPython's compile()")
EXPLANATION = ("theorems: a regular-inclusion decision procedure (derivative pairs modulo similarity, certificate re-checked) "
               "proved sound for ALL words; with it Python 3.12's integer/float/imaginary literal grammar is included, token "
               "kind by token kind, in the lexicon's number rules (rules dumped from the running make_lexicon and proved equal "
               "to the transcribed model) - refuted for imagconst as it is (0_7j), proved outside that family and for the "
               "repaired rule; string prefixes included; the integer decoder is refuted total (08; 4301 digits) and the "
               "repaired p_int_literal never crashes; the punctuation rule (ellipsis | punct | diphthong) under longest match "
               "turns a run of n dots into n/3 '...' tokens followed by n mod 3 '.' tokens for EVERY n, no number rule matches a "
               "run of dots, and the relative-import level added up from the token lengths is n (executable longest-match "
               "function proved against the language semantics); the argument-list loop of p_call_parse_args (calls, class headers, "
               "decorators) accepts EXACTLY the kind sequences of Python 3.12's grammar, for all lengths, with trailing comma and "
               "generator-expression argument (pairwise form proved equal to the PEG rule (P|*)*(K|*)*(K|**)*), records every "
               "argument once, and the guard variant `if keyword_args:` before a star argument is refuted. partial: the rest of the "
               "parser, analysis and code generation are not modelled - the never-crashes / accepts-valid-Python / C-compiles "
               "statements are tested on generated and systematically enumerated programs only.")
LEVEL_TEXT = ("partial: machine-checked for the literal front end (number-token inclusion for all strings, decoder totality "
              "refuted with witnesses and proved for the repaired parser, dot-run tokenisation and import level for all run "
              "lengths, argument-list acceptance = Python's grammar for all kind sequences); everything else behind the scanner is differential testing against CPython's compile() with an explicit "
              "documented-rejection allowlist and a registry of input-family known findings")
TRUSTED = ["CPython compile()/tokenize/int() as the oracle of valid Python and of literal values",
           "gcc -fsyntax-only with the CPython headers as the oracle of 'the C compiler accepts'",
           "M_Plex.ere_of as the reading of a Plex RE (C50 proves the scanner against it, not build_machine)",
           "py_int_base: CPython's int(text, base) contract on digit strings (digit limit 4300 for non power-of-two bases)",
           "the documented-rejection allowlist ALLOW below (written from docs/src/userguide/limitations + tested messages)",
           "Parsing.p_from_import_statement adds len(token) per '.'/'...' token to the level (M_Lexicon.import_level); tied by the run for 1..40 dots",
           "M_CallArgs.step/run/finish as the reading of the while loop of Parsing.p_call_parse_args on argument kinds (tied by the run on all "
           "sequences up to length 6/8: accepted?, positional grouping, keyword order); Python's argument grammar transcribed from Grammar/python.gram "
           "(tied to CPython's compile() on the same sequences)",
           "the source predicates of the input families (_ast_families): they only decide under which NAME a failure is reported"]
ASSUMPTIONS = ["language_level=3, default directives, C (not C++) output", "Python 3.12 grammar; PEP 695 syntax excluded as documented-unsupported"]

# repairs in the tree under test (see proposed_fixes/C43-*.md); env overrides for patched worktrees
FX_IMAG = os.environ.get("C43_FX_IMAG", "1") == "1"        # imagconst accepts every digitpart (0_7j)
FX_INTCHK = os.environ.get("C43_FX_INTCHK", "1") == "1"    # p_int_literal reports undecodable integer literals

# ------------------------------------------------------------------------------------------------
# documented / tested deliberate rejections: (regex on the error message, why)
ALLOW = [
    (r"^undeclared name not builtin: ", "names defined nowhere (property text; tests/errors/e_undefined..)"),
    (r"^local variable '.*' referenced before assignment$", "definitely-unbound locals (property text; tests/errors/w_uninitialized*.pyx, e_*)"),
    (r"^can not delete variable '.*' referenced in nested scope$", "deleting a variable used by a nested scope (property text; tests/errors/e_del.pyx)"),
    (r"^Deletion of (global )?C names not supported|^Cannot assign to or delete this|^Deletion of non-Python", "docs: del of non-Python objects"),
    (r"^'?yield'? (inside|not supported|outside)|^'yield from' ", "docs/limitations: yield in unsupported places"),
    (r"^Mixed use of tabs and spaces$", "tested rejection (tests/errors/se_mixtabspace.pyx, se_badindent.pyx): Cython refuses any mixture of tabs "
     "and spaces in indentation, CPython only the ambiguous ones"),
    (r"directive must be set to|^Expected \"=\" in option|^Unknown option|directive cannot be set from a string|^Invalid directive|compiler directive is not allowed in",
     "a '# cython: ...' header comment is Cython syntax (docs: compiler directives); a mutant that damages it is rejected by design"),
]
# PEP 695 (type aliases, generic syntax): docs/src/userguide/limitations: not supported -> sources using it are not generated;
# a mutant that happens to use it is recognised from the source (ast has TypeAlias / type_params)


def allowlisted(msg):
    return any(re.search(p, msg) for p, _ in ALLOW)


# ------------------------------------------------------------------------------------------------
DUMP = r'''
import sys, json
import pyload; pyload.install()
import Cython.Plex as Plex
from Cython.Plex import Regexps, Actions
captured = {}
def fake_lexicon(specs, *a, **k):
    captured["specs"] = specs
    return None
Plex.Lexicon = fake_lexicon
from Cython.Compiler import Lexicon
Lexicon.make_lexicon()
pyload.assert_sources()
def enc(x):
    if isinstance(x, Regexps.RawCodeRange): return ["r", x.range[0], x.range[1]]
    if isinstance(x, Regexps._RawNewline): return ["n"]
    if isinstance(x, Regexps.SpecialSymbol): return ["s", x.sym]
    if isinstance(x, Regexps.Seq): return ["q"] + [enc(y) for y in x.re_list]
    if isinstance(x, Regexps.Alt): return ["a"] + [enc(y) for y in x.re_list]
    if isinstance(x, Regexps.Rep1): return ["p", enc(x.re)]
    if isinstance(x, Regexps.SwitchCase): return ["c", bool(x.nocase), enc(x.re)]
    raise TypeError(type(x))
out = {}
for spec in captured["specs"]:
    if not isinstance(spec, tuple): continue
    re_, act = spec
    if isinstance(act, Actions.Method):
        if act.name == "strip_underscores":
            out[act.kwargs["symbol"]] = enc(re_)
        elif act.name in ("begin_string_action", "begin_ft_string_action"):
            out[act.name] = enc(re_)
    elif act is Actions.TEXT:
        out["TEXT"] = enc(re_)      # (ellipsis | punct | diphthong, TEXT)
print(json.dumps(out))
'''


def _coq_re(x):
    k = x[0]
    if k == "r":
        return "RRange %s %s" % tuple(("(%d)" % v) if v < 0 else str(v) for v in x[1:3])
    if k == "n":
        return "RNewline"
    if k == "s":
        return "RSpecial %s" % {"bol": "SBol", "eol": "SEol", "eof": "SEof"}[x[1]]
    if k == "q":
        return "RSeq [%s]" % "; ".join(_coq_re(y) for y in x[1:])
    if k == "a":
        return "RAlt [%s]" % "; ".join(_coq_re(y) for y in x[1:])
    if k == "p":
        return "RRep1 (%s)" % _coq_re(x[1])
    if k == "c":
        return "RCase (%s) %s" % (_coq_re(x[2]), "true" if x[1] else "false")
    raise ValueError(k)


def pre_coq(ctx):
    wd = os.path.join(ctx.workdir, "dump")
    r = cybuild.run_script(DUMP, wd, name="dump_lexicon.py")
    if r["json"] is None:
        raise RuntimeError("C43 lexicon dump failed: " + (r["err"] or r["out"])[-1500:])
    d = r["json"]
    ctx._c43_dump = d
    names = [("INT", "gen_intliteral"), ("FLOAT", "gen_fltconst"), ("IMAG", "gen_imagconst"),
             ("begin_string_action", "gen_beginstring"), ("begin_ft_string_action", "gen_begin_ft_string"),
             ("TEXT", "gen_text_rule")]
    txt = ("(* GENERATED by props/C43.py (pre_coq) from the running Lexicon.make_lexicon. Do not edit. *)\n"
           "From Coq Require Import ZArith List.\nFrom CyVerif Require Import Model.M_Plex.\nImport ListNotations.\n"
           "Open Scope Z_scope.\n\n")
    for k, n in names:
        txt += "Definition %s : re :=\n  %s.\n\n" % (n, _coq_re(d[k]))
    txt += ("(* state of the imagconst repair in the tree under test, as declared by props/C43.py *)\n"
            "Definition gen_imag_fixed : bool := %s.\n" % ("true" if FX_IMAG else "false"))
    p = os.path.join(framework.COQ, "theories", "Gen", "Gen_Lexicon.v")
    os.makedirs(os.path.dirname(p), exist_ok=True)
    if not os.path.exists(p) or open(p).read() != txt:
        with open(p, "w") as f:
            f.write(txt)


# ------------------------------------------------------------------------------------------------
# token level
TOKRUN = r'''
import sys, json, io
import pyload; pyload.install()
from io import StringIO
from Cython.Compiler import Scanning, Parsing, Errors, Options
from Cython.Compiler.TreeFragment import StringParseContext
from Cython.Compiler.Scanning import PyrexScanner, StringSourceDescriptor
from Cython import Utils
pyload.assert_sources()
name = "tok"
context = StringParseContext(name)
scope = context.find_module(name, pos=(name, 1, 0), need_pxd=False)
def scanner(text):
    code = text + "\n"
    return PyrexScanner(StringIO(code), StringSourceDescriptor(name, code), source_encoding="UTF-8",
                        scope=scope, context=context, initial_pos=(name, 1, 0))
def scan(text):
    toks = []
    try:
        s = scanner(text)
        while True:
            toks.append([s.sy, s.systring if len(s.systring) < 60 else "#%d" % len(s.systring)])
            if s.sy == 'EOF' or len(toks) > 8: break
            s.next()
    except Errors.CompileError as e:
        toks.append(["ERROR", str(e.message_only)[:80]])
    except BaseException as e:
        toks.append(["CRASH", type(e).__name__ + ": " + str(e)[:80]])
    return toks
def decode(text):
    s = scanner(text)
    Errors.hold_errors()
    try:
        node = Parsing.p_int_literal(s)
    finally:
        errs = list(Errors.held_errors())
        Errors.release_errors(ignore=True)
    if errs:
        return ["error", str(errs[0].message_only)[:80]]
    try:
        v = Utils.str_to_number(node.value)
    except ValueError as e:
        return ["ValueError", str(e)[:60]]
    sys.set_int_max_str_digits(0)        # only for printing the result
    try:
        return ["ok", str(v)]
    finally:
        sys.set_int_max_str_digits(4300)
def dot_run(code):
    """tokens between 'from' and 'import' of a one-line from-import, and the level the real parser computes"""
    r = {"toks": None, "level": None, "err": None}
    try:
        s = scanner(code)
        toks = []
        assert s.sy == "from", s.sy
        s.next()
        while s.sy in (".", "..."):
            toks.append(s.systring)
            s.next()
        r["toks"] = toks
        r["next"] = s.sy
    except BaseException as e:
        r["err"] = "scan: %s: %s" % (type(e).__name__, str(e)[:80])
    Errors.hold_errors()
    try:
        node = Parsing.p_from_import_statement(scanner(code), first_statement=0)
        mod = getattr(node, "module", None)
        r["level"] = getattr(mod, "level", None)
        r["node"] = type(node).__name__
    except Errors.CompileError as e:
        r["err"] = "parse: " + str(e.message_only)[:80]
    except BaseException as e:
        r["err"] = "parse: %s: %s" % (type(e).__name__, str(e)[:80])
    finally:
        Errors.release_errors(ignore=True)
    return r
def call_args(text, allow_genexp):
    """the real p_call_parse_args on '(...)': 'positional|keywords' in the notation of ocaml/drv_callargs.ml, or 'error'"""
    from Cython.Compiler import ExprNodes
    def idx(node):
        if isinstance(node, ExprNodes.GeneratorExpressionNode):
            return "0"
        assert node.is_name and node.name[0] == "a", node
        return node.name[1:]
    Errors.hold_errors()
    try:
        s = scanner(text)
        assert s.sy == "("
        pos, kws = Parsing.p_call_parse_args(s, allow_genexp)
        if s.sy != "NEWLINE":
            return "trailing:" + str(s.sy)
        if list(Errors.held_errors()):
            return "error"
        p = ";".join("g" + ",".join(idx(x) for x in it) if isinstance(it, list) else "u" + idx(it) for it in pos)
        k = ";".join("p" + idx(it[1]) if isinstance(it, tuple) else "d" + idx(it) for it in kws)
        return p + "|" + k
    except Errors.CompileError as e:
        return "error"
    except BaseException as e:
        return "CRASH %s: %s" % (type(e).__name__, str(e)[:80])
    finally:
        Errors.release_errors(ignore=True)
def main():
    spec = json.load(sys.stdin)
    dots_res = [dot_run(c) for c in spec.get("dot_runs", [])]
    args_res = [call_args(t, g) for t, g in spec.get("call_args", [])]
    out = []
    sys.set_int_max_str_digits(4300)
    for t in spec["tokens"]:
        toks = scan(t)
        r = {"toks": toks[:4]}
        if len(toks) == 3 and toks[0][0] == "INT" and toks[1][0] == "NEWLINE":
            d = decode(t)
            if d[0] == "ok" and len(d[1]) > 60:
                import hashlib
                d = ["ok", "#" + hashlib.sha256(d[1].encode()).hexdigest()[:16]]
            r["dec"] = d
        out.append(r)
    pyload.assert_sources()
    print(json.dumps({"tokens": out, "dots": dots_res, "call_args": args_res}))
sys.set_int_max_str_digits(0)
main()
'''

KINDS = {"INT": 1, "FLOAT": 2, "IMAG": 3}
TOK_ALPHA_SMALL = "0189_.ejxb+L"
TOK_ALPHA = "0123456789_.eE+-jJxXoObBaAfFlLuU"


def py_token_kind(t):
    """CPython: is t exactly one NUMBER token, and of which type (0 = not a number literal)"""
    import tokenize, io
    try:
        toks = list(tokenize.generate_tokens(io.StringIO(t + "\n").readline))
    except (tokenize.TokenError, SyntaxError, IndentationError, ValueError):
        return 0, None
    names = [(x.type, x.string) for x in toks]
    if len(names) != 3 or names[0] != (tokenize.NUMBER, t) or names[1][0] != tokenize.NEWLINE:
        return 0, None
    try:
        v = ast.literal_eval(t)
    except (SyntaxError, ValueError, MemoryError):
        return 0, None      # a NUMBER token of tokenize that the compiler rejects (0_1, 08, ...)
    return {int: 1, float: 2, complex: 3}[type(v)], v


def gen_py_number(rng):
    """random literal of Python's grammar (written from the reference, independent of the model)"""
    def digitpart(first=None):
        n = rng.choice([1, 1, 2, 3, 5])
        s = first if first is not None else rng.choice("0123456789")
        for _ in range(n - 1):
            s += rng.choice(["", "", "_"]) + rng.choice("0123456789")
        return s
    def dec():
        if rng.random() < 0.25:
            s = "0"
            for _ in range(rng.randrange(0, 4)):
                s += rng.choice(["", "_"]) + "0"
            return s
        return digitpart(rng.choice("123456789"))
    def pref(p, digs):
        s = "0" + rng.choice(p)
        for _ in range(rng.randrange(1, 6)):
            s += rng.choice(["", "", "_"]) + rng.choice(digs)
        return s
    def exponent():
        return rng.choice("eE") + rng.choice(["", "+", "-"]) + digitpart()
    def pointfloat():
        return rng.choice([digitpart() + "." + digitpart(), "." + digitpart(), digitpart() + "."])
    def flt():
        return rng.choice([pointfloat(), pointfloat() + exponent(), digitpart() + exponent()])
    k = rng.randrange(7)
    if k == 0:
        return dec()
    if k == 1:
        return pref("xX", "0123456789abcdefABCDEF")
    if k == 2:
        return rng.choice([pref("oO", "01234567"), pref("bB", "01")])
    if k == 3:
        return flt()
    if k == 4:
        return flt() + rng.choice("jJ")
    if k == 5:
        return digitpart() + rng.choice("jJ")
    return dec() + rng.choice(["", "", "L", "u", "UL", "LL", "j"])


def classify_token(t):
    body = t.replace("_", "").rstrip("uUlL")
    if re.fullmatch(r"0[0-9]*[89][0-9]*", body) and len(body) <= 4300:
        return "legacy_octal_literal_digit_8_9"
    if re.fullmatch(r"[1-9][0-9]*", body) and len(body) > 4300:
        return "decimal_literal_over_4300_digits"
    if re.fullmatch(r"0[0-9_]*[jJ]", t) and "_" in t and re.search(r"[1-9]", t):
        return "imag_literal_leading_zero_underscore"
    return "number_token:" + re.sub(r"[0-9]", "d", re.sub(r"[a-fA-F]", "h", t))[:24]


def run_tokens(ctx):
    rng = ctx.rng
    toks = []
    maxlen = 3 if ctx.tier == "quick" else 4
    def rec(prefix, n):
        if prefix:
            toks.append(prefix)
        if n == 0:
            return
        for c in TOK_ALPHA_SMALL:
            rec(prefix + c, n - 1)
    rec("", maxlen)
    n_ex = len(toks)
    ngen = 1500 if ctx.tier == "quick" else 12000
    for _ in range(ngen):
        t = gen_py_number(rng)
        toks.append(t)
        if rng.random() < 0.5:      # mutate
            i = rng.randrange(len(t) + 1)
            t2 = rng.choice([t[:i] + rng.choice(TOK_ALPHA) + t[i:], t[:i] + t[i + 1:], t[:i] + rng.choice(TOK_ALPHA) + t[i + 1:]])
            if t2:
                toks.append(t2)
    if ctx.tier == "quick":
        toks += ["1" * 4300, "1" * 4301, "9" * 4301 + "L", "0x" + "f" * 4301, "0" + "7" * 4301, "1" * 4301 + "j",
                 "1" * 4301 + ".5", "1_" * 2150 + "1", "1_" * 2150 + "11"]
    else:
        for n in (4299, 4300, 4301, 5000):
            toks += ["1" * n, "9" * n + "L", "0x" + "f" * n, "0o" + "7" * n, "0b" + "1" * n, "0" * n, "1" * n + "j",
                     "1" * n + ".5", "0" + "7" * n, "1_" * (n // 2) + "1"]
    toks = [t for t in dict.fromkeys(toks) if t and t[0] not in "+-"]
    ctx._c43_argcases = call_arg_cases(ctx.tier)
    r = cybuild.run_script(TOKRUN, os.path.join(ctx.workdir, "tok"), {"tokens": toks, "dot_runs": [c for _, _, c in dot_run_codes()],
                                                                       "call_args": [[c[3], c[1]] for c in ctx._c43_argcases]},
                           name="tokrun.py", timeout=1200)
    if r["json"] is None:
        raise RuntimeError("C43 token runner failed: " + (r["err"] or r["out"])[-1500:])
    impl = r["json"]["tokens"]
    ctx._c43_dots = r["json"]["dots"]
    ctx._c43_args = r["json"]["call_args"]
    m = ctx.model("lexicon")
    enc = lambda t: ",".join(str(ord(c)) for c in t)
    kinds = m.batch(["kind %s %s" % ("true" if FX_IMAG else "false", enc(t)) for t in toks])
    old = sys.get_int_max_str_digits()
    sys.set_int_max_str_digits(0)
    try:
        int_idx = []
        for i, (t, im, kd) in enumerate(zip(toks, impl, kinds)):
            tk = im["toks"]
            ikind = KINDS.get(tk[0][0], 0) if (len(tk) == 3 and tk[1][0] == "NEWLINE" and tk[2][0] == "EOF") else 0
            mkind, mpy = (int(x) for x in kd.split())
            pkind, pval = py_token_kind(t)
            stratum = "tok_exhaustive" if i < n_ex else ("tok_long" if len(t) > 2000 else "tok_generated")
            ctx.case(stratum + ("_number" if pkind else "_other"), t if len(t) < 80 else t[:20] + "..(%d)" % len(t), sig=("tok", t if len(t) < 200 else hash(t)))
            if ikind != mkind:
                ctx.corr_break("scanner_token_kind", t[:200], tk, mkind)
            if pkind != mpy:
                ctx.corr_break("python_grammar_model", t[:200], pkind, mpy)
            if pkind and ikind != pkind:
                ctx.fail(classify_token(t), {"token": t if len(t) < 300 else [t[:10], len(t)]}, tk, "one %s token" % {1: "INT", 2: "FLOAT", 3: "IMAG"}[pkind])
            if ikind == 1:
                int_idx.append((i, t, pkind, pval))
        outs = m.batch(["outcome %s 4300 %s" % ("true" if FX_INTCHK else "false", enc(t)) for _, t, _, _ in int_idx])
        import hashlib
        for (i, t, pkind, pval), mo in zip(int_idx, outs):
            d = impl[i]["dec"]
            short = t if len(t) < 300 else [t[:10], len(t)]
            mo = mo.split()
            if mo[0] == "accepted" and len(mo[1]) > 60:
                mo[1] = "#" + hashlib.sha256(mo[1].encode()).hexdigest()[:16]
            iv = ["accepted", d[1]] if d[0] == "ok" else (["crash"] if d[0] == "ValueError" else ["error"])
            if iv != mo:
                ctx.corr_break("int_token_decoder", short, d, mo)
            if d[0] == "ValueError":
                ctx.fail(classify_token(t), {"token": short}, d, "a value or a positioned error")
            elif d[0] == "ok" and pkind == 1 and pval is not None:
                pv = str(pval)
                if len(pv) > 60:
                    pv = "#" + hashlib.sha256(pv.encode()).hexdigest()[:16]
                if pv != d[1]:
                    ctx.fail("int_literal_value:" + classify_token(t), {"token": short}, d, pv)
    finally:
        sys.set_int_max_str_digits(old)
    ctx.extra.setdefault("exhaustive_domains", []).append(
        "all %d non-empty strings over %r up to length %d as token texts" % (n_ex, TOK_ALPHA_SMALL, maxlen))


DOT_RUN_TOP = 40


def dot_run_codes():
    codes = []
    for n in range(1, DOT_RUN_TOP + 1):
        codes.append((n, "glued", "from %s import x" % ("." * n)))
        codes.append((n, "glued_mod", "from %spkg.mod import y as z" % ("." * n)))
        if n <= 12:
            codes.append((n, "spaced", "from %s import x" % " ".join("." * n)))
            for i in range(1, n):
                codes.append((n, "split%d" % i, "from %s %s import x" % ("." * i, "." * (n - i))))
    return codes


def run_dot_runs(ctx):
    """runs of 1..40 dots after 'from': real scanner tokens and the real parser's import level vs the proved model
    (C43_dot_run_scan: n/3 ellipsis tokens then n mod 3 dots, level n) vs CPython's ast (ImportFrom.level)"""
    top = DOT_RUN_TOP
    codes = dot_run_codes()
    dots_json = ctx._c43_dots       # scanned and parsed by the token runner process (run_tokens)
    m = ctx.model("lexicon")
    mod = {n: x.split("|") for n, x in zip(range(1, top + 1), m.batch(["dots %s %d" % ("true" if FX_IMAG else "false", n) for n in range(1, top + 1)]))}
    for (n, form, code), im in zip(codes, dots_json):
        ctx.case("dot_run_%s" % ("glued" if form.startswith("glued") else "spaced"), code, sig=("dots", code))
        pylevel = ast.parse(code).body[0].level            # oracle: CPython
        scan, spec, level = mod[n]
        if scan != spec or int(level) != n:
            ctx.corr_break("dot_run_model_closed_form", n, scan, spec)
        if form.startswith("glued"):
            want = [len(t) for t in (im["toks"] or [])]
            if im["toks"] is None or " ".join(map(str, want)) != scan:
                ctx.corr_break("scanner_dot_run_tokens", code, im["toks"] if im["toks"] is not None else im["err"], scan)
        if im["level"] != pylevel:
            ctx.fail("relative_import_level:%s" % ("ellipsis_token" if "..." in code else "dots"), {"ext": ".py", "src": code + "\n"},
                     {"level": im["level"], "error": im["err"], "tokens": im["toks"]}, {"level": pylevel})
        elif form.startswith("glued") and im["level"] != int(level):
            ctx.corr_break("parser_import_level", code, im["level"], level)


ARG_SEQ_TOP = {"quick": 6, "thorough": 8}


def _arg_text(seq, tail):
    """'(...)' with the arguments named a<i> by position (kinds P S K D), as the parser worker and CPython read it"""
    parts = [{"P": "a%d", "S": "*a%d", "K": "k%d=a%%d" % i, "D": "**a%d"}[k] % i for i, k in enumerate(seq)]
    return "(" + ", ".join(parts) + {"end": "", "comma": ",", "for": " for v in a9"}[tail] + ")"


def call_arg_cases(tier):
    """(kind word, allow_genexp, tail, text): EVERY sequence over {positional, *iterable, keyword, **mapping} up to
    ARG_SEQ_TOP arguments closed by ')' in both contexts (call / class header), and up to 4 arguments with a trailing
    comma or a comprehension clause"""
    import itertools
    out = []
    for n in range(0, ARG_SEQ_TOP[tier] + 1):
        for t in itertools.product("PSKD", repeat=n):
            seq = "".join(t)
            for tail in (("end", "comma", "for") if n <= 4 else ("end",)):
                for ag in ((True, False) if n <= 5 else (True,)):
                    out.append((seq, ag, tail, _arg_text(seq, tail)))
    return out


def run_callargs(ctx):
    """argument lists: real Parsing.p_call_parse_args vs the extracted model (accepted? grouping of positional_args,
    order of keyword_args) vs the proved grammar predicate vs CPython (compile of f(...) / class C(...): pass)"""
    cases = ctx._c43_argcases
    m = ctx.model("callargs")
    mod = m.batch(["args false %s %s %s" % ("true" if ag else "false", tail, seq or "-") for seq, ag, tail, _ in cases])
    pre = "".join("a%d = " % i for i in range(10)) + "0\n"
    for (seq, ag, tail, text), im, mo in zip(cases, ctx._c43_args, mod):
        src = pre + (("a0" + text + "\n") if ag else ("class C" + text + ": pass\n"))
        py_ok = py_accepts(src)[0]
        ctx.case("callargs_%s_%s_py%s" % ("call" if ag else "class", tail, "ok" if py_ok else "rejects"), src[len(pre):], sig=("callargs", seq, ag, tail))
        mpy, mres = mo.split("|", 1)
        if im != mres:
            ctx.corr_break("p_call_parse_args_model", {"kinds": seq, "allow_genexp": ag, "text": text}, im, mres)
        if (mpy == "1") != py_ok:
            ctx.corr_break("python_argument_grammar_model", {"kinds": seq, "text": text}, py_ok, mpy)
        if py_ok and (im == "error" or im.startswith(("CRASH", "trailing"))):
            ctx.fail("argument_list_order:" + ("star_after_keyword" if re.search("K.*S", seq) else "other"), {"ext": ".py", "src": src},
                     ["p_call_parse_args", im], "CPython compiles this text: the argument list is accepted")
        elif im.startswith("CRASH"):
            ctx.fail("argument_list_parser_crash", {"ext": ".py", "src": src}, ["p_call_parse_args", im], "a positioned error")
    ctx.extra.setdefault("exhaustive_domains", []).append(
        "all %d argument-kind sequences over {positional, *iterable, keyword, **mapping} up to length %d (both contexts up to 5; "
        "trailing comma / comprehension clause up to 4) through the real p_call_parse_args" % (len({c[0] for c in cases}), ARG_SEQ_TOP[ctx.tier]))


# ------------------------------------------------------------------------------------------------
# program level
COMPRUN = r'''
import sys, os, json, io, gc, signal, traceback, contextlib, time
import pyload; pyload.install()
from Cython.Compiler import Main, Options, Errors

def compile_one(req, outdir):
    d = os.path.join(outdir, req["id"]); os.makedirs(d, exist_ok=True)
    src = os.path.join(d, "m" + req["ext"])
    with open(src, "w", encoding="utf8", newline="") as f:
        f.write(req["src"])
    cfile = os.path.join(d, "m.c")
    res = {"id": req["id"], "outcome": None, "errors": [], "exc": None}
    recorded = []
    real_report = getattr(Errors, "_c43_real_report", None) or Errors.report_error
    Errors._c43_real_report = real_report
    def spy(err, use_stack=True):
        try:
            # an error that goes onto a hold_errors() stack is not reported yet: the parser's speculative parses
            # (soft keyword 'match' read as a statement first) discard theirs; released ones come back through here
            held = bool(Errors.threadlocal.cython_errors_stack) and use_stack
            if not held and not getattr(err, "reported", False):
                pos = getattr(err, "position", None)
                recorded.append({"type": type(err).__name__, "pos": bool(pos) and len(pos) == 3 and pos[1] is not None,
                                 "msg": (lambda m_: m_ if len(m_) <= 700 else m_[:300] + "\n...\n" + m_[-400:])(str(getattr(err, "message_only", err)))})
        except Exception as e:
            recorded.append({"type": "?", "pos": False, "msg": repr(e)})
        return real_report(err, use_stack)
    Errors.report_error = spy
    for m_ in list(sys.modules.values()):     # modules that did 'from .Errors import report_error' (deferred releases in ExprNodes, MatchCaseNodes)
        if getattr(m_, "__name__", "").startswith("Cython.") and "report_error" in getattr(m_, "__dict__", {}) and m_ is not Errors:
            m_.report_error = spy
    directives =dict(Options.get_directive_defaults()); directives["language_level"] = 3
    opts = Main.CompilationOptions(Main.default_options, compiler_directives=directives, output_file=cfile)
    err = io.StringIO()
    try:
        with contextlib.redirect_stderr(err), contextlib.redirect_stdout(err):
            r = Main.compile(src, opts)
        res["outcome"] = "ok" if (r.num_errors == 0 and os.path.exists(cfile)) else "errors"
        res["num_errors"] = r.num_errors
    except BaseException as e:
        res["outcome"] = "crash"
        tb = traceback.extract_tb(e.__traceback__)
        where = [f for f in tb if "/Cython/" in f.filename]
        res["exc"] = {"type": type(e).__name__, "msg": str(e)[:300],
                      "where": (os.path.basename(where[-1].filename) + ":" + where[-1].name) if where else ""}
    seen = set(); errs = []
    for e in recorded:
        k = (e["type"], e["msg"])
        if k in seen or (e["msg"].strip() == "" and e["type"] == "CompileError"):
            continue        # the bare CompileError() that aborts a phase after reported errors
        seen.add(k); errs.append(e)
    res["errors"] = errs[:12]
    log = err.getvalue()
    res["traceback_in_log"] = ("Traceback (most recent call last)" in log) or ("Compiler crash in" in log)
    res["log"] = log[-1200:]
    res["c"] = cfile if res["outcome"] == "ok" else None
    return res

def main():
    spec = json.load(sys.stdin)
    outdir = spec["out"]; os.makedirs(outdir, exist_ok=True)
    w = compile_one({"id": "_warm", "ext": ".py", "src": "def w(a, i):\n    return a[i] // 2, f'{a!r:>{i}}'\n"}, outdir)
    pyload.assert_sources()
    gc.collect(); gc.freeze()
    jobs = int(spec.get("jobs", 6)); tmo = int(spec.get("timeout", 120))
    pending = list(spec["programs"]); running = {}
    while pending or running:
        while pending and len(running) < jobs:
            rq = pending.pop(0)
            pid = os.fork()
            if pid == 0:
                try:
                    signal.alarm(tmo)
                    sys.setrecursionlimit(8000)     # the parser runs from .py sources here: deeper Python recursion than the compiled one
                    r = compile_one(rq, outdir)
                    p = os.path.join(outdir, rq["id"] + ".json")
                    with open(p + ".tmp", "w") as f:
                        json.dump(r, f)
                    os.replace(p + ".tmp", p)
                finally:
                    os._exit(0)
            running[pid] = rq
        pid, status = os.wait()
        rq = running.pop(pid)
        p = os.path.join(outdir, rq["id"] + ".json")
        if not os.path.exists(p):
            with open(p, "w") as f:
                json.dump({"id": rq["id"], "outcome": "timeout" if os.WIFSIGNALED(status) and os.WTERMSIG(status) == signal.SIGALRM else "died",
                           "status": status, "errors": [], "exc": None, "traceback_in_log": False, "log": "", "c": None}, f)
    print(json.dumps({"done": len(spec["programs"]), "warm": w["outcome"]}))
main()
'''

_batch_no = [0]


# the same compile_one in K long-lived worker processes, one program after the other in each (no fork per program: under load
# the copy-on-write faults of a forked warm compiler cost seconds of system time per program).  A worker is not pristine after
# its first compile, so run_programs() re-runs every failure that is not a registered known class through compile_batch(...,
# pristine=True) (fork per program from a warm, untouched parent) before it is reported.
POOLRUN = COMPRUN.rsplit("main()\n", 1)[0] + r'''
class _Alarm(BaseException): pass
def _h(*a): raise _Alarm()
signal.signal(signal.SIGALRM, _h)
outdir = sys.argv[1]; tmo = int(sys.argv[2]); os.makedirs(outdir, exist_ok=True)
w = compile_one({"id": "_warm", "ext": ".py", "src": "def w(a, i):\n    return a[i] // 2, f'{a!r:>{i}}'\n"}, outdir)
pyload.assert_sources()
sys.setrecursionlimit(8000)
real_out = sys.__stdout__
real_out.write("READY " + str(w["outcome"]) + "\n"); real_out.flush()
for line in sys.stdin:
    req = json.loads(line)
    signal.alarm(tmo)
    try:
        r = compile_one(req, outdir)
        if r.get("exc") and r["exc"].get("type") == "_Alarm":
            r = {"id": req["id"], "outcome": "timeout", "status": 14, "errors": [], "exc": None, "traceback_in_log": False, "log": "", "c": None}
    except BaseException as e:
        r = {"id": req["id"], "outcome": "timeout" if isinstance(e, _Alarm) else "died", "status": 14, "errors": [], "exc": None,
             "traceback_in_log": False, "log": repr(e)[:200], "c": None}
    signal.alarm(0)
    try:
        Errors.init_thread()        # drop error stacks that a crashed compile left behind
    except Exception:
        pass
    real_out.write(json.dumps(r) + "\n"); real_out.flush()
'''


def _pool_compile(ctx, programs, jobs, out, tmo=180):
    import threading
    wdir = os.path.join(ctx.workdir, "poolrun")
    os.makedirs(wdir, exist_ok=True)
    script = os.path.join(wdir, "poolrun.py")
    with open(script, "w") as f:
        f.write(POOLRUN)
    res, lock, it = {}, threading.Lock(), iter(list(programs))
    dead = {"outcome": "died", "status": -1, "errors": [], "exc": None, "traceback_in_log": False, "log": "", "c": None}

    def start(i):
        p = subprocess.Popen([cybuild.PY, script, os.path.join(out, "w%d" % i), str(tmo)], stdin=subprocess.PIPE, stdout=subprocess.PIPE,
                             stderr=subprocess.DEVNULL, text=True, env=cybuild.base_env(), cwd=wdir)
        l = p.stdout.readline()
        while l and not l.startswith("READY"):
            l = p.stdout.readline()
        if l.strip() != "READY ok":
            raise RuntimeError("C43 compile worker failed to start: %r" % l)
        return p

    def work(i):
        p = start(i)
        while True:
            with lock:
                q = next(it, None)
            if q is None:
                break
            try:
                p.stdin.write(json.dumps(q) + "\n"); p.stdin.flush()
                l = p.stdout.readline()
                while l and not l.startswith("{"):
                    l = p.stdout.readline()
            except (BrokenPipeError, OSError):
                l = ""
            if l:
                res[q["id"]] = json.loads(l)
            else:                   # the worker died on this program (hard crash of the interpreter): a finding; go on with a new one
                res[q["id"]] = dict(dead, id=q["id"], status=p.poll())
                try:
                    p.kill()
                except OSError:
                    pass
                p = start(i)
        try:
            p.stdin.close(); p.wait(timeout=20)
        except Exception:
            p.kill()

    errs = []
    def guarded(i):
        try:
            work(i)
        except BaseException as e:
            errs.append(e)
    ts = [threading.Thread(target=guarded, args=(i,)) for i in range(max(1, min(jobs, len(programs))))]
    [t.start() for t in ts]
    [t.join() for t in ts]
    if errs:
        raise errs[0]
    return res


def compile_batch(ctx, programs, jobs=6, pristine=False):
    """programs: list of dict(id, ext, src) -> dict id -> result (with 'gcc': None | [rc, first error line]).
    pristine=True: every program in a child forked from a warm parent that has compiled nothing else."""
    _batch_no[0] += 1
    if not pristine:
        out = os.path.join(ctx.workdir, "comp%d" % _batch_no[0])
        return _gcc_all(_pool_compile(ctx, programs, jobs, out), jobs)
    out = os.path.join(ctx.workdir, "comp%d" % _batch_no[0])
    r = cybuild.run_script(COMPRUN, os.path.join(ctx.workdir, "comprun"), {"out": out, "jobs": jobs, "programs": programs,
                                                                           "timeout": 180}, name="comprun.py", timeout=3000)
    if r["json"] is None or r["json"].get("warm") != "ok":
        raise RuntimeError("C43 compile runner failed: " + (r["err"] or r["out"])[-1500:])
    res = {}
    for p in programs:
        with open(os.path.join(out, p["id"] + ".json")) as f:
            res[p["id"]] = json.load(f)
    return _gcc_all(res, jobs)


def _gcc_all(res, jobs):
    def gcc(rr):
        q = subprocess.run(["gcc", "-fsyntax-only", "-w", "-I" + cybuild.INC, rr["c"]], capture_output=True, text=True, timeout=600)
        errs = [l.split(": error: ", 1)[1] for l in q.stderr.splitlines() if ": error: " in l]
        try:
            os.unlink(rr["c"])
        except OSError:
            pass
        return [q.returncode, (errs[0][:160] if errs else q.stderr[-200:])]
    todo = [rr for rr in res.values() if rr.get("c")]
    with cf.ThreadPoolExecutor(max_workers=jobs) as ex:
        for rr, g in zip(todo, ex.map(gcc, todo)):
            rr["gcc"] = g
    return res


def py_accepts(src):
    with warnings.catch_warnings():
        warnings.simplefilter("ignore")
        try:
            compile(src, "<c43>", "exec", dont_inherit=True)
            return True, None
        except (SyntaxError, ValueError, OverflowError, MemoryError, RecursionError, UnicodeError) as e:
            return False, type(e).__name__ + ": " + str(e)[:100]


def verdict(r):
    """outcome class of one compile: ('ok'|'c_error'|'positioned'|'crash'|'unpositioned'|'timeout', detail)"""
    if r["outcome"] in ("timeout", "died"):
        return r["outcome"], str(r.get("status"))
    if r["outcome"] == "crash":
        return "crash", "%s@%s: %s" % (r["exc"]["type"], r["exc"]["where"], r["exc"]["msg"].splitlines()[0][:100] if r["exc"]["msg"] else "")
    crashes = [e for e in r["errors"] if e["type"] in ("CompilerCrash", "InternalError")]
    if crashes or r.get("traceback_in_log"):
        m = re.search(r"Compiler crash in (\w+)", crashes[0]["msg"]) if crashes else None
        last = (crashes[0]["msg"].strip().splitlines() or ["?"])[-1] if crashes else "traceback"
        fr = re.findall(r'File "[^"]*/(\w+\.py)", line \d+, in (\w+)', crashes[0]["msg"]) if crashes else []
        return "crash", "%s@%s:%s: %s" % (last.split(":")[0][:30], fr[-1][0] if fr else (m.group(1) if m else "?"),
                                         fr[-1][1] if fr else "", last[:80])
    if r["outcome"] == "ok":
        g = r.get("gcc")
        if g and g[0] != 0:
            return "c_error", g[1]
        return "ok", ""
    if not r["errors"]:
        return "unpositioned", "num_errors=%s without a reported error" % r.get("num_errors")
    bad = [e for e in r["errors"] if not e["pos"]]
    if bad:
        return "unpositioned", bad[0]["msg"][:100]
    return "positioned", r["errors"][0]["msg"].splitlines()[0][:120]


# ---- input-side classification: a known finding = (input family recognised in the source) + (failure kind and message)
import builtins as _builtins, math as _math

_BUILTIN_TYPE_NAMES = {n for n in dir(_builtins) if isinstance(getattr(_builtins, n), type)}
_BUILTIN_NAMES = {n for n in dir(_builtins) if callable(getattr(_builtins, n)) and not n.startswith("_")}
_COMPS = (ast.ListComp, ast.SetComp, ast.DictComp, ast.GeneratorExp)
_FUNCS = (ast.FunctionDef, ast.AsyncFunctionDef, ast.Lambda)


_NUMTYPES_MEMO = {}


def _numtypes(e):
    """literal types occurring in a statically numeric expression (numeric literal, or arithmetic / walrus over such), else
    None; linear in the size of e (memo per _src_features call: operator chains are hundreds of levels deep)"""
    k = id(e)
    if k in _NUMTYPES_MEMO:
        return _NUMTYPES_MEMO[k]
    r = None
    if isinstance(e, ast.Constant):
        t = int if isinstance(e.value, bool) else type(e.value)      # True / False are C bint values
        r = frozenset([t]) if t in (int, float, complex) else None
    elif isinstance(e, ast.UnaryOp) and isinstance(e.op, (ast.UAdd, ast.USub, ast.Invert)):
        r = _numtypes(e.operand)
    elif isinstance(e, ast.BinOp):
        x = _numtypes(e.left)
        y = _numtypes(e.right) if x is not None else None
        r = (x | y) if y is not None else None
        if r is not None and isinstance(e.op, ast.Div):
            r = r | frozenset([float])          # true division of numbers is typed double
    elif isinstance(e, ast.NamedExpr):
        r = _numtypes(e.value)
    _NUMTYPES_MEMO[k] = r
    return r


def _is_num(e, kinds=(int, float, complex)):
    """statically typed number for Cython with a literal of one of the given kinds in it"""
    t = _numtypes(e)
    return t is not None and any(k in t for k in kinds)


def _is_c_literal(e):
    """float/complex literal or a tuple of numeric literals: typed as a C value (double, double complex, ctuple)"""
    if _is_num(e, (float, complex)):
        return True
    return isinstance(e, ast.Tuple) and bool(e.elts) and all(_is_num(x) for x in e.elts)


def _is_c_bool(e):
    """not-expression or is / is not comparison: a C bint for Cython"""
    return (isinstance(e, ast.UnaryOp) and isinstance(e.op, ast.Not)) or \
           (isinstance(e, ast.Compare) and all(isinstance(o, (ast.Is, ast.IsNot)) for o in e.ops))


def _paren_before(src_lines, node):
    before = (src_lines[node.lineno - 1][:node.col_offset] if node.lineno <= len(src_lines) else "").rstrip()
    return before.endswith("(")


def _has_bitop_on_float(e):
    for n in ast.walk(e):
        if isinstance(n, ast.UnaryOp) and isinstance(n.op, ast.Invert) and _is_num(n.operand, (float, complex)):
            return True
        if isinstance(n, ast.BinOp) and isinstance(n.op, (ast.LShift, ast.RShift, ast.BitOr, ast.BitAnd, ast.BitXor)) and \
                (_is_num(n.left, (float, complex)) or _is_num(n.right, (float, complex))):
            return True
        if isinstance(n, ast.BinOp) and isinstance(n.op, (ast.Mod, ast.FloorDiv)) and (_is_num(n.left, (complex,)) or _is_num(n.right, (complex,))):
            return True
    return False


def _module_bindings(tree):
    """name -> number of binding occurrences visible at module scope (stores, imports, def/class, global declarations)"""
    c = {}
    def add(x):
        c[x] = c.get(x, 0) + 1
    for n in ast.walk(tree):
        if isinstance(n, ast.Name) and isinstance(n.ctx, ast.Store):
            add(n.id)
        elif isinstance(n, ast.alias):
            add((n.asname or n.name).split(".")[0])
        elif isinstance(n, (ast.FunctionDef, ast.AsyncFunctionDef, ast.ClassDef)):
            add(n.name)
    return c


_JUMPS = (ast.Return, ast.Raise, ast.Continue, ast.Break)


def _walk_no_scopes(n):
    """sub-nodes of n without entering nested function / lambda / class bodies"""
    todo = list(ast.iter_child_nodes(n))
    while todo:
        x = todo.pop()
        yield x
        if not isinstance(x, _FUNCS + (ast.ClassDef,)):
            todo.extend(ast.iter_child_nodes(x))


def _ast_families(src, tree):
    f = set()
    for _n in ast.walk(tree):
        if isinstance(_n, ast.BoolOp):
            for _o in _n.values:
                if (isinstance(_o, ast.Call) and isinstance(_o.func, ast.Name) and _o.func.id == "divmod"
                        and any(isinstance(_a, ast.Constant) and isinstance(_a.value, (int, float)) for _a in _o.args)):
                    f.add("divmod_ctuple_as_boolean_operand")
    parent = {}
    for n in ast.walk(tree):
        for c in ast.iter_child_nodes(n):
            parent[c] = n

    def enclosing(n, kinds):
        """nearest ancestor of one of the kinds whose BODY holds n (decorators, defaults, annotations, bases belong outside)"""
        c, p = n, parent.get(n)
        while p is not None:
            if isinstance(p, kinds):
                body = p.body if isinstance(p.body, list) else [p.body]
                if any(c is b for b in body):
                    return p
            c, p = p, parent.get(p)
        return None

    def has(n, kinds):
        return any(isinstance(x, kinds) for x in ast.walk(n))

    def cond_exprs(n):
        if isinstance(n, (ast.If, ast.While, ast.IfExp, ast.Assert)):
            yield n.test
        if isinstance(n, ast.comprehension):
            yield from n.ifs
        if isinstance(n, ast.BoolOp):
            yield from n.values
        if isinstance(n, ast.UnaryOp) and isinstance(n.op, ast.Not):
            yield n.operand
        if isinstance(n, ast.match_case) and n.guard is not None:
            yield n.guard

    bound_names = None
    src_lines = src.split("\n")
    for n in ast.walk(tree):
        if isinstance(n, ast.match_case):
            for k in n.body:
                if has(k, (ast.FunctionDef, ast.AsyncFunctionDef)):
                    f.add("def_in_match_case")
        if isinstance(n, getattr(ast, "TypeAlias", ())) or getattr(n, "type_params", None):
            f.add("pep695")
        # --- blocks: a lambda in statements that follow a terminating statement
        for field in ("body", "orelse", "finalbody"):
            blk = getattr(n, field, None)
            if isinstance(blk, list) and blk and isinstance(blk[0], ast.stmt):
                for i, s in enumerate(blk[:-1]):
                    # flow analysis decides what is unreachable (e.g. after a match whose cases all raise): any statement
                    # that contains a return/raise/break/continue of this scope may end the reachable part of the block
                    if isinstance(s, _JUMPS) or any(isinstance(x, _JUMPS) for x in _walk_no_scopes(s)):
                        if any(has(t, (ast.Lambda, ast.GeneratorExp)) for t in blk[i + 1:]):
                            f.add("closure_in_unreachable_code")
                        break
        if isinstance(n, (ast.FunctionDef, ast.AsyncFunctionDef)):
            for i, st in enumerate(n.body):
                if isinstance(st, ast.ClassDef) and any(isinstance(x, _JUMPS) for x in _walk_no_scopes(st)) and \
                        any(isinstance(x, ast.Call) and isinstance(x.func, ast.Name) for t in n.body[i + 1:] for x in ast.walk(t)):
                    f.add("local_call_after_class_body_that_raises")
        if isinstance(n, getattr(ast, "TryStar", ())):
            fn = enclosing(n, _FUNCS)
            if fn is None or isinstance(fn, ast.AsyncFunctionDef) or \
                    (isinstance(fn, ast.FunctionDef) and any(isinstance(x, (ast.Yield, ast.YieldFrom)) for x in _walk_no_scopes(fn))):
                f.add("except_star_outside_plain_function")      # module init function, generator / coroutine body
            for h in n.handlers:
                if isinstance(h.type, ast.Tuple) and not h.type.elts:
                    f.add("except_star_empty_tuple")
        if isinstance(n, ast.Constant) and isinstance(n.value, complex) and _math.isinf(n.value.imag):
            f.add("imag_literal_overflows_to_inf")
        if isinstance(n, ast.Compare) and len(n.ops) > 1 and isinstance(n.ops[0], (ast.In, ast.NotIn)) and \
                any(_is_c_literal(c) or (_is_num(c) and i + 2 < len(n.ops)) for i, c in enumerate(n.comparators[1:])):
            f.add("in_cascade_with_c_literal_operand")
        if isinstance(n, ast.Compare) and any(isinstance(o, (ast.Lt, ast.Gt, ast.LtE, ast.GtE)) and
                                              (_is_num(a, (complex,)) or _is_num(b, (complex,)))
                                              for o, a, b in zip(n.ops, [n.left] + n.comparators, n.comparators)):
            f.add("complex_literal_ordering")
        if isinstance(n, ast.Assign) and isinstance(n.value, ast.Subscript) and isinstance(n.value.slice, ast.Slice) and \
                any(isinstance(t, (ast.Tuple, ast.List)) for t in n.targets):
            lo = n.value.slice.lower
            if lo is not None and not _is_num(lo, (int,)):
                f.add("unpack_slice_with_nonliteral_start")
        if isinstance(n, ast.Subscript):
            sl = n.slice
            parts = [sl] if isinstance(sl, ast.Slice) else [x for x in getattr(sl, "elts", []) if isinstance(x, ast.Slice)] if isinstance(sl, ast.Tuple) else []
            for p in parts:
                for b in (p.lower, p.upper):
                    while isinstance(b, ast.NamedExpr):
                        b = b.value
                    if (isinstance(b, ast.Name) and b.id in _BUILTIN_TYPE_NAMES or isinstance(b, ast.Constant) and b.value is Ellipsis) \
                            and isinstance(sl, ast.Slice) and p.step is None:
                        f.add("slice_bound_type_name_or_ellipsis")
                    if b is not None and _is_num(b, (float, complex)):
                        f.add("slice_bound_float_literal")
                    if isinstance(b, ast.Tuple) and isinstance(sl, ast.Slice):
                        f.add("slice_bound_tuple_literal")
            for w in ([sl] if isinstance(sl, ast.NamedExpr) else [x for x in sl.elts if isinstance(x, ast.NamedExpr)] if isinstance(sl, ast.Tuple) else []):
                before = (src_lines[w.lineno - 1][:w.col_offset] if w.lineno <= len(src_lines) else "").rstrip()
                if not before.endswith("("):
                    f.add("unparenthesized_walrus_in_subscript")
            if isinstance(sl, ast.Starred) or (isinstance(sl, ast.Tuple) and any(isinstance(x, ast.Starred) for x in sl.elts)):
                f.add("star_in_subscript")
        if isinstance(n, ast.BoolOp) and any(isinstance(v, ast.Tuple) and v.elts and all(_is_num(x) for x in v.elts) for v in n.values):
            f.add("bool_operand_numeric_tuple_literal")
        if isinstance(n, ast.ClassDef):
            hdr = list(n.bases) + [k.value for k in n.keywords] + list(n.decorator_list)
            if any(has(h, _COMPS) for h in hdr):
                f.add("comprehension_in_class_header")
            if any(has(h, ast.NamedExpr) for h in list(n.bases) + [k.value for k in n.keywords]):
                f.add("walrus_in_class_header")
        if isinstance(n, ast.GeneratorExp) and enclosing(n, _FUNCS) is None and has(n, ast.NamedExpr):
            f.add("walrus_in_module_level_genexpr")
        if isinstance(n, ast.AugAssign) and has(n.target, (ast.GeneratorExp, ast.Lambda)):
            f.add("augassign_target_contains_closure")
        if isinstance(n, ast.JoinedStr):
            for fv in n.values:
                if isinstance(fv, ast.FormattedValue):
                    inner = [x for x in ast.walk(fv.value) if isinstance(x, ast.JoinedStr)]
                    spec = fv.format_spec
                    if spec is not None:
                        inner += [x for v in spec.values if isinstance(v, ast.FormattedValue) for x in ast.walk(v.value) if isinstance(x, ast.JoinedStr)]
                    for j in inner:
                        seg = ast.get_source_segment(src, j) or ""
                        if "{{" in seg or "}}" in seg:
                            f.add("nested_fstring_with_doubled_braces")
        if isinstance(n, (ast.UnaryOp, ast.BinOp)) and _has_bitop_on_float(n):
            f.add("bitop_on_float_literal")
        if isinstance(n, ast.AugAssign) and isinstance(n.op, (ast.LShift, ast.RShift, ast.BitOr, ast.BitAnd, ast.BitXor)) and _is_num(n.value, (float, complex)):
            f.add("bitop_on_float_literal")
        if isinstance(n, (ast.For, ast.AsyncFor)) and enclosing(n, _FUNCS) is None and isinstance(n.iter, (ast.Tuple, ast.List)) and \
                len(n.iter.elts) == 1 and (isinstance(n.iter.elts[0], ast.UnaryOp) and isinstance(n.iter.elts[0].op, ast.Not) or
                                           isinstance(n.iter.elts[0], ast.Compare) and all(isinstance(o, (ast.Is, ast.IsNot)) for o in n.iter.elts[0].ops)):
            f.add("module_level_for_over_single_c_bool_display")
        if isinstance(n, (ast.UnaryOp, ast.BinOp, ast.Compare)):
            opnds = [n.operand] if isinstance(n, ast.UnaryOp) else [n.left, n.right] if isinstance(n, ast.BinOp) else [n.left] + n.comparators
            if any(isinstance(x, ast.Attribute) and isinstance(x.value, (ast.Constant, ast.List, ast.Dict, ast.Set, ast.Tuple, ast.JoinedStr))
                   and not (isinstance(x.value, ast.Constant) and isinstance(x.value.value, (int, float, complex, type(None), type(Ellipsis))))
                   for x in opnds) and not (isinstance(n, ast.UnaryOp) and isinstance(n.op, ast.Not)):
                f.add("arith_on_builtin_method_of_literal")
        if isinstance(n, ast.Call) and _is_num(n.func):
            f.add("call_of_numeric_literal")
        if isinstance(n, ast.Call) and isinstance(n.func, ast.Name) and n.func.id in _BUILTIN_NAMES:
            f.add("builtin_call")
            if n.func.id == "float" and any(k.arg is not None for k in n.keywords):
                f.add("float_call_with_keyword_argument")
        if isinstance(n, ast.Compare):
            ops = [n.left] + n.comparators
            if any(isinstance(a, ast.Constant) and isinstance(a.value, str) and len(a.value) == 1 and ord(a.value) > 127 and _is_num(b, (int,)) or
                   isinstance(b, ast.Constant) and isinstance(b.value, str) and len(b.value) == 1 and ord(b.value) > 127 and _is_num(a, (int,))
                   for a, b in zip(ops, ops[1:])):
                f.add("non_ascii_char_literal_compared_with_int_literal")
        if isinstance(n, (ast.FunctionDef, ast.AsyncFunctionDef, ast.ClassDef)) and any(_is_num(d) for d in n.decorator_list):
            f.add("call_of_numeric_literal")
        if isinstance(n, ast.Starred) and isinstance(getattr(n, "ctx", None), ast.Load) and \
                (_is_num(n.value) or (isinstance(n.value, ast.Constant) and isinstance(n.value.value, bool))):
            f.add("star_unpack_of_numeric_literal")
        if isinstance(n, ast.Set) and len(n.elts) > 1 and any(
                isinstance(e, ast.Starred) and isinstance(e.value, (ast.Tuple, ast.List)) and any(isinstance(x, ast.Starred) for x in e.value.elts)
                for e in n.elts) and not isinstance(n.elts[0], ast.Starred):
            f.add("set_display_item_then_starred_display_with_star")
        if isinstance(n, ast.ExceptHandler) and isinstance(n.type, ast.Tuple) and any(isinstance(x, ast.Starred) for x in n.type.elts):
            f.add("starred_in_except_tuple")
        if (isinstance(n, ast.comprehension) and n.is_async or isinstance(n, ast.AsyncFor)) and \
                (_is_num(n.iter) or (isinstance(n.iter, ast.Constant) and isinstance(n.iter.value, bool))):
            f.add("async_for_over_numeric_literal")
        if isinstance(n, ast.IfExp) and ((_is_c_literal(n.body) and _is_c_literal(n.orelse) and
                                          isinstance(n.body, ast.Tuple) != isinstance(n.orelse, ast.Tuple))):
            f.add("condexpr_number_vs_tuple_literal")
        for c in cond_exprs(n):
            if _is_num(c, (complex,)):
                f.add("complex_literal_truth_test")
        if isinstance(n, (ast.FunctionDef, ast.AsyncFunctionDef, ast.Lambda)):
            a = n.args
            if any(has(d, ast.Await) for d in list(a.defaults) + [d for d in a.kw_defaults if d is not None]):
                f.add("await_in_nested_def_header")
        if isinstance(n, ast.BoolOp) and len(n.values) > 1000 or isinstance(n, ast.Compare) and len(n.ops) > 1000:
            f.add("flat_chain_over_1000_terms")
        if isinstance(n, (ast.FunctionDef, ast.AsyncFunctionDef, ast.ClassDef)) and any(has(d, ast.Await) for d in n.decorator_list):
            f.add("await_in_nested_def_header")
        if isinstance(n, ast.ClassDef) and any(has(h, ast.Await) for h in list(n.bases) + [k.value for k in n.keywords]):
            f.add("await_in_nested_def_header")
        if isinstance(n, (ast.With, ast.AsyncWith)) and any(
                _is_num(i.context_expr, (float, complex)) or
                (isinstance(i.context_expr, ast.Call) and isinstance(i.context_expr.func, ast.Name) and i.context_expr.func.id == "float")
                for i in n.items):
            f.add("with_context_c_float_value")         # float/complex literal or float(...) call: a C double for Cython
        if isinstance(n, ast.Match) and isinstance(n.subject, ast.Constant) and isinstance(n.subject.value, bytes) and any(
                isinstance(q, ast.MatchSequence) and any(isinstance(x, ast.MatchSequence) for x in ast.walk(q) if x is not q)
                for c in n.cases for q in ast.walk(c.pattern)):
            f.add("match_bytes_literal_nested_sequence_pattern")
        if isinstance(n, (ast.FunctionDef, ast.AsyncFunctionDef)) and any(has(d, (ast.Yield, ast.YieldFrom)) for d in n.decorator_list):
            f.add("yield_in_function_decorator")
        if isinstance(n, (ast.With, ast.AsyncWith)) and any(i.optional_vars is not None and has(i.optional_vars, _COMPS + (ast.Lambda,)) for i in n.items):
            f.add("closure_in_with_target")
        if isinstance(n, ast.GeneratorExp) and isinstance(n.generators[0].iter, ast.Attribute):
            f.add("genexpr_over_attribute_of_builtin_value")
        if isinstance(n, ast.Call):
            for k in n.keywords:
                if k.arg is None and isinstance(k.value, ast.Dict) and any(kk is not None and not isinstance(kk, ast.Constant) for kk in k.value.keys):
                    f.add("call_with_double_star_dict_display_computed_key")
                vals = [k.value] + (list(k.value.values) if isinstance(k.value, ast.Dict) else [])
                if any(_has_bitop_on_float(v) for v in vals):
                    f.add("bitop_on_float_literal_in_call_keyword")
        # --- families found by the systematic grammar enumeration (props/C43_enum.py)
        if isinstance(n, ast.ClassDef) and any(_is_c_bool(b) for b in n.bases):
            f.add("class_base_c_bool_expression")
        if isinstance(n, ast.Assign) and any(isinstance(t, (ast.Tuple, ast.List)) for t in n.targets) and \
                isinstance(n.value, (ast.Tuple, ast.List)) and any(isinstance(x, ast.Starred) for x in n.value.elts):
            f.add("sequence_assignment_from_display_with_starred_item")
        if isinstance(n, ast.Call) and _is_c_bool(n.func):
            f.add("call_of_c_bool_expression")
        if isinstance(n, (ast.FunctionDef, ast.AsyncFunctionDef, ast.ClassDef)) and any(_is_c_bool(d) for d in n.decorator_list):
            f.add("call_of_c_bool_expression")
        if isinstance(n, ast.AnnAssign) and isinstance(n.target, ast.Subscript) and isinstance(n.target.slice, ast.Slice):
            f.add("annotated_assignment_slice_target")
        if isinstance(n, (ast.Set, ast.SetComp)):
            first = n.elts[0] if isinstance(n, ast.Set) else n.elt
            if isinstance(first, ast.NamedExpr) and not _paren_before(src_lines, first):
                f.add("unparenthesized_walrus_in_set_display_or_match_guard")
        if isinstance(n, ast.match_case) and isinstance(n.guard, ast.NamedExpr) and not _paren_before(src_lines, n.guard):
            f.add("unparenthesized_walrus_in_set_display_or_match_guard")
        if isinstance(n, (ast.With, ast.AsyncWith)) and any(isinstance(i.context_expr, ast.Tuple) and i.optional_vars is None and
                                                            any(isinstance(x, ast.Starred) for x in i.context_expr.elts) for i in n.items):
            f.add("star_in_with_item_tuple")
        if isinstance(n, ast.AnnAssign) and isinstance(n.target, ast.Name) and enclosing(n, _FUNCS + (ast.ClassDef,)) is None \
                and not (isinstance(n.annotation, ast.Name) and n.annotation.id in _BUILTIN_TYPE_NAMES):
            if bound_names is None:
                bound_names = _module_bindings(tree)
            if bound_names.get(n.target.id, 0) >= 2:
                f.add("module_global_reannotated_with_non_type")
    return f


def _parse_salvaging(src, rounds=12):
    """ast of src; for a text CPython rejects (mutants, .pyx) the top-level statement that holds the syntax error is blanked
    out and the parse retried, so that the input families of the remaining statements are still recognised"""
    lines = src.split("\n")
    for _ in range(rounds):
        try:
            with warnings.catch_warnings():
                warnings.simplefilter("ignore")
                return ast.parse("\n".join(lines))
        except SyntaxError as e:
            ln = min(max((e.lineno or 1), 1), len(lines))
            top = lambda t: bool(t) and t[0] not in " \t#)]}" and not t.startswith(("else", "elif", "except", "finally", "case"))
            a = ln - 1
            while a > 0 and not top(lines[a]):
                a -= 1
            b = ln
            while b < len(lines) and not top(lines[b]):
                b += 1
            if all(not t.strip() or t.strip() == "pass" for t in lines[a:b]):
                return None
            lines[a:b] = ["pass"] + [""] * (b - a - 1)
        except Exception:
            return None
    return None


def _src_features(src):
    f = set()
    if re.search(r"(?<![\w.])[1-9][0-9_]{4300,}(?![\w.])", src) and any(len(x.replace("_", "")) > 4300 for x in re.findall(r"(?<![\w.])[1-9][0-9_]{4300,}(?![\w.jJeE])", src)):
        f.add("decimal_literal_over_4300_digits")
    if re.search(r"(?<![\w.])0[0-9_]*[89][0-9_]*(?![\w.]|[eEjJ])", src):
        f.add("legacy_octal_literal_digit_8_9")
    for m in re.finditer(r"(?<![\w.])0[0-9_]*[jJ](?!\w)", src):
        if "_" in m.group(0) and re.search(r"[1-9]", m.group(0)):
            f.add("imag_literal_leading_zero_underscore")
    if re.search(r"\\[4-7][0-7][0-7]", src):
        f.add("octal_escape_above_377_in_str")
    if re.search(r"-\s*0[xXoObB][0-9a-fA-F_]{3500,}", src):
        f.add("negated_int_literal_over_4300_digits")
    if re.search(r"^[ \t]*from[ \t]+__future__[ \t]+import[^\n]*\bbarry_as_FLUFL\b", src, re.M):
        f.add("future_import_barry_as_flufl")
    if re.search(r"^[ \t]*pass[ \t]*;[ \t]*[^\s#;]", src, re.M) or re.search(r":[ \t]*pass[ \t]*;[ \t]*[^\s#;]", src):
        f.add("pass_then_semicolon_statement")
    if re.search(r"(?<![\w])(?:[rR][fF]|[fF][rR])(\"(?!\"\")|'(?!''))[^\n\"']*\\\n", src):
        f.add("raw_fstring_backslash_newline")
    m = re.match(r"(?:\s*#[^\n]*\n)*", src)
    head = m.group(0) if m else ""
    for name, val in re.findall(r"#\s*cython\s*:\s*([\w.]+)\s*=\s*([^\s,]*)", head):
        if name in ("warn", "nogil", "gil"):
            f.add("header_directive_warn_nogil_value")
        if name in ("c_compile_guard", "test_assert_path_exists", "test_fail_if_path_exists", "test_body_needs_exception_handling"):
            f.add("wrong_scope_header_directive")
    if re.search(r"\bstr\s+\w+\b[^\n]*\)\s*:", src) and re.search(r"^\s*\w+\[[^\]:]+\]\s*=[^=]", src, re.M):
        f.add("typed_str_item_assignment")      # .pyx only: 'def f(str s, int i, v): s[i] = v'
    tree = _parse_salvaging(src)
    if tree is None:
        return f
    _NUMTYPES_MEMO.clear()
    try:
        f |= _ast_families(src, tree)
    except RecursionError:
        pass
    _NUMTYPES_MEMO.clear()
    return f


# (class, failure kind, regex on the failure detail, input family that must be present in the source).  A failure is attributed
# to a class only if BOTH the family is recognised in the input and the failure has the family's kind and message; any other
# crash / C error / rejection gets a generic crash-site name that is never registered as known -> VIOLATION.
FAMILY_RULES = [
    # literal front end (classes with theorems / earlier repairs)
    ("octal_escape_above_377_in_str", "crash", r"UnicodeEncodeError", "octal_escape_above_377_in_str"),
    ("decimal_literal_over_4300_digits", "crash", r"ValueError|MarkOverflowingArithmetic", "decimal_literal_over_4300_digits"),
    ("legacy_octal_literal_digit_8_9", "crash", r"ValueError|MarkOverflowingArithmetic", "legacy_octal_literal_digit_8_9"),
    ("negated_int_literal_over_4300_digits", "crash", r"ValueError.*unop_node|unop_node.*ValueError", "negated_int_literal_over_4300_digits"),
    ("header_directive_warn_nogil_value", "crash", r"Options\.py:parse_directive_value", "header_directive_warn_nogil_value"),
    ("wrong_scope_header_directive", "crash", r"wrong_scope_error|InterpretCompilerDirectives", "wrong_scope_header_directive"),
    ("imag_literal_leading_zero_underscore", "positioned", r"found '_[0-9_]*[jJ]'", "imag_literal_leading_zero_underscore"),
    ("def_in_match_case_inline_call_crash", "crash", r"cf_is_null", "def_in_match_case"),
    ("def_in_match_case_c_error", "c_error", r"__pyx_mdef_", "def_in_match_case"),
    ("typed_str_setitem_c_index_invalid_c", "c_error", r"None.? undeclared", "typed_str_item_assignment"),
    # triaged fuzz findings: crashes
    ("closure_in_unreachable_code", "crash", r"AttributeError@Nodes\.py:generate_(execution_code|function_definitions)", "closure_in_unreachable_code"),
    ("unpack_slice_with_nonliteral_start", "crash", r"ExprNodes\.py:(for_int|inferable_item_node)", "unpack_slice_with_nonliteral_start"),
    ("comprehension_in_class_header", "crash", r"AssertionError@FlowControl\.py:find_in_stack", "comprehension_in_class_header"),
    ("walrus_in_class_header", "crash", r"AttributeError@Code\.py:namespace_cname_in_module_state", "walrus_in_class_header"),
    ("walrus_in_module_level_genexpr", "crash", r"AssertionError@ParseTreeTransforms\.py:create_class_from_scope", "walrus_in_module_level_genexpr"),
    ("augassign_target_contains_closure", "crash", r"AttributeError@FlowControl\.py:check_definitions", "augassign_target_contains_closure"),
    ("in_cascade_with_c_literal_operand", "crash", r"AttributeError@PyrexTypes\.py:widest_numeric_type", "in_cascade_with_c_literal_operand"),
    ("in_cascade_with_c_literal_operand", "c_error", r"cannot convert to a pointer type|incompatible type for argument . of .__Pyx_Py\w+_Bool(Eq|Ne)ObjC", "in_cascade_with_c_literal_operand"),
    ("call_with_double_star_dict_display_computed_key", "crash", r"TypeError@ExprNodes\.py:generate_sequence_as_array_code", "call_with_double_star_dict_display_computed_key"),
    ("bitop_on_float_literal_in_call_keyword", "crash", r"AttributeError@ExprNodes\.py:generate_result_code", "bitop_on_float_literal_in_call_keyword"),
    ("module_global_reannotated_with_non_type", "crash", r"AttributeError@ExprNodes\.py:_analyse_target_declaration", "module_global_reannotated_with_non_type"),
    ("closure_in_with_target", "crash", r"UnspecifiedType|AssertionError@ParseTreeTransforms\.py:visit_ExprNode", "closure_in_with_target"),
    ("closure_in_with_target", "positioned", r"^'[^']*' redeclared|^Previous declaration is here", "closure_in_with_target"),
    ("flat_chain_over_1000_terms_recursion_error", "crash", r"RecursionError", "flat_chain_over_1000_terms"),
    ("local_call_after_class_body_that_raises", "crash", r"AttributeError@Optimize\.py:get_constant_value_node.*cf_is_null", "local_call_after_class_body_that_raises"),
    ("arith_on_builtin_method_of_literal", "crash", r"AttributeError@PyrexTypes\.py:widest_numeric_type.*'CFuncType' object has no attribute 'rank'", "arith_on_builtin_method_of_literal"),
    ("yield_in_function_decorator", "crash", r"AttributeError@ExprNodes\.py:generate_yield_code", "yield_in_function_decorator"),
    # triaged fuzz findings: generated C rejected by gcc
    ("except_star_outside_plain_function", "c_error", r"__pyx_skip_add_traceback.? undeclared", "except_star_outside_plain_function"),
    ("except_star_empty_tuple", "c_error", r"expected expression before .\). token", "except_star_empty_tuple"),
    ("imag_literal_overflows_to_inf", "c_error", r"^.inf.? undeclared", "imag_literal_overflows_to_inf"),
    ("slice_bound_type_name_or_ellipsis", "c_error", r"lvalue required as unary .&. operand", "slice_bound_type_name_or_ellipsis"),
    ("slice_bound_tuple_literal", "c_error", r"incompatible type for argument . of .__Pyx_PyObject_(Get|Set|Del)Slice", "slice_bound_tuple_literal"),
    ("float_call_with_keyword_argument", "c_error", r"incompatible types when assigning to type .double. from type .PyObject", "float_call_with_keyword_argument"),
    ("module_level_for_over_single_c_bool_display", "c_error", r"assignment of read-only location", "module_level_for_over_single_c_bool_display"),
    ("with_context_c_float_value", "c_error", r"cannot convert to a pointer type", "with_context_c_float_value"),
    ("bool_operand_numeric_tuple_literal", "c_error", r"unknown type name .__pyx_ctuple_", "bool_operand_numeric_tuple_literal"),
    ("genexpr_over_attribute_of_builtin_value", "c_error", r"__pyx_genexpr_arg_\d+.? declared as a function", "genexpr_over_attribute_of_builtin_value"),
    # triaged fuzz findings: valid Python rejected
    ("nested_fstring_with_doubled_braces", "positioned",
     r"single '}' is not allowed|Unexpected characters after f-string expression|empty expression not allowed in f-string|Unexpected token None:'' in string literal|^Expected '}', found",
     "nested_fstring_with_doubled_braces"),
    ("await_in_nested_def_header", "positioned", r"^'await' not (supported here|allowed in generators)", "await_in_nested_def_header"),
    ("star_in_subscript", "positioned", r"^starred expression is not allowed here", "star_in_subscript"),
    ("unparenthesized_walrus_in_subscript", "positioned", r"^invalid syntax: assignment expression not allowed in this context", "unparenthesized_walrus_in_subscript"),
    ("set_display_item_then_starred_display_with_star", "positioned", r"^starred expression is not allowed here", "set_display_item_then_starred_display_with_star"),
    ("starred_in_except_tuple", "positioned", r"^starred expression is not allowed here", "starred_in_except_tuple"),
    ("match_bytes_literal_nested_sequence_pattern", "positioned", r"^Attempting to index non-array type 'int'", "match_bytes_literal_nested_sequence_pattern"),
    ("complex_literal_truth_test", "positioned", r"^Type 'double complex' not acceptable as a boolean", "complex_literal_truth_test"),
    ("condexpr_number_vs_tuple_literal", "positioned", r"^Incompatible types in conditional expression", "condexpr_number_vs_tuple_literal"),
    # found by the systematic grammar enumeration
    ("class_base_c_bool_expression", "c_error", r"invalid operands to binary != .*__pyx_ctuple_int|__pyx_ctuple_int", "class_base_c_bool_expression"),
    ("call_of_c_bool_expression", "positioned", r"^Calling non-function type 'bint'", "call_of_c_bool_expression"),
    ("pass_then_semicolon_statement", "positioned", r"^Expected a newline", "pass_then_semicolon_statement"),
    ("annotated_assignment_slice_target", "positioned", r"^Syntax error in simple statement list", "annotated_assignment_slice_target"),
    ("raw_fstring_backslash_newline", "positioned", r"^Unclosed string literal", "raw_fstring_backslash_newline"),
    ("unparenthesized_walrus_in_set_display_or_match_guard", "positioned", r"^invalid syntax: assignment expression not allowed in this context",
     "unparenthesized_walrus_in_set_display_or_match_guard"),
    ("star_in_with_item_tuple", "positioned", r"^starred expression is not allowed here", "star_in_with_item_tuple"),
    ("future_import_barry_as_flufl", "positioned", r"^future feature barry_as_FLUFL is not defined", "future_import_barry_as_flufl"),
    ("sequence_assignment_from_display_with_starred_item", "crash", r"map_starred_assignment|no starred arg found when splitting star|Compiler crash in PostParse",
     "sequence_assignment_from_display_with_starred_item"),
    ("sequence_assignment_from_display_with_starred_item", "positioned", r"^starred expression is not allowed here|^need more than \d+ values? to unpack|^too many values to unpack",
     "sequence_assignment_from_display_with_starred_item"),
    # operations on numeric literals that CPython compiles (TypeError only if executed) and Cython types statically
    ("static_operand_type_error_on_literal_operands", "positioned", r"^Invalid operand types? for |^mod operator not supported for type 'double complex'", "bitop_on_float_literal"),
    ("static_operand_type_error_on_literal_operands", "positioned", r"^complex types are unordered", "complex_literal_ordering"),
    ("builtin_call_wrong_arg_count", "positioned", r"^\w+\((x|\.\.\.)\) called with wrong number of args|^Call with wrong number of arguments \(expected", "builtin_call"),
    ("non_ascii_char_literal_compared_with_int_literal", "positioned", r"^Only single-character string literals can be coerced into ints", "non_ascii_char_literal_compared_with_int_literal"),
    ("arith_on_builtin_method_of_literal", "positioned", r"^Invalid (operand )?types? for '[^']+' \(.*\(.*object", "arith_on_builtin_method_of_literal"),
    ("call_of_numeric_literal", "positioned", r"^Calling non-function type '(long|double|double complex)'", "call_of_numeric_literal"),
    ("slice_bound_float_literal", "positioned", r"^Cannot assign type '(double|double complex)' to 'Py_ssize_t'", "slice_bound_float_literal"),
    ("divmod_ctuple_as_boolean_operand", "c_error", r"(wrong type argument to unary exclamation mark|used struct type value where scalar is required)", "divmod_ctuple_as_boolean_operand"),
    ("star_unpack_of_numeric_literal", "positioned", r"^starred expression is not allowed here", "star_unpack_of_numeric_literal"),
    ("async_for_over_numeric_literal", "positioned", r"^async for loops not allowed on C/C\+\+ types", "async_for_over_numeric_literal"),
]


def match_family(f, kind, detail):
    """registered class whose input family (in feature set f) and failure kind/message both match, else None"""
    for klass, k, rx, fam in FAMILY_RULES:
        if k == kind and fam in f and re.search(rx, detail):
            return klass
    return None


def classify(src, ext, vd):
    """class name of a violation: a registered input family (source predicate + failure kind + message), else a generic
    name built from the crash site / message (such names are never registered as known -> VIOLATION)"""
    kind, detail = vd
    k = match_family(_src_features(src), kind, detail)
    if k:
        return k
    if kind == "crash":
        return "internal_crash:" + re.sub(r"[^A-Za-z0-9_@:.]+", "_", detail.split(": ")[0])[:70]
    if kind == "c_error":
        return "c_error:" + re.sub(r"[0-9]+", "N", re.sub(r"[^A-Za-z0-9_ ]+", "", detail))[:60].strip().replace(" ", "_")
    if kind == "positioned":
        if "f-string expression" in detail:
            detail = detail.split(":")[0]
        return "valid_python_rejected:" + re.sub(r"'[^']*'", "'_'", detail)[:60].strip().replace(" ", "_")
    return kind + ":" + re.sub(r"[^A-Za-z0-9_]+", "_", detail)[:50]


def judge(ctx, src, ext, r, py_ok):
    """apply the property oracle to one compile result; returns the violation class or None"""
    vd = verdict(r)
    kind, detail = vd
    inp = {"ext": ext, "src": src if len(src) < 6000 else src[:3000] + "\n#...(%d chars)...\n" % len(src) + src[-1500:]}
    if kind in ("crash", "timeout", "died", "unpositioned"):
        k = classify(src, ext, vd)
        ctx.fail(k, inp, list(vd), "positioned errors or C code, never an internal exception")
        return k
    if kind == "c_error":
        k = classify(src, ext, vd)
        ctx.fail(k, inp, list(vd), "generated C accepted by gcc -fsyntax-only")
        return k
    if kind == "positioned" and py_ok and ext == ".py":
        msgs = [e["msg"].splitlines()[0] if e["msg"].strip() else "" for e in r["errors"]]
        if all(allowlisted(m_) for m_ in msgs):
            return None
        if "pep695" in _src_features(src):
            return None
        bad = [m_ for m_ in msgs if not allowlisted(m_)]
        # every rejected message must belong to a registered family of this input; the first one that does not names the class
        feats = _src_features(src)
        ks = [match_family(feats, "positioned", m_) for m_ in bad]
        if "imag_literal_leading_zero_underscore" in ks:        # '0_7j' is reported as a pair of syntax errors
            ks = [k_ or ("imag_literal_leading_zero_underscore" if m_ == "Syntax error in simple statement list" else None)
                  for k_, m_ in zip(ks, bad)]
        if all(ks):
            k = ks[0]
        else:
            k = classify(src, ext, ("positioned", bad[ks.index(None)]))
        ctx.fail(k, inp, ["positioned", bad[:3]], "CPython compiles this text: accepted, or rejected with an allowlisted message")
        return k
    return None


class _Deferred:
    """stands in for ctx while judging results of the (not pristine) worker pool: failures of registered known classes go
    straight to ctx.fail; anything else is kept back and must be confirmed by a pristine re-run first"""
    def __init__(self, ctx):
        self.ctx = ctx
        self.unconfirmed = []       # (src, ext, py_ok, class seen in the pool)
        self.reported = set()       # sources whose failure went straight to ctx.fail (registered classes)

    def judge(self, src, ext, r, py_ok):
        rec = []
        probe = type("P", (), {"fail": lambda s_, *a, **k: rec.append(a)})()
        k = judge(probe, src, ext, r, py_ok)
        if k is None:
            return None
        if k in self.ctx.known_classes:
            self.reported.add(src)
            for a in rec:
                self.ctx.fail(*a)
        else:
            self.unconfirmed.append((src, ext, py_ok, k))
        return k

    def confirm(self, jobs):
        """re-run the kept-back programs pristine; report what they show there.  -> {(src, ext): confirmed class or None}"""
        out = {}
        if not self.unconfirmed:
            return out
        progs = [{"id": "c%d" % i, "ext": ext, "src": src} for i, (src, ext, ok, k) in enumerate(self.unconfirmed)]
        res = compile_batch(self.ctx, progs, jobs=jobs, pristine=True)
        for q, (src, ext, ok, k) in zip(progs, self.unconfirmed):
            k2 = judge(self.ctx, src, ext, res[q["id"]], ok)
            out[(src, ext)] = k2
            if k2 != k:
                self.ctx.note("worker-pool result %s was not reproduced by the pristine run (%s) for a %d-char %s input" % (
                    k, k2 or "no violation", len(src), ext))
        self.unconfirmed = []
        return out


# fixed regression probes: (id, ext, source, registered class this input is expected to show, or None).  The class is
# always computed by classify() from the input and the failure; the expectation only produces a note when it is not met.
def probes():
    big = "1" * 4301
    P = [
        ("typed_str_setitem", ".pyx", "def f(str s, int i, v):\n    s[i] = v\n", "typed_str_setitem_c_index_invalid_c"),
        ("ctuple_cascade_a", ".pyx", "def f(int a, double b):\n    return a <= b <= (1, 2.0)\n", None),
        ("ctuple_cascade_b", ".pyx", "def f(a, b):\n    return a <= (1, 2) <= b\n", None),
        ("ctuple_cascade_c", ".py", "def f(a, b):\n    x = 1\n    y = 2.0\n    return a < (x, y) < b\n", None),
        ("wrong_scope_guard", ".pyx", "# cython: c_compile_guard=FOO\ndef f(): pass\n", None),
        ("wrong_scope_test", ".py", "# cython: test_assert_path_exists=//x\ndef f(): pass\n", None),
        ("dir_warn", ".pyx", "# cython: warn=True\ndef f(): pass\n", None),
        ("dir_nogil", ".py", "# cython: nogil=True\ndef f(): pass\n", None),
        ("dir_gil", ".pyx", "# cython: gil=True\ndef f(): pass\n", None),
        ("match_def", ".py", "def f(x):\n    match x:\n        case 1:\n            def g(): return 1\n            return g\n    return None\n", None),
        ("match_def_call", ".py", "def f(x):\n    match x:\n        case 1:\n            def g(): return 1\n            return g()\n    return None\n", None),
        ("match_async_def", ".py", "def f(x):\n    match x:\n        case [a, *_]:\n            async def g(): return a\n            return g\n    return None\n", None),
        ("oct777", ".py", 'x = "\\777"\n', None),
        ("oct400_f", ".py", 'x = f"\\400{1}"\n', None),
        ("big_decimal", ".py", "x = " + big + "\n", None),
        ("big_decimal_expr", ".py", "def f(a):\n    return a[" + big + "] + -" + big + "\n", None),
        ("legacy_08", ".py", "x = 08\n", None),
        ("legacy_0999_pyx", ".pyx", "cdef int x = 0999\n", None),
        ("imag_0_7j", ".py", "x = 0_7j\n", None),
        ("lambda_after_return", ".py", "def f():\n    if 1:\n        return 0\n    g = lambda: 1\n    return g\n", None),
        ("ok_big_hex", ".py", "x = 0x" + "f" * 6000 + "\ny = 0b" + "1" * 9000 + "\nz = " + "7" * 4300 + "\n", None),
        ("ok_floats", ".py", "x = [1e400, 1e-400, " + "1" * 5000 + ".0, 0_9.5, 09.5, 00.5, 1_0.0_1e+1_0, 007j, 1e3j, .5J]\n", None),
        ("ok_undef", ".py", "def f():\n    return zzz\n", None),
        ("ok_unbound", ".py", "def f():\n    print(a)\n    a = 1\n", None),
        ("ok_delnested", ".py", "def f():\n    a = 1\n    def g(): return a\n    del a\n    return g\n", None),
    ]
    return P + FAMILY_PROBES


# minimal witness of every registered input family: always compiled (quick tier too) so that each open finding is hit
# deterministically and a repair is noticed (the class stops firing -> note in the evidence).  (id, ext, source, class)
_CHAIN = ["v"] * 2000
FAMILY_PROBES = [
    ("unreach_lambda", ".py", "def f(x):\n    try:\n        return 0\n    finally:\n        pass\n    g = lambda: 1\n", "closure_in_unreachable_code"),
    ("unreach_genexpr", ".py", "def f(x):\n    for i in x:\n        if 1:\n            continue\n        g = (j for j in x)\n", "closure_in_unreachable_code"),
    ("unpack_slice", ".py", "def f(x, y):\n    a, b = x[y:]\n    return a, b\n", "unpack_slice_with_nonliteral_start"),
    ("class_hdr_comp", ".py", "b = [object]\nclass C(*[x for x in b]):\n    pass\n", "comprehension_in_class_header"),
    ("class_hdr_walrus", ".py", "class C((v := object)):\n    pass\n", "walrus_in_class_header"),
    ("mod_genexpr_walrus", ".py", "g = ((v := i) for i in [1])\n", "walrus_in_module_level_genexpr"),
    ("augassign_genexpr", ".py", "def f(a, b):\n    a[(x for x in b)] += 1\n", "augassign_target_contains_closure"),
    ("augassign_lambda", ".py", "def f(a, b):\n    a[lambda c: b] %= b\n", "augassign_target_contains_closure"),
    ("in_cascade_float", ".py", "def f(x, y):\n    return x in y == 1.5\n", "in_cascade_with_c_literal_operand"),
    ("in_cascade_int", ".py", "def f(x, y, z):\n    return x in y == 0 >= z\n", "in_cascade_with_c_literal_operand"),
    ("dstar_dict_key", ".py", "k = 'sep'\nprint(**{k: ''})\n", "call_with_double_star_dict_display_computed_key"),
    ("kw_bitop", ".py", "print(sep=~1.5)\n", "bitop_on_float_literal_in_call_keyword"),
    ("reannotate", ".py", "x = 1\nx: 'int | None' = 2\n", "module_global_reannotated_with_non_type"),
    ("with_target_lambda", ".py", "def f(c, d):\n    with c as d[lambda a: a]:\n        pass\n", "closure_in_with_target"),
    ("with_target_listcomp", ".py", "def f(c, d, e):\n    with c as d[[a for a in e][0]]:\n        pass\n", "closure_in_with_target"),
    ("with_target_genexpr", ".py", "def f(c, d, e):\n    with c as d[(a for a in e)]:\n        pass\n", "closure_in_with_target"),
    ("flat_and_2000", ".py", "v = 1\nx = " + " and ".join(_CHAIN) + "\n", "flat_chain_over_1000_terms_recursion_error"),
    ("flat_cmp_2000", ".py", "v = 1\nx = " + " < ".join(_CHAIN) + "\n", "flat_chain_over_1000_terms_recursion_error"),
    ("exstar_module", ".py", "import os\ntry:\n    os.x\nexcept* ValueError:\n    pass\n", "except_star_outside_plain_function"),
    ("exstar_coroutine", ".py", "import os\nasync def f():\n    try:\n        os.x\n    except* ValueError:\n        pass\n", "except_star_outside_plain_function"),
    ("exstar_empty", ".py", "def f(g):\n    try:\n        g()\n    except* ():\n        pass\n", "except_star_empty_tuple"),
    ("imag_inf", ".py", "x = 1e400j\n", "imag_literal_overflows_to_inf"),
    ("slice_type_name", ".py", "def f(x):\n    return x[int:]\n", "slice_bound_type_name_or_ellipsis"),
    ("slice_ellipsis", ".py", "def f(x):\n    return x[...:...]\n", "slice_bound_type_name_or_ellipsis"),
    ("walrus_subscript", ".py", "def f(x):\n    return x[i:=0], i\n", "unparenthesized_walrus_in_subscript"),
    ("slice_tuple", ".py", "def f(x):\n    return x[(1, 2):]\n", "slice_bound_tuple_literal"),
    ("bool_tuple", ".py", "def f(x):\n    if x or (1,):\n        return 1\n", "bool_operand_numeric_tuple_literal"),
    ("genexpr_attr", ".py", "x = (i for i in 'a'.join)\n", "genexpr_over_attribute_of_builtin_value"),
    ("fstr_nested_braces", ".py", "v = 1\nx = f\"{f'{{{v}'}\"\n", "nested_fstring_with_doubled_braces"),
    ("fstr_nested_braces2", ".py", "v = 1\nx = f\"\"\"{f'{{{f\x27\x27\x27{v:>4}\x27\x27\x27}':>4}\"\"\"\n", "nested_fstring_with_doubled_braces"),
    ("await_default", ".py", "async def f(x):\n    def g(a=await x): pass\n    return g\n", "await_in_nested_def_header"),
    ("await_bases", ".py", "async def f(x):\n    class C(await x): pass\n", "await_in_nested_def_header"),
    ("star_subscript", ".py", "def f(a, b):\n    return a[*b]\n", "star_in_subscript"),
    ("star_except", ".py", "def f(g, t):\n    try:\n        g()\n    except (*t,):\n        pass\n", "starred_in_except_tuple"),
    ("complex_truth", ".py", "def f(v):\n    with [1 for i in 'ab' if 2j] as v: pass\n", "complex_literal_truth_test"),
    ("condexpr_tuple", ".py", "def f(c):\n    return .5 if c else (1j,)\n", "condexpr_number_vs_tuple_literal"),
    ("invert_float", ".py", "x = ~1.5\n", "static_operand_type_error_on_literal_operands"),
    ("complex_order", ".py", "x = 1j < 2\n", "static_operand_type_error_on_literal_operands"),
    ("call_literal", ".py", "@1.5\ndef f(): pass\n", "call_of_numeric_literal"),
    ("slice_float", ".py", "def f():\n    return 'abc'[:.5]\n", "slice_bound_float_literal"),
    ("divmod_bool", ".py", "v = 3\nx = divmod(1E-5, v) or 0\n", "divmod_ctuple_as_boolean_operand"),
    ("star_literal", ".py", "x = [*2]\n", "star_unpack_of_numeric_literal"),
    ("with_float", ".py", "def f(v):\n    with v, 2j:\n        pass\n", "with_context_c_float_value"),
    ("with_float_call", ".py", "def f(v):\n    with float(v):\n        pass\n", "with_context_c_float_value"),
    ("match_bytes_nested", ".py", "def f(x):\n    match b'ab':\n        case [[y]]: pass\n", "match_bytes_literal_nested_sequence_pattern"),
    ("call_after_raising_class", ".py", "def f():\n    def a(): pass\n    class B:\n        raise\n    a()\n", "local_call_after_class_body_that_raises"),
    ("builtin_arity", ".py", "v = 1\nx = len(v, v)\n", "builtin_call_wrong_arg_count"),
    ("builtin_arity_float", ".py", "v = 1\nx = float(v, 2)\n", "builtin_call_wrong_arg_count"),
    ("float_keyword", ".py", "v = 1\nx = float(x=v)\n", "float_call_with_keyword_argument"),
    ("char_vs_int", ".py", "x = '\\u00e9' <= 10\n", "non_ascii_char_literal_compared_with_int_literal"),
    ("for_c_bool_display", ".py", "for a in (not set,):\n    pass\n", "module_level_for_over_single_c_bool_display"),
    ("unary_plus_method", ".py", "x = +b'a'.join\n", "arith_on_builtin_method_of_literal"),
    ("cmp_method", ".py", "x = 'a'.join < 1\n", "arith_on_builtin_method_of_literal"),
    ("set_nested_star", ".py", "v = [1]\nx = {1, *(*v, 2)}\n", "set_display_item_then_starred_display_with_star"),
    ("yield_decorator", ".py", "def g(d):\n    @d((yield))\n    def f(): pass\n", "yield_in_function_decorator"),
    ("async_for_literal", ".py", "async def f():\n    return [i async for i in 1.5]\n", "async_for_over_numeric_literal"),
    ("class_base_not", ".py", "a = 1\nclass C(not a): pass\n", "class_base_c_bool_expression"),
    ("deco_not", ".py", "f = 1\n@not f\ndef g(): pass\n", "call_of_c_bool_expression"),
    ("call_is", ".py", "f = 1\nx = (f is None)()\n", "call_of_c_bool_expression"),
    ("pass_semicolon", ".py", "pass; x = 1\n", "pass_then_semicolon_statement"),
    ("pass_semicolon_fn", ".py", "def f():\n    pass; return 1\n", "pass_then_semicolon_statement"),
    ("ann_slice_target", ".py", "l = [1]\nl[0:1]: int = l\n", "annotated_assignment_slice_target"),
    ("raw_fstring_contline", ".py", 'x = rf"\\\n"\n', "raw_fstring_backslash_newline"),
    ("walrus_set", ".py", "x = {y := 1}\n", "unparenthesized_walrus_in_set_display_or_match_guard"),
    ("walrus_guard", ".py", "def g(x):\n    match x:\n        case _ if y := x: pass\n", "unparenthesized_walrus_in_set_display_or_match_guard"),
    ("with_star_tuple", ".py", "def g(v):\n    with (*v,): pass\n", "star_in_with_item_tuple"),
    ("future_flufl", ".py", "from __future__ import barry_as_FLUFL\n", "future_import_barry_as_flufl"),
    ("seq_assign_star_crash", ".py", "l = [1, 2]\nx, *y = *l,\n", "sequence_assignment_from_display_with_starred_item"),
    ("seq_assign_star_reject", ".py", "l = [1, 2]\nx, *y = *l, 1\n", "sequence_assignment_from_display_with_starred_item"),
    ("seq_assign_star_count", ".py", "l = [1, 2]\nx, y = *l,\n", "sequence_assignment_from_display_with_starred_item"),
]


def stmt_deletions(src, cap=48):
    """all variants of src with one statement removed (a block's only statement becomes pass)"""
    try:
        with warnings.catch_warnings():
            warnings.simplefilter("ignore")
            tree = ast.parse(src)
    except Exception:
        lines = src.splitlines(True)
        return ["".join(lines[:i] + lines[i + 1:]) for i in range(len(lines))][:cap]
    lines = src.splitlines(True)
    out = []
    for node in ast.walk(tree):
        for field in ("body", "orelse", "finalbody"):
            blk = getattr(node, field, None)
            if not isinstance(blk, list) or not blk or not isinstance(blk[0], ast.stmt):
                continue
            for s in blk:
                a = min([s.lineno] + [d.lineno for d in getattr(s, "decorator_list", [])])
                b = s.end_lineno
                if len(blk) == 1:
                    ind = re.match(r"\s*", lines[a - 1]).group(0)
                    if s.col_offset and lines[a - 1][:s.col_offset].strip():
                        continue       # statement on the same line as its header
                    new = lines[:a - 1] + [ind + "pass\n"] + lines[b:]
                else:
                    if lines[a - 1][:s.col_offset].strip():
                        continue
                    new = lines[:a - 1] + lines[b:]
                out.append("".join(new))
    out.sort(key=len)
    return list(dict.fromkeys(out))[:cap]


def shrink(ctx, src, ext, klass, rounds=8):
    cur = src
    for _ in range(rounds):
        cands = [c for c in stmt_deletions(cur) if c != cur]
        if not cands:
            break
        progs = [{"id": "s%d" % i, "ext": ext, "src": c} for i, c in enumerate(cands)]
        res = compile_batch(ctx, progs, pristine=True)
        nxt = None
        for p in progs:
            vd = verdict(res[p["id"]])
            if vd[0] in ("crash", "c_error", "unpositioned", "timeout", "died") and classify(p["src"], ext, vd) == klass:
                nxt = p["src"]
                break
        if nxt is None:
            break
        cur = nxt
    return cur


# families of the systematic enumeration that are complete in the quick tier too (argument lists: the parser loop modelled in
# M_CallArgs.v); every other family is stride-sampled in quick and complete in thorough
ENUM_FULL_IN_QUICK = {"callargs", "callargs_comma", "callargs_for", "classargs", "decoargs", "callargs_ctx", "class_header"}
ENUM_QUICK_CAP = 15
ENUM_THOROUGH_CAP = 60
ENUM_GROUP = 100
ENUM_CHUNK = 10


def enum_programs(ctx):
    """-> (groups, singles): props/C43_enum.py snippets that CPython compiles, grouped ENUM_GROUP to a module; snippets that
    are inputs of a registered finding family (they would fail their whole group) stand alone, a bounded number of them"""
    import C43_enum
    valid, ncand, nrej = C43_enum.enum_snippets(ctx.tier)
    full = os.environ.get("C43_ENUM_FULL") == "1"      # offline triage: every enumerated snippet (hours under load)
    if not full:
        # deterministic stride sample per family (the quick sample is a subset of the thorough one); the argument-list families
        # are always complete.  The complete enumeration of the other families (C43_ENUM_FULL=1) is not triaged yet.
        cap = ENUM_QUICK_CAP if ctx.tier == "quick" else ENUM_THOROUGH_CAP
        byfam = {}
        for v in valid:
            byfam.setdefault(v[0], []).append(v)
        valid = []
        for fam, items in byfam.items():
            if fam in ENUM_FULL_IN_QUICK or len(items) <= cap:
                valid += items
            else:
                step = len(items) / float(cap)
                valid += [items[int(i * step)] for i in range(cap)]
    seg_fams = {fam for _, _, _, fam in FAMILY_RULES} - {"builtin_call"}
    flagged = {}
    def segregate(src):
        f = frozenset(_src_features(src) & seg_fams)
        if f:
            flagged[f] = flagged.get(f, 0) + 1
            return True
        return False
    groups, singles = C43_enum.group_programs(valid, segregate, group=ENUM_GROUP)
    # inputs of registered families: every family keeps its fixed probe (FAMILY_PROBES); of the enumerated ones a bounded,
    # family-balanced number is compiled (the rest would only repeat the KNOWN-FINDING)
    per = 1 if ctx.tier == "quick" else 3
    seen, kept = {}, []
    for lab, fam, src in singles:
        k = (fam, frozenset(_src_features(src) & seg_fams))
        seen[k] = seen.get(k, 0) + 1
        if seen[k] <= per:
            kept.append((lab, fam, src))
    cap = 8 if ctx.tier == "quick" else 600
    ctx.extra["grammar_enumeration"] = {"candidates": ncand, "rejected_by_cpython": nrej, "compiled_in_groups": sum(len(g[2]) for g in groups),
                                        "inputs_of_registered_families": len(singles), "of_these_compiled_alone": min(len(kept), cap), "modules": len(groups)}
    return groups, kept[:cap]


def judge_enum(ctx, dj, groups, singles, res, jobs):
    """groups whose module compiles count for all their snippets; a failing module is split into chunks of ENUM_CHUNK, failing
    chunks into single snippets, and those are judged (bounded per family so that a broken parser does not cost hours)"""
    PRE = None
    import C43_enum
    PRE = C43_enum.PRELUDE
    def stratum(fam):
        return "grammar_enum_" + fam
    bad_groups = []
    for i, (lab, src, sg) in enumerate(groups):
        r = res["e%d" % i]
        vd = verdict(r)
        if vd[0] == "ok":
            for slab, fam, ssrc in sg:
                ctx.case(stratum(fam), {"ext": ".py", "src": ssrc[len(PRE):][:200]}, sig=("enum", ssrc))
        else:
            bad_groups.append((lab, src, sg, r))
    for i, (slab, fam, ssrc) in enumerate(singles):
        ctx.case(stratum(fam) + "_registered_family_input", {"ext": ".py", "src": ssrc[:200]}, sig=("enum", ssrc))
        dj.judge(ssrc, ".py", res["x%d" % i], True)
    if not bad_groups:
        return
    chunks = []
    for lab, src, sg, r in bad_groups[:12]:
        for j in range(0, len(sg), ENUM_CHUNK):
            part = sg[j:j + ENUM_CHUNK]
            alone = [x for x in part if not x[2].startswith(PRE)]
            part = [x for x in part if x[2].startswith(PRE)]
            if part:
                chunks.append((PRE + "".join(x[2][len(PRE):] for x in part), part))
            chunks += [(x[2], [x]) for x in alone]
    if len(bad_groups) > 12:
        ctx.note("%d enumeration modules failed; only the first 12 are bisected" % len(bad_groups))
    cres = compile_batch(ctx, [{"id": "k%d" % i, "ext": ".py", "src": c[0]} for i, c in enumerate(chunks)], jobs=jobs)
    sprogs, hit = [], 0
    for i, (csrc, part) in enumerate(chunks):
        if verdict(cres["k%d" % i])[0] == "ok":
            for slab, fam, ssrc in part:
                ctx.case(stratum(fam), {"ext": ".py", "src": ssrc[len(PRE):][:200]}, sig=("enum", ssrc))
        elif len(part) == 1:
            ctx.case(stratum(part[0][1]), {"ext": ".py", "src": part[0][2][:200]}, sig=("enum", part[0][2]))
            dj.judge(part[0][2], ".py", cres["k%d" % i], True)
        elif hit < 16:      # bounded: a broken production fails hundreds of snippets, a few concrete ones are enough
            hit += 1
            sprogs += part
    sres = compile_batch(ctx, [{"id": "j%d" % i, "ext": ".py", "src": x[2]} for i, x in enumerate(sprogs)], jobs=jobs) if sprogs else {}
    found = set()
    for i, (slab, fam, ssrc) in enumerate(sprogs):
        ctx.case(stratum(fam), {"ext": ".py", "src": ssrc[len(PRE):][:200]}, sig=("enum", ssrc))
        if dj.judge(ssrc, ".py", sres["j%d" % i], True):
            found.add(fam)
    for i, (csrc, part) in enumerate(chunks):      # only the combination fails: report the chunk as it is
        if len(part) > 1 and verdict(cres["k%d" % i])[0] != "ok" and not any(dj_seen(dj, x[2]) for x in part):
            dj.judge(csrc, ".py", cres["k%d" % i], True)


def dj_seen(dj, src):
    return any(u[0] == src for u in dj.unconfirmed) or src in dj.reported


def run_programs(ctx):
    here = os.path.dirname(os.path.abspath(__file__))
    if here not in sys.path:
        sys.path.insert(0, here)
    import C43_gen
    rng = ctx.rng
    quick = ctx.tier == "quick"
    n_gen, n_lit, n_mut = (12, 4, 12) if quick else (160, 40, 200)
    progs, meta = [], {}
    def add(kind, ext, src, forced=None):
        pid = "%s%d" % (kind[0], len(progs))
        progs.append({"id": pid, "ext": ext, "src": src})
        meta[pid] = (kind, ext, src, forced)
    valid = []
    for i in range(n_gen):
        s = C43_gen.gen_program(rng, size=rng.choice([6, 10, 14]))
        valid.append(s)
        add("generated", ".py", s)
    for i in range(n_lit):
        s = C43_gen.gen_literal_program(rng)
        valid.append(s)
        add("literal", ".py", s)
    for i in range(n_mut):
        s = C43_gen.mutate(rng, rng.choice(valid))
        for _ in range(rng.randrange(0, 3)):
            s = C43_gen.mutate(rng, s)
        add("mutated", rng.choice([".py", ".py", ".pyx"]), s)
    for pid, ext, src, forced in probes():
        progs.append({"id": "p_" + pid, "ext": ext, "src": src})
        meta["p_" + pid] = ("probe", ext, src, forced)
    # systematic token / grammar interaction snippets: compiled as grouped modules, a failing group is bisected below
    tgroups, trejected = C43_gen.token_programs(7 if quick else 40, all_spellings=not quick, group=40)
    for lab, s_, why in trejected:
        ctx.note("token snippet %s %r is rejected by CPython (%s); skipped" % (lab, s_, why))
    for i, (lab, src, singles) in enumerate(tgroups):
        progs.append({"id": "t%d" % i, "ext": ".py", "src": src})
    egroups, esingles = enum_programs(ctx)
    for i, (lab, src, sg) in enumerate(egroups):
        progs.append({"id": "e%d" % i, "ext": ".py", "src": src})
    for i, (lab, fam, src) in enumerate(esingles):
        progs.append({"id": "x%d" % i, "ext": ".py", "src": src})
    jobs = 6 if quick else 10
    res = compile_batch(ctx, sorted(progs, key=lambda q: -len(q["src"])), jobs=jobs)      # long modules first: the pool finishes evenly
    dj = _Deferred(ctx)
    judge_enum(ctx, dj, egroups, esingles, res, jobs)
    progs = [q for q in progs if not (q["id"][0] in "ex" and q["id"][1:].isdigit())]
    tprogs = [p for p in progs if p["id"][0] == "t" and p["id"][1:].isdigit()]
    progs = [p for p in progs if p not in tprogs]
    retry = []
    for p, (lab, src, singles) in zip(tprogs, tgroups):
        vd = verdict(res[p["id"]])
        if vd[0] == "ok" or (vd[0] == "positioned" and all(allowlisted(e["msg"].splitlines()[0]) for e in res[p["id"]]["errors"] if e["msg"].strip())):
            for slab, ssrc in singles:
                ctx.case("token_interaction_py_ok", {"ext": ".py", "src": ssrc[len(C43_gen.TOKEN_PRELUDE):][:200]}, sig=("tok_prog", slab))
            if vd[0] != "ok":
                ctx.note("token group %s stops at an allowlisted error (%s): later phases not reached" % (lab, vd[1]))
        else:
            retry.append((p, lab, src, singles))
    if retry:
        sprogs = []
        for p, lab, src, singles in retry:
            for j, (slab, ssrc) in enumerate(singles):
                sprogs.append({"id": "%s_%d" % (p["id"], j), "ext": ".py", "src": ssrc, "label": slab})
        sres = compile_batch(ctx, [{k_: v_ for k_, v_ in q.items() if k_ != "label"} for q in sprogs], jobs=jobs)
        for p, lab, src, singles in retry:
            found = False
            for q in [q for q in sprogs if q["id"].startswith(p["id"] + "_")]:
                ctx.case("token_interaction_py_ok", {"ext": ".py", "src": q["src"][len(C43_gen.TOKEN_PRELUDE):][:200]}, sig=("tok_prog", q["label"]))
                if dj.judge(q["src"], ".py", sres[q["id"]], True):
                    found = True
            if not found:       # only the combination fails: report the group as it is
                dj.judge(src, ".py", res[p["id"]], True)
    hist = {}
    unknown = {}
    for p in progs:
        kind, ext, src, forced = meta[p["id"]]
        r = res[p["id"]]
        ok, why = py_accepts(src)
        if kind in ("generated", "literal") and not ok:
            ctx.note("generator produced a program CPython rejects (%s); skipped" % why)
            continue
        vd = verdict(r)
        hist[(kind, vd[0])] = hist.get((kind, vd[0]), 0) + 1
        feats = ""
        if kind == "generated":
            try:
                feats = ",".join(sorted(C43_gen.features_of(src) & {"match", "namedexpr", "asyncfor", "trystar", "joinedstr", "starred", "lambda", "global", "nonlocal"}))
            except Exception:
                feats = ""
        ctx.case("%s_%s_py%s" % (kind, ext.strip("."), "ok" if ok else "rejects"), {"ext": ext, "src": src[:300]},
                 sig=("prog", hash(src), ext))
        k = dj.judge(src, ext, r, ok)
        if kind == "probe" and forced and k != forced:
            ctx.note("probe %s: expected class %s, observed %s%s" % (p["id"], forced, k or "no violation",
                                                                    " (repaired? then mark the finding fixed)" if k is None else ""))
    for (src, ext), k in dj.confirm(jobs).items():
        if k and k not in ctx.known_classes and k not in unknown:
            unknown[k] = (src, ext)
    ctx.extra["outcome_histogram"] = {"%s/%s" % k: v for k, v in sorted(hist.items())}
    # shrink what is new (bounded) so that the replay file carries a small program
    for k, (src, ext) in list(unknown.items())[:0 if quick else 2]:
        if len(src) < 200:
            continue
        small = shrink(ctx, src, ext, k, rounds=6)
        if small != src:
            ctx.note("shrunk %s from %d to %d chars:\n%s" % (k, len(src), len(small), small[:1500]))
            for f in ctx.prop_failures:
                if f["class"] == k and f["input"].get("src", "")[:3000] == src[:3000]:
                    f["note"] = "shrunk by statement deletion: " + small[:3000]
                    f["input"] = {"ext": ext, "src": small}
                    break


def run(ctx):
    run_tokens(ctx)
    run_dot_runs(ctx)
    run_callargs(ctx)
    run_programs(ctx)
    if os.environ.get("C43_DUMP_FAILS"):       # development aid: every failure of this run, uncapped by class
        with open(os.environ["C43_DUMP_FAILS"], "w") as f:
            json.dump({"fails": ctx.prop_failures, "corr": ctx.corr_breaks, "notes": ctx.notes}, f)
    ctx.extra["allowlist"] = [p for p, _ in ALLOW] + ["PEP 695 syntax (documented unsupported)"]
    ctx.extra["fix_flags"] = {"FX_IMAG": FX_IMAG, "FX_INTCHK": FX_INTCHK}


def replay(ctx, obj):
    inp = obj["input"]
    if "token" in inp:
        ctx.note("token replays run through the full token sweep")
        return run_tokens(ctx)
    res = compile_batch(ctx, [{"id": "r0", "ext": inp["ext"], "src": inp["src"]}], pristine=True)
    ok, _ = py_accepts(inp["src"])
    judge(ctx, inp["src"], inp["ext"], res["r0"], ok)
