"""Helper of props/C39.py (not a property): the table-driven differential corpus.

Five generated modules, built once per configuration cell:

  c39cv / c39cmp / c39ar   sources and operand pools of the properties that OWN the helpers whose bodies are
          selected by configuration macros: C05 (TypeConversion.c int conversions), C19 (Optimize.c
          PyObjectCompare: int-int digit classes, float-int / int-float), C02 (Optimize.c PyLongBinop /
          PyFloatBinop / PyLongCompare with constants)
  c39x / c39y   tiny typed functions for the other macro-guarded utility regions (c39x: unicode kinds, bytes,
          list / tuple / dict / set internals, int builtins, formatting; c39y: calls, type slots, exceptions,
          generators / coroutines, pattern matching, argument binding)

A function is listed with the operand tables it is run over ("#@ A B" = product of tables A and B,
"#@ zip A B" = pairwise); the worker calls it on freshly created operands and records type + repr of the
result or the exception type.  Everything here is deterministic given the rng."""
import json, re

from . import C02 as _C02, C05 as _C05, C19 as _C19

# ---------------------------------------------------------------------------------------------
# value encoding (JSON): {"i": dec} {"f": hex|nan|inf|-inf} {"s": [code points]} {"b": hex} {"ba": hex}
# {"l": [...]} {"t": [...]} {"py": expr} ; plain JSON None/True/False
# ---------------------------------------------------------------------------------------------


def ev(v):
    if v is None or v is True or v is False:
        return v
    if isinstance(v, int):
        return {"i": str(v)}
    if isinstance(v, float):
        if v != v:
            return {"f": "nan"}
        if v in (float("inf"), float("-inf")):
            return {"f": "inf" if v > 0 else "-inf"}
        return {"f": v.hex()}
    if isinstance(v, str):
        return {"s": [ord(c) for c in v]}
    if isinstance(v, bytes):
        return {"b": v.hex()}
    if isinstance(v, bytearray):
        return {"ba": bytes(v).hex()}
    if isinstance(v, list):
        return {"l": [ev(x) for x in v]}
    if isinstance(v, tuple):
        return {"t": [ev(x) for x in v]}
    if isinstance(v, Py):
        return {"py": v.expr}
    raise TypeError(v)


class Py:
    def __init__(self, expr):
        self.expr = expr


SUPPORT = r'''
import sys, collections, functools, operator
class Idx:
    def __init__(self, v): self.v = v
    def __index__(self): return self.v
    def __repr__(self): return "Idx(%r)" % (self.v,)
class L2(list): pass
class T2(tuple): pass
class D2(dict): pass
class DM(dict):
    def __missing__(self, k): return ("missing", k)
class S2(str): pass
class I2(int): pass
class F2(float): pass
class Seq:
    """sequence protocol only"""
    def __init__(self, *a): self.a = list(a)
    def __len__(self): return len(self.a)
    def __getitem__(self, i): return self.a[i]
    def __setitem__(self, i, v): self.a[i] = v
    def __delitem__(self, i): del self.a[i]
    def __contains__(self, x): return x in self.a
    def __repr__(self): return "Seq%r" % (tuple(self.a),)
class Num:
    def __init__(self, v): self.v = v
    def __repr__(self): return "Num(%r)" % (self.v,)
    def __add__(self, o): return Num(("add", self.v, getattr(o, "v", o)))
    def __radd__(self, o): return Num(("radd", self.v, o))
    def __iadd__(self, o): self.v = ("iadd", self.v, getattr(o, "v", o)); return self
    def __sub__(self, o): return Num(("sub", self.v, getattr(o, "v", o)))
    def __mul__(self, o): return Num(("mul", self.v, getattr(o, "v", o)))
    def __rmul__(self, o): return Num(("rmul", self.v, o))
    def __matmul__(self, o): return Num(("matmul", self.v, getattr(o, "v", o)))
    def __pow__(self, o, m=None): return Num(("pow", self.v, getattr(o, "v", o), m))
    def __neg__(self): return Num(("neg", self.v))
    def __invert__(self): return Num(("inv", self.v))
    def __pos__(self): return Num(("pos", self.v))
    def __abs__(self): return Num(("abs", self.v))
    def __bool__(self): return bool(self.v)
    def __lt__(self, o): return ("lt", self.v, getattr(o, "v", o))
    def __eq__(self, o): return isinstance(o, Num) and self.v == o.v
    def __hash__(self): return hash(("Num", self.v))
    def __int__(self): return 42
    def __index__(self): return 3
    def __float__(self): return 2.5
class NoOps:
    def __repr__(self): return "NoOps()"
class It:
    """iterator protocol only"""
    def __init__(self, n, fail=None): self.i = 0; self.n = n; self.fail = fail
    def __repr__(self): return "It(%r, %r)" % (self.n, self.fail)
    def __iter__(self): return self
    def __next__(self):
        if self.fail is not None and self.i == self.fail: raise KeyError("it")
        if self.i >= self.n: raise StopIteration
        self.i += 1
        return self.i
class Ctx:
    def __init__(self, log, swallow=False, fail_enter=False): self.log = log; self.swallow = swallow; self.fail_enter = fail_enter
    def __enter__(self):
        self.log.append("enter")
        if self.fail_enter: raise KeyError("enter")
        return "ctx"
    def __exit__(self, t, v, tb):
        self.log.append(("exit", None if t is None else t.__name__))
        return self.swallow
class Callee:
    def __repr__(self): return "Callee()"
    def __call__(self, *a, **k): return ("call", a, sorted(k.items()))
    def meth(self, *a, **k): return ("meth", a, sorted(k.items()))
    @classmethod
    def cm(cls, *a, **k): return ("cm", a, sorted(k.items()))
    @staticmethod
    def sm(*a, **k): return ("sm", a, sorted(k.items()))
    attr = 5
def pyf0(): return "pyf0"
def pyf1(a): return ("pyf1", a)
def pyf2(a, b=2): return ("pyf2", a, b)
def pyf3(a, b=2, *c, d=4, **e): return ("pyf3", a, b, c, d, sorted(e.items()))
def raiser(*a, **k): raise LookupError("raiser")
class Pt:
    __match_args__ = ("x", "y")
    def __init__(self, x, y): self.x = x; self.y = y
    def __repr__(self): return "Pt(%r, %r)" % (self.x, self.y)
class E1(Exception): pass
class E2(E1): pass
class E3(KeyError, E1): pass
class Aw:
    """awaitable yielding k times"""
    def __init__(self, k, v): self.k = k; self.v = v
    def __await__(self):
        for i in range(self.k):
            got = yield ("aw", i)
        return self.v
class AIt:
    def __init__(self, n): self.i = 0; self.n = n
    def __aiter__(self): return self
    async def __anext__(self):
        if self.i >= self.n: raise StopAsyncIteration
        self.i += 1
        return self.i
class ACtx:
    def __init__(self, log): self.log = log
    async def __aenter__(self): self.log.append("aenter"); return "actx"
    async def __aexit__(self, t, v, tb): self.log.append(("aexit", None if t is None else t.__name__)); return False
def drive(coro, sends=()):
    """run a coroutine by hand: -> [yielded values..., ('ret', v) | ('exc', type name)]"""
    out = []; sends = list(sends); v = None
    try:
        while True:
            y = coro.send(v)
            out.append(y)
            v = sends.pop(0) if sends else None
            if len(out) > 50: out.append("runaway"); break
    except StopIteration as e:
        out.append(("ret", e.value))
    except BaseException as e:
        out.append(("exc", type(e).__name__))
    return out
'''

WORKER = r'''
import sys, json, types, math
spec = json.load(open(sys.argv[1]))
ns = {}
exec(spec["support"], ns)
if spec.get("python_source"):
    mods = {}
    for name, src in spec["python_source"].items():
        pm = types.ModuleType(name)
        pm.__dict__.update(ns)
        exec(compile(src, name, "exec"), pm.__dict__)
        mods[name] = pm
else:
    mods = {name: __import__(name) for name in spec["modules"]}
for mname, mm in mods.items():
    if mname == "c39y":
        # operand expressions must build instances of the classes the module itself matches against
        ns.update({k: v for k, v in vars(mm).items() if not k.startswith("__")})
for mname, mm in mods.items():
    ns[mname] = mm

import re
_ADDR = re.compile(r" at 0x[0-9a-fA-F]+")

def dec(v):
    if not isinstance(v, dict):
        return v
    (k, x), = v.items()
    if k == "i": return int(x)
    if k == "f": return float(x) if x in ("nan", "inf", "-inf") else float.fromhex(x)
    if k == "s": return "".join(map(chr, x))
    if k == "b": return bytes.fromhex(x)
    if k == "ba": return bytearray.fromhex(x)
    if k == "l": return [dec(y) for y in x]
    if k == "t": return tuple(dec(y) for y in x)
    if k == "py": return eval(x, ns)
    if k == "obj": return x
    raise ValueError(k)

def enc(r, depth=0):
    t = type(r)
    if r is None: return "N"
    if r is True: return "T"
    if r is False: return "F"
    if t is int: return str(r)
    if t is float: return "f" + (repr(r) if r != r or r in (math.inf, -math.inf) else r.hex())
    if t is str: return "s" + _ADDR.sub(" at 0x?", ascii(r))
    if t in (list, tuple) and depth < 6:
        return ("[" if t is list else "(") + ",".join(enc(x, depth + 1) for x in r) + ("]" if t is list else ")")
    if t is dict and depth < 6:
        return "{" + ",".join(enc(k, depth + 1) + ":" + enc(v, depth + 1) for k, v in r.items()) + "}"
    try:
        return t.__name__ + ":" + _ADDR.sub(" at 0x?", ascii(r))
    except BaseException as e:
        return t.__name__ + ":<repr " + type(e).__name__ + ">"

def call(f, args):
    try:
        return enc(f(*[dec(x) for x in args]))
    except BaseException as e:
        return "!" + type(e).__name__

out = open(sys.argv[2], "w")
tables = spec["tables"]
for mname, fname, mode, tnames in spec["calls"]:
    mod = mods.get(mname)
    f = getattr(mod, fname, None) if mod is not None else None
    if f is None:
        out.write(json.dumps(None) + "\n"); continue
    sys.stderr.write("@%s.%s\n" % (mname, fname)); sys.stderr.flush()
    res = []
    ts = [tables[t] for t in tnames]
    if mode == "zip":
        for row in zip(*ts):
            res.append(call(f, row))
    elif mode == "same":
        # rows [a, b, same]: one object passed twice when same is set
        for a, b, same in ts[0]:
            if same:
                x = dec(a)
                res.append(call(f, [{"obj": x}, {"obj": x}]))
            else:
                res.append(call(f, [a, b]))
    elif mode == "rows":
        for row in ts[0]:
            res.append(call(f, row))
    else:
        def rec(i, acc):
            if i == len(ts):
                res.append(call(f, acc)); return
            for x in ts[i]:
                rec(i + 1, acc + [x])
        rec(0, [])
    out.write(json.dumps(res) + "\n")
    out.flush()
out.close()
print(json.dumps({"done": len(spec["calls"])}))
'''

# ---------------------------------------------------------------------------------------------
# c39x: extras.  "#@ ..." lines give the operand tables of the def that follows.
# ---------------------------------------------------------------------------------------------
XSRC_HEAD = r'''# cython: language_level=3
import cython
'''
XSRC_BODY_A = r'''

# ---- unicode: CYTHON_USE_UNICODE_INTERNALS / ASSUME_SAFE_MACROS / ASSUME_SAFE_SIZE / Limited API
#@ S I
def u_index(str s, Py_ssize_t i): return s[i]
#@ S I
def u_index_int(str s, int i): return s[i]
#@ S I I
def u_slice(str s, Py_ssize_t i, Py_ssize_t j): return s[i:j]
#@ S I
def u_slice_from(str s, Py_ssize_t i): return s[i:], s[:i]
#@ S
def u_misc(str s): return len(s), s[::-1], s[::2], s.upper(), s.lower(), s.isalpha(), s.isdigit(), s.strip(), s.encode("utf-8"), s.encode("utf-16-le"), s.encode("latin-1", "replace"), s.encode("ascii", "ignore"), hash(s) == hash(str(s)), bool(s), s * 2, sorted(s)
#@ S S
def u_pair(str s, str t): return s + t, s == t, s != t, s < t, s <= t, s > t, s >= t, t in s, t not in s, s.startswith(t), s.endswith(t), s.find(t), s.rfind(t), s.count(t), s.replace(t, "-") if t else s, s.split(t) if t else s.split(), t.join([s, s, s]), s.partition(t) if t else None
#@ S S
def u_pair_obj(s, t): return s == t, s != t, s < t, s >= t, s + t, t in s
#@ S S I I
def u_tailmatch(str s, str t, Py_ssize_t i, Py_ssize_t j): return s.startswith(t, i), s.endswith(t, i, j), s.find(t, i, j), s.startswith((t, "zz"), i, j)
#@ S S
def u_inplace(str s, str t):
    s += t
    s += "x"
    r = s
    r += t
    return s, r
#@ S S
def u_fstring(str s, str t): return f"{s}{t}", f"{s!r}|{t!s:>6}|{s:^5}", f"<{t!a}>", "%s-%s" % (s, t), "{}+{}".format(s, t), f"{s}{1}{t}{2.5}{None}"
#@ S
def u_iter(str s):
    cdef Py_UCS4 c
    out = []
    for c in s:
        out.append((c, c.isalpha(), c.isdigit(), c.isspace(), c.upper(), c.lower(), c in "ab\xe9€", c == u"\xe9"))
    return out
#@ S C
def u_contains_ucs4(str s, Py_UCS4 c): return c in s, c not in s
#@ C
def u_chr(int c): return chr(c), ord(chr(c)) if 0 <= c < 0x110000 else None
#@ S
def u_ord(s): return ord(s)
#@ S
def u_list(str s): return list(s), tuple(s), set(s) == set(list(s)), [c for c in s], {c: i for i, c in enumerate(s)}, "".join(reversed(s)), "".join([c for c in s])
#@ S I
def u_mul(str s, Py_ssize_t i): return s * (i % 4), (i % 3) * s
#@ S S
def u_str_eq_lit(str s, str t): return s == "abc", s == "\xe9", "a€b" == s, s != "", s in ("a", "abc", "\U0001f600"), s == t == "a"
#@ S
def u_decode_roundtrip(str s):
    cdef bytes b = s.encode("utf-8")
    cdef char* p = b
    return b.decode("utf-8"), p[:len(b)].decode("utf-8"), b[1:].decode("utf-8", "replace"), b[:-1].decode("utf-8", "ignore"), (<bytes>b).decode("latin-1"), b.decode("utf-8")[1:]

#@ NUMS
def u_float(str s): return float(s), float(s.strip() or "0")
#@ NUMS
def u_float_obj(s): return float(s), int(s) if len(s) < 30 else None
#@ NUMS
def u_int(str s): return int(s), int(s, 0) if s[:1] in "0123456789+- " else None, int(s.replace(".", ""), 16) if len(s) < 20 else None

# ---- bytes / bytearray
#@ B I
def b_index(bytes b, Py_ssize_t i): return b[i]
#@ B I I
def b_slice(bytes b, Py_ssize_t i, Py_ssize_t j): return b[i:j], b[i:], b[:j]
#@ B B
def b_pair(bytes a, bytes b): return a + b, a == b, a != b, a < b, a <= b, a > b, a >= b, b in a, a.startswith(b), a.endswith(b), a.find(b), a * 2
#@ B B
def b_pair_obj(a, b): return a == b, a != b, a < b, a <= b, a > b, a >= b
#@ B B
def ba_pair(bytes a, bytes b):
    cdef bytearray x = bytearray(a)
    cdef bytearray y = bytearray(b)
    return x == y, x != y, x < y, x <= y, x > y, x >= y, x == b, a == y, a < y, x < b, x >= b, a <= y, x + y, len(x)
#@ B I
def ba_ops(bytes a, int v):
    cdef bytearray x = bytearray(a)
    r = []
    try:
        x.append(v)
        r.append(bytes(x))
    except Exception as e:
        r.append(type(e).__name__)
    try:
        r.append(x[v % 7 - 3])
    except Exception as e:
        r.append(type(e).__name__)
    x.extend(b"zz")
    return r, bytes(x), x[1:3], len(x)
#@ B
def b_iter(bytes b):
    cdef unsigned char c
    out = []
    for c in b:
        out.append(c)
    return out, [x for x in b], b.decode("latin-1"), b.hex(), bool(b), len(b)
#@ B I I
def b_decode_slice(bytes b, Py_ssize_t i, Py_ssize_t j): return b[i:j].decode("latin-1"), b.decode("ascii", "replace")[i:j]

# ---- list / tuple / dict / set: CYTHON_USE_PYLIST_INTERNALS / AVOID_BORROWED_REFS / ASSUME_SAFE_SIZE / SAFE_MACROS
#@ L I
def l_index(list l, Py_ssize_t i): return l[i]
#@ L I
def l_index_obj(l, i): return l[i]
#@ LO IO
def o_index_obj(l, i): return l[i]
#@ L I
def t_index(list l, Py_ssize_t i):
    cdef tuple t = tuple(l)
    return t[i], t[i:], t[:i]
#@ L I
def l_setdel(list l, Py_ssize_t i):
    r = []
    try:
        l[i] = "set"
        r.append(list(l))
    except Exception as e:
        r.append(type(e).__name__)
    try:
        del l[i]
        r.append(list(l))
    except Exception as e:
        r.append(type(e).__name__)
    return r
#@ LO IO
def o_setdel(l, i):
    r = []
    try:
        l[i] = "set"
        r.append(repr(l))
    except Exception as e:
        r.append(type(e).__name__)
    try:
        del l[i]
        r.append(repr(l))
    except Exception as e:
        r.append(type(e).__name__)
    return r
#@ L I I
def l_slice(list l, Py_ssize_t i, Py_ssize_t j): return l[i:j], l[i:], l[:j], l[::2], l[i:j:2]
#@ L I
def l_pop(list l, Py_ssize_t i):
    r = []
    for k in range(3):
        try:
            r.append(l.pop(i) if k else l.pop())
        except Exception as e:
            r.append(type(e).__name__)
    return r, l
#@ L
def l_grow(list l):
    n = len(l)
    for k in range(20):
        l.append(k)
    l.extend([1, 2])
    l.extend((3, 4))
    l.insert(1, "ins")
    l.reverse()
    m = [x for x in l if x != 3]
    l.sort(key=repr)
    return n, len(l), l, m, l.count(1), l.index(1), 1 in l, "q" in l, l + [0], l * 2
#@ L
def l_iter(list l):
    out = []
    for x in l:
        out.append(x)
    cdef tuple t = tuple(l)
    for x in t:
        out.append(x)
    for i, x in enumerate(l):
        out.append((i, x))
    for x in reversed(l):
        out.append(x)
    for x, y in zip(l, t):
        out.append((x, y))
    return out, any(x for x in l), all(x for x in l), sum(1 for x in l), sorted(map(repr, l)), min(map(repr, l), default=None)
#@ L
def l_unpack(l):
    r = []
    try:
        a, b = l
        r.append((a, b))
    except Exception as e:
        r.append(type(e).__name__)
    try:
        a, b, c = l
        r.append((a, b, c))
    except Exception as e:
        r.append(type(e).__name__)
    try:
        a, *b = l
        r.append((a, b))
    except Exception as e:
        r.append(type(e).__name__)
    try:
        *a, b, c = l
        r.append((a, b, c))
    except Exception as e:
        r.append(type(e).__name__)
    return r
#@ L
def t_unpack(list l0):
    cdef tuple l = tuple(l0)
    r = []
    try:
        a, b = l
        r.append((a, b))
    except Exception as e:
        r.append(type(e).__name__)
    try:
        a, *b, c = l
        r.append((a, b, c))
    except Exception as e:
        r.append(type(e).__name__)
    return r, l + (1,), l * 2, len(l), l[::-1]
#@ D K
def d_ops(dict d, k):
    r = []
    for f in (lambda: d[k], lambda: d.get(k), lambda: d.get(k, "dflt"), lambda: k in d, lambda: k not in d,
              lambda: d.setdefault(k, "sd"), lambda: d.pop(k, "pd"), lambda: d.pop(k), lambda: len(d)):
        try:
            r.append(f())
        except Exception as e:
            r.append(type(e).__name__)
    try:
        d[k] = 1
        del d[k]
        del d[k]
    except Exception as e:
        r.append(type(e).__name__)
    return r, d
#@ DO K
def d_ops_obj(d, k):
    r = []
    for f in (lambda: d[k], lambda: d.get(k, "dflt"), lambda: k in d, lambda: len(d)):
        try:
            r.append(f())
        except Exception as e:
            r.append(type(e).__name__)
    return r
#@ D
def d_iter(dict d):
    out = []
    for k in d: out.append(k)
    for k, v in d.items(): out.append((k, v))
    for v in d.values(): out.append(v)
    for k in d.keys(): out.append(k)
    e = {**d, "x": 1}
    f = dict(d, y=2)
    d2 = {k: v for k, v in d.items()}
    d.update(z=3)
    return out, e, f, d2, d, list(d), sorted(map(repr, d.items())), dict.fromkeys(d), d.copy() == d
#@ D
def d_iter_mut(dict d):
    try:
        for k in d:
            d[(k, 1)] = 1
    except RuntimeError:
        return "RuntimeError"
    return "ok"
#@ L K
def s_ops(list l, k):
    r = []
    try:
        s = set(l)
    except Exception as e:
        return type(e).__name__
    for f in (lambda: k in s, lambda: s.add(k), lambda: len(s), lambda: s.discard(k), lambda: s.remove(k), lambda: s.pop() is None):
        try:
            r.append(f())
        except Exception as e:
            r.append(type(e).__name__)
    t = frozenset(l)
    return r, sorted(map(repr, s)), len(t), sorted(map(repr, s | t)), sorted(map(repr, s & t)), [x for x in t] == list(t), s == t, s <= t, {x for x in l} == t

# ---- int builtins
#@ N
def c_builtin_calls(x):
    r = []
    for g in (lambda: abs(x), lambda: divmod(x, 7), lambda: pow(x, 2), lambda: pow(x, 3, 1000), lambda: hash(x), lambda: int(x),
              lambda: float(x), lambda: bool(x), lambda: str(x), lambda: repr(x), lambda: -x, lambda: +x, lambda: ~x, lambda: x ** 2,
              lambda: x.bit_length(), lambda: round(x), lambda: round(x, -2), lambda: min(x, 5), lambda: max(x, 5, 2 ** 64),
              lambda: bin(x), lambda: hex(x), lambda: oct(x), lambda: x.to_bytes(20, "little", signed=True), lambda: isinstance(x, int),
              lambda: isinstance(x, (str, float)), lambda: "%d|%5d|%x" % (x, x, abs(x)), lambda: f"{x}|{x:>8}|{x:+d}|{x:,}", lambda: x is x,
              lambda: complex(x), lambda: x / 3, lambda: x // 3, lambda: x % 3, lambda: 3 - x, lambda: x << 2, lambda: x >> 70):
        try:
            r.append(g())
        except Exception as e:
            r.append(type(e).__name__)
    return r

# ---- ints into C: index conversion, float conversion, truth
#@ N
def n_as_index(x):
    l = [10, 20, 30]
    r = []
    for g in (lambda: l[x], lambda: "abc"[x], lambda: (1, 2)[x], lambda: b"abc"[x], lambda: l[x:], lambda: l[:x], lambda: range(5)[x],
              lambda: len(range(x)) if abs(x) < 2 ** 70 else None, lambda: "ab" * x if abs(x) < 1000 else None, lambda: [0] * x if abs(x) < 1000 else None):
        try:
            r.append(g())
        except Exception as e:
            r.append(type(e).__name__)
    return r
#@ N
def n_as_ssize(Py_ssize_t x): return x
#@ N
def n_as_double(double x): return x
#@ N
def n_float_asg(x):
    cdef double d
    d = x
    return d, d + 1.0, <long long>d if -1e18 < d < 1e18 else 0
#@ NF
def n_truth(x):
    r = []
    if x: r.append(1)
    if not x: r.append(2)
    if x and 1: r.append(3)
    r.append(x or "zero")
    r.append(1 if x else 0)
    cdef bint b = x
    r.append(b)
    return r
#@ NB NB
def n_binop_obj(a, b):
    r = []
    for g in (lambda: a + b, lambda: a - b, lambda: a * b, lambda: a // b, lambda: a % b, lambda: a / b, lambda: a & b, lambda: a | b, lambda: a ^ b,
              lambda: a == b, lambda: a != b, lambda: a < b, lambda: a <= b, lambda: a > b, lambda: a >= b, lambda: divmod(a, b)):
        try:
            r.append(g())
        except Exception as e:
            r.append(type(e).__name__)
    return r
#@ NS NS
def n_cint_ops(long a, long b):
    r = [a + b if -2 ** 61 < a < 2 ** 61 and -2 ** 61 < b < 2 ** 61 else None, a == b, a < b, a & b, a | b, a ^ b, -a if a > -2 ** 63 else None, abs(a) if a > -2 ** 63 else None]
    try:
        r.append(a // b)
        r.append(a % b)
    except ZeroDivisionError:
        r.append("ZeroDivisionError")
    return r, f"{a}", f"{a:5d}", f"{b:x}" if b >= 0 else None, str(a), "%d" % b, f"{a:08d}|{b:<6d}|"
#@ NS
def n_cint_fmt(int a): return f"{a}", f"{a:3d}", f"{a:03d}", f"{a:x}", f"{a:o}", str(a), repr(a), "%s" % a, f"{a:c}" if 0 <= a < 0x110000 and not (0xD800 <= a < 0xE000) else None, f"[{a!r:>12}]"
#@ NS
def n_cuint_fmt(unsigned long a): return f"{a}", f"{a:20d}", f"{a:X}", str(a)
#@ FL
def n_cdouble_fmt(double d): return f"{d}", f"{d:.3f}", f"{d:10.2e}", str(d), repr(d), "%g" % d, f"{d!r}", d == d, d < 0, <object>d

'''

XSRC_BODY_B = r'''
# ---- calls: CYTHON_FAST_PYCALL / VECTORCALL / METH_FASTCALL / UNPACK_METHODS
#@ F
def c_call(f):
    r = []
    for g in (lambda: f(), lambda: f(1), lambda: f(1, 2), lambda: f(1, 2, 3), lambda: f(1, b=5), lambda: f(a=1), lambda: f(*(1, 2)),
              lambda: f(*[1], **{"b": 3}), lambda: f(1, 2, 3, 4, d=5, e=6), lambda: f(**{"a": 1, "d": 9}), lambda: f(1, *(), **{}),
              lambda: f(1, **{"a": 2}), lambda: f(*None), lambda: f(**{1: 2})):
        try:
            r.append(g())
        except Exception as e:
            r.append(type(e).__name__)
    return r
#@ O
def c_method(o):
    r = []
    for g in (lambda: o.meth(), lambda: o.meth(1), lambda: o.meth(1, 2), lambda: o.meth(1, k=2), lambda: o.cm(1), lambda: o.sm(1, 2),
              lambda: o.attr, lambda: o.missing, lambda: o.missing(), lambda: getattr(o, "attr", "d"), lambda: getattr(o, "nope", "d"),
              lambda: getattr(o, "nope"), lambda: hasattr(o, "meth"), lambda: hasattr(o, "nope"), lambda: o(1, x=2), lambda: o(),
              lambda: type(o).__name__, lambda: o.__class__.__name__, lambda: callable(o), lambda: o.append(1), lambda: o.upper(),
              lambda: o.keys(), lambda: o.bit_length(), lambda: o.real, lambda: o.__len__()):
        try:
            r.append(g())
        except Exception as e:
            r.append(type(e).__name__)
    return r
#@ O
def c_setattr(o):
    r = []
    try:
        o.newattr = 5
        r.append(o.newattr)
        setattr(o, "other", 6)
        r.append(o.other)
        del o.newattr
        r.append(hasattr(o, "newattr"))
        del o.newattr
    except Exception as e:
        r.append(type(e).__name__)
    return r
# ---- type slots: CYTHON_USE_TYPE_SLOTS / TYPE_SPECS / LookupSpecial / iteration
#@ OO OO
def o_binops(a, b):
    r = []
    for g in (lambda: a + b, lambda: a - b, lambda: a * b, lambda: a @ b, lambda: a ** b, lambda: -a, lambda: ~a, lambda: +a, lambda: abs(a),
              lambda: a < b, lambda: a == b, lambda: a != b, lambda: bool(a), lambda: not a, lambda: hash(a) == hash(a), lambda: int(a), lambda: float(a),
              lambda: [1, 2, 3, 4][a], lambda: len(a), lambda: a in b, lambda: iter(a) is not None, lambda: repr(a), lambda: str(a)):
        try:
            r.append(g())
        except Exception as e:
            r.append(type(e).__name__)
    x = a
    try:
        x += b
        r.append(x)
    except Exception as e:
        r.append(type(e).__name__)
    return r
#@ IT
def o_iter(o):
    r = []
    try:
        for x in o:
            r.append(x)
            if len(r) > 8: break
    except Exception as e:
        r.append(type(e).__name__)
    try:
        it = iter(o)
        r.append(next(it, "dflt"))
        r.append(next(it))
        r.append(next(it))
    except Exception as e:
        r.append(type(e).__name__)
    try:
        a, b = o
        r.append((a, b))
    except Exception as e:
        r.append(type(e).__name__)
    try:
        r.append(list(o)); r.append(tuple(o)); r.append(sorted(o)); r.append(sum(o)); r.append([y for y in o])
    except Exception as e:
        r.append(type(e).__name__)
    return r
#@ WO
def o_with(swallow, fail_enter, raise_in):
    log = []
    try:
        with Ctx(log, swallow, fail_enter) as c:
            log.append(c)
            if raise_in: raise ValueError("in")
            log.append("body")
    except Exception as e:
        log.append(("caught", type(e).__name__))
    try:
        with NoOps():
            pass
    except Exception as e:
        log.append(type(e).__name__)
    return log

cdef class Ext:
    cdef public long v
    cdef object w
    cdef dict __dict__
    def __init__(self, v=0, w=None): self.v = v; self.w = w
    def __repr__(self): return "Ext(%d)" % self.v
    def __len__(self): return self.v % 5
    def __getitem__(self, i): return ("get", i, self.v)
    def __setitem__(self, i, x): self.w = ("set", i, x)
    def __delitem__(self, i): self.w = ("del", i)
    def __contains__(self, x): return x == self.v
    def __add__(self, o): return Ext((self.v if isinstance(self, Ext) else self) + (o.v if isinstance(o, Ext) else o))
    def __radd__(self, o): return Ext(o + self.v + 1000)
    def __iadd__(self, o): self.v += 7; return self
    def __neg__(self): return Ext(-self.v)
    def __bool__(self): return self.v != 0
    def __hash__(self): return self.v
    def __eq__(self, o): return isinstance(o, Ext) and (<Ext>o).v == self.v
    def __lt__(self, o): return self.v < o.v
    def __call__(self, *a, **k): return ("Ext.call", self.v, a, sorted(k.items()))
    def __iter__(self): return ExtIt(self.v % 4)
    def __getattr__(self, n):
        if n.startswith("dyn_"): return n[4:]
        raise AttributeError(n)
    def __int__(self): return self.v
    def __index__(self): return self.v % 3
    def __enter__(self): return self
    def __exit__(self, *a): self.w = "exited"; return False
    @property
    def prop(self): return self.v * 2
    @prop.setter
    def prop(self, x): self.v = x // 2
    cpdef long twice(self): return self.v * 2
    def meth(self, a=1, *, b=2): return (self.v, a, b)
    @staticmethod
    def smeth(a): return ("smeth", a)
    @classmethod
    def cmeth(cls, a): return (cls.__name__, a)
    def get_w(self): return self.w

cdef class ExtIt:
    cdef int i, n
    def __init__(self, n): self.i = 0; self.n = n
    def __iter__(self): return self
    def __next__(self):
        if self.i >= self.n: raise StopIteration
        self.i += 1
        return self.i

@cython.freelist(2)
cdef class Node:
    cdef public object nxt
    cdef public int k
    def __init__(self, k, nxt=None): self.k = k; self.nxt = nxt

cdef class ExtSub(Ext):
    cdef public int extra
    cpdef long twice(self): return self.v * 3
    def meth(self, a=1, *, b=2): return ("sub",) + Ext.meth(self, a, b=b)

class PySub(Ext):
    def twice(self): return -1
    def __len__(self): return 4

DEL_LOG = []
cdef class WithDealloc:
    cdef public object tag
    def __init__(self, tag): self.tag = tag
    def __dealloc__(self): DEL_LOG.append(("dealloc", self.tag))
class WithDel(WithDealloc):
    def __del__(self): DEL_LOG.append(("del", self.tag))

#@ NS
def x_ext(long v):
    e = Ext(v)
    r = []
    for g in (lambda: len(e), lambda: e[v], lambda: e[1:2], lambda: v in e, lambda: e + 1, lambda: 1 + e, lambda: e + Ext(2), lambda: -e, lambda: bool(e),
              lambda: hash(e), lambda: e == Ext(v), lambda: e != Ext(v), lambda: e < Ext(5), lambda: e > Ext(5), lambda: e <= Ext(5), lambda: e(1, k=2),
              lambda: list(e), lambda: e.dyn_x, lambda: e.nope, lambda: int(e), lambda: [5, 6, 7][e], lambda: e.prop, lambda: e.twice(), lambda: e.meth(),
              lambda: e.meth(2, b=3), lambda: e.meth(b=1, a=0), lambda: e.meth(1, 2), lambda: Ext.smeth(1), lambda: e.cmeth(2), lambda: e.v, lambda: repr(e),
              lambda: ExtSub(v).twice(), lambda: ExtSub(v).meth(5), lambda: PySub(v).twice(), lambda: len(PySub(v)), lambda: (<Ext>PySub(v)).twice(),
              lambda: isinstance(ExtSub(v), Ext), lambda: e - 1, lambda: e * 2, lambda: e @ e, lambda: str(e), lambda: e.w):
        try:
            r.append(g())
        except Exception as ex:
            r.append(type(ex).__name__)
    e[3] = "x"; r.append(e.get_w())
    del e[4]; r.append(e.get_w())
    e += 1; r.append(e.v)
    e.prop = 10; r.append(e.v)
    e.newattr = 3; r.append(e.newattr)
    with e as f:
        r.append(f is e)
    r.append(e.get_w())
    n = None
    for k in range(6):
        n = Node(k, n)
    r.append(n.nxt.nxt.k)
    n = None
    del DEL_LOG[:]
    a = WithDealloc("a"); a = None
    b = WithDel("b"); b = None
    r.append(list(DEL_LOG))
    return r

# ---- exceptions: CYTHON_FAST_THREAD_STATE / USE_EXC_INFO_STACK
#@ EX
def e_match(k):
    log = []
    for cls in (E1, E2, E3, KeyError, ValueError, None):
        try:
            try:
                if cls is None:
                    log.append("none")
                elif k == 0: raise cls
                elif k == 1: raise cls("arg")
                elif k == 2: raise cls("a") from KeyError("cause")
                elif k == 3: raise cls("a") from None
                elif k == 4:
                    try:
                        raise LookupError("inner")
                    except LookupError:
                        raise cls("ctx")
                else: raise cls()
            except E2 as e:
                log.append(("E2", type(e).__name__, e.args))
            except (E3, KeyError) as e:
                log.append(("E3K", type(e).__name__, type(e.__cause__).__name__, type(e.__context__).__name__, e.__suppress_context__))
                if k == 5: raise
            except E1 as e:
                log.append(("E1", type(e).__name__, type(e.__cause__).__name__, type(e.__context__).__name__))
            else:
                log.append("else")
            finally:
                log.append(("fin", sys.exc_info()[0] is None))
        except BaseException as e:
            log.append(("outer", type(e).__name__, type(e.__context__).__name__))
        log.append(sys.exc_info()[0] is None)
    return log
#@ EX
def e_raise_forms(k):
    try:
        if k == 0: raise 5
        if k == 1: raise ValueError
        if k == 2: raise int
        if k == 3: raise ValueError("x").with_traceback(None)
        if k == 4: raise
        if k == 5: raise StopIteration(7)
        return "none"
    except BaseException as e:
        return type(e).__name__, e.args
#@ EX
def e_nested_handlers(k):
    out = []
    try:
        raise E1("first")
    except E1 as a:
        out.append(type(sys.exc_info()[1]).__name__)
        try:
            raise E2("second")
        except E2 as b:
            out.append((type(sys.exc_info()[1]).__name__, type(b.__context__).__name__))
            if k % 2:
                try:
                    raise
                except E1 as c:
                    out.append(("re", c is b))
        out.append(type(sys.exc_info()[1]).__name__)
        for i in range(2):
            try:
                raise KeyError(i)
            except KeyError:
                if k > 2: continue
                out.append(type(sys.exc_info()[1]).__name__)
        out.append(type(sys.exc_info()[1]).__name__)
    out.append(sys.exc_info()[1] is None)
    return out
# ---- generators / coroutines: Coroutine.c, AsyncGen.c
def _gen(n, log):
    try:
        for i in range(n):
            try:
                got = yield i
                log.append(("got", got))
            except KeyError as e:
                log.append("KeyError")
                yield "caught"
    except GeneratorExit:
        log.append("GeneratorExit")
        raise
    finally:
        log.append("finally")
    return "done"
def _deleg(it, log):
    r = yield from it
    log.append(("r", r))
    return ("deleg", r)
#@ G
def g_drive(mode, n):
    log = []
    g = _gen(n, log) if mode < 4 else _deleg(_gen(n, log) if mode < 7 else (It(n) if mode == 7 else iter([1, 2, 3][:n])), log)
    out = []
    try:
        out.append(next(g))
        if mode % 4 == 0: out.append(g.send("s"))
        if mode % 4 == 1: out.append(g.throw(KeyError("k")))
        if mode % 4 == 2: out.append(g.throw(ValueError));
        if mode % 4 == 3: out.append(g.close())
        out.append(next(g))
        out.append(g.send(None))
        out.extend(g)
    except StopIteration as e:
        out.append(("stop", e.value))
    except BaseException as e:
        out.append(type(e).__name__)
    try:
        out.append(next(g, "exhausted"))
        out.append(g.close())
        out.append(g.gi_running if hasattr(g, "gi_running") else None)
    except BaseException as e:
        out.append(type(e).__name__)
    return out, log
#@ G
def g_misc(mode, n):
    ge = (x * x for x in range(n))
    a = list(ge)
    b = list(ge)
    def inner():
        x = yield
        while x:
            x = yield x - 1
    g = inner()
    r = [next(g), g.send(n), g.send(0) if n > 5 else None] if n != 1 else [next(g)]
    try:
        g.send(0)
    except StopIteration:
        r.append("stop")
    def rec(k):
        if k: yield from rec(k - 1)
        yield k
    def raises():
        yield 1
        raise StopIteration("inside")
    try:
        r.append(list(raises()))
    except RuntimeError as e:
        r.append(("RuntimeError", type(e.__cause__).__name__))
    try:
        h = inner(); h.send(5)
    except TypeError:
        r.append("TypeError")
    return a, b, r, list(rec(n % 4)), sum(x for x in range(n) if x % 2), {x: x for x in range(n % 3)}, [y for x in range(n % 4) for y in range(x)]

async def _coro(k, log):
    log.append("start")
    v = await Aw(k, "awv")
    log.append(v)
    async with ACtx(log) as c:
        log.append(c)
        async for x in AIt(k):
            log.append(x)
        w = await _coro2(k)
    return (v, w)
async def _coro2(k):
    if k == 3: raise E1("in coro")
    return [x async for x in AIt(k)] + [await Aw(0, i) for i in range(k)]
async def _agen(k, log):
    try:
        for i in range(k):
            got = yield i
            log.append(got)
            await Aw(1, None)
    finally:
        log.append("agen-finally")
async def _use_agen(k, log):
    out = []
    ag = _agen(k, log)
    async for x in ag:
        out.append(x)
    ag2 = _agen(k, log)
    try:
        out.append(await ag2.asend(None))
        out.append(await ag2.asend("sent"))
        out.append(await ag2.athrow(KeyError("t")))
    except BaseException as e:
        out.append(type(e).__name__)
    await ag2.aclose()
    return out
#@ G
def a_drive(mode, n):
    log = []
    if mode % 2 == 0:
        r = drive(_coro(n, log), ["x", "y"])
    else:
        r = drive(_use_agen(n, log))
    c = _coro2(0)
    try:
        c.send(5)
    except TypeError:
        log.append("TypeError")
    except StopIteration:
        log.append("StopIteration")
    c.close()
    return r, log

# ---- pattern matching: MatchCase.c
#@ MO
def m_match(o):
    match o:
        case 0 | 1: return "zero-one"
        case int(x) if x < 0: return ("neg", x)
        case float(): return "float"
        case "abc" | b"abc": return "abc"
        case str() | bytes(): return "strish"
        case []: return "empty-seq"
        case [x]: return ("one", x)
        case [1, 2, *rest]: return ("onetwo", rest)
        case [x, *_, y] if x == y: return ("ends", x)
        case (x, y, z): return ("three", x, y, z)
        case [*most, last]: return ("most", most, last)
        case {"k": v, **rest}: return ("map-k", v, rest)
        case {1: _, 2: two}: return ("map-12", two)
        case {}: return "map"
        case Pt(x=0, y=0): return "origin"
        case Pt(x, y) if x == y: return ("diag", x)
        case Pt(): return "pt"
        case Ext(v=vv): return ("ext", vv)
        case None: return "none"
        case _: return "other"

# ---- argument binding: FunctionArguments.c
def fa0(): return ()
def fa1(a): return (a,)
def fa2(a, b=2): return (a, b)
def fa3(a, b=2, *args, c, d=4, **kw): return (a, b, args, c, d, sorted(kw.items()))
def fa4(a, /, b, *, c=3): return (a, b, c)
def fa5(*args): return args
def fa6(**kw): return sorted(kw.items())
def fa7(int a, double b=1.5, str c=None, list d=None): return (a, b, c, d)
cdef class FA:
    def m0(self): return ()
    def m1(self, a): return (a,)
    def m3(self, a, b=2, *args, c=3, **kw): return (a, b, args, c, sorted(kw.items()))
    def __init__(self, *a, **k): pass
#@ rows:FA
def fa_call(name, args, kw):
    f = getattr(FA(), name[2:]) if name.startswith("m.") else globals()[name]
    return f(*args, **kw)
#@ rows:FA
def fa_call_direct(name, args, kw):
    # calls made from compiled code (the caller side of the vectorcall / fastcall protocol)
    if name == "fa0": return fa0(*args, **kw)
    if name == "fa1": return fa1(*args, **kw)
    if name == "fa2": return fa2(*args, **kw)
    if name == "fa3": return fa3(*args, **kw)
    if name == "fa4": return fa4(*args, **kw)
    if name == "fa7": return fa7(*args, **kw)
    return None

# ---- imports / globals: ImportExport.c, module dict lookups
#@ EX
def i_imports(k):
    global GLOB
    r = []
    try:
        if k == 0:
            import os.path as p; r.append(p.basename("a/b"))
        elif k == 1:
            from collections import OrderedDict, no_such_name
        elif k == 2:
            import no_such_module_c39
        elif k == 3:
            from os import path, sep; r.append(sep)
        elif k == 4:
            r.append(__name__.startswith("c39")); r.append(len.__name__); r.append(globals()["no_such_global"])
        elif k == 5:
            GLOB = 5; r.append(GLOB); del GLOB; r.append(GLOB)
    except Exception as e:
        r.append(type(e).__name__)
    return r
'''


def _expand(src):
    """`for g in (lambda: A, lambda: B, ...): try: r.append(g()) except Exception as e: r.append(type(e).__name__)`
    is written out as one try statement per expression (no closures: the typed locals are used directly and the
    generated C stays small)"""
    pat = re.compile(r"^([ ]*)for (\w) in \((lambda: .*?)\):\n\1    try:\n\1        r\.append\(\2\(\)\)\n"
                     r"\1    except Exception as (\w+):\n\1        r\.append\(type\(\4\)\.__name__\)\n", re.M | re.S)

    def rep(m):
        ind = m.group(1)
        body = " ".join(x.strip() for x in m.group(3).split("\n"))
        exprs = [e.strip().rstrip(",").strip() for e in body.split("lambda: ") if e.strip()]
        out = []
        for e in exprs:
            out.append("%stry:\n%s    r.append(%s)\n%sexcept Exception as %s:\n%s    r.append(type(%s).__name__)\n"
                       % (ind, ind, e, ind, m.group(4), ind, m.group(4)))
        return "".join(out)
    return pat.sub(rep, src)


XSRC = XSRC_HEAD + _expand(XSRC_BODY_A)                  # c39x: strings, bytes, containers, ints, formatting
YSRC = XSRC_HEAD + SUPPORT + _expand(XSRC_BODY_B)        # c39y: calls, type slots, exceptions, generators, matching, binding


def x_functions():
    """-> [(module, function name, mode, [table names])] parsed from the #@ lines of XSRC / YSRC"""
    out = []
    for mod, src in (("c39x", XSRC), ("c39y", YSRC)):
        for m in re.finditer(r"^#@ (.*)\n(?:@.*\n)*def (\w+)\(", src, re.M):
            spec, name = m.group(1).split(), m.group(2)
            if spec[0] == "zip":
                out.append((mod, name, "zip", spec[1:]))
            elif spec[0].startswith("rows:"):
                out.append((mod, name, "rows", [spec[0][5:]]))
            elif len(spec) == 1 and spec[0] in X_ROWS:
                out.append((mod, name, "rows", spec))
            else:
                out.append((mod, name, "product", spec))
    return out


def x_tables(rng, quick):
    S = ["", "a", "abc", "abcabc", "\xe9", "a\xe9", "caf\xe9 ab", "€", "a€b€", "\U0001f600", "x\U0001f600y\xe9", "\x00a\x00",
         " ab cd ", "123"]
    I = [0, 1, 2, 3, -1, -2, -3, 5, -6, 100, -100, 2 ** 62]
    C = [0, 65, 0x61, 0xe9, 0xff, 0x100, 0x20ac, 0xd7ff, 0xd800, 0xffff, 0x10000, 0x1f600, 0x10ffff, 0x110000, -1]
    B = [b"", b"a", b"b", b"ab", b"abc", b"abd", b"ab\x00", b"\x00", b"\xff\xfe", b"abcabc", b"a" * 40]
    L = [[], [1], [1, 2], [1, 2, 3], ["a", None, 2.5, (1,)], list(range(10)), [[1], [2]]]
    LO = [[1, 2, 3], (1, 2, 3), "abc", b"abc", Py("L2([1, 2, 3])"), Py("T2((1, 2, 3))"), Py("Seq(1, 2, 3)"), Py("bytearray(b'abc')"),
          Py("{0: 'z', 1: 'o', -1: 'm'}"), Py("DM({1: 2})"), Py("range(3)"), Py("Seq()"), None, 5, Py("collections.deque([1, 2, 3])")]
    IO = [0, 1, 2, 3, -1, -3, -4, 2 ** 63 - 1, 2 ** 63, -2 ** 63, -2 ** 63 - 1, 2 ** 100, True, Py("Idx(1)"), Py("Idx(-1)"), Py("Idx(2**70)"), 1.0, "1", None,
          Py("slice(1, None)"), Py("slice(None, None, -1)")]
    D = [Py("{}"), Py("{1: 'one'}"), Py("{1: 'one', 'k': None, (1, 2): 3}"), Py("{None: 0, 1.0: 'f', 2: 'i'}"), Py("{i: i * i for i in range(20)}")]
    DO = D + [Py("D2({1: 2})"), Py("DM({1: 2})"), Py("collections.OrderedDict([(1, 2)])"), Py("collections.defaultdict(list, {1: 2})"), None, [1, 2]]
    K = [1, "k", (1, 2), None, 2, 1.0, True, "zz", Py("[1]"), 2 ** 70, Py("Num(1)")]
    F = [Py("pyf0"), Py("pyf1"), Py("pyf2"), Py("pyf3"), Py("lambda *a, **k: (a, sorted(k.items()))"), Py("len"), Py("dict"), Py("Callee()"),
         Py("Callee().meth"), Py("Callee.cm"), Py("Callee.sm"), Py("functools.partial(pyf3, 9, d=8)"), Py("raiser"), Py("int"), Py("c39y.fa3"), Py("c39y.fa2"),
         Py("c39y.Ext(3)"), Py("c39y.Ext"), Py("c39y.Ext(1).meth"), Py("c39y.Ext.smeth"), Py("str.upper"), Py("[].append"), Py("operator.add"), None, 5]
    O = [Py("Callee()"), Py("Callee"), Py("c39y.Ext(2)"), Py("c39y.ExtSub(2)"), Py("c39y.PySub(2)"), Py("[]"), Py("'s'"), Py("{}"), 5, 2.5, None,
         Py("sys"), Py("NoOps()"), Py("Seq(1)"), Py("type('Slots', (), {'__slots__': ('newattr',)})()")]
    OO = [Py("Num(1)"), Py("Num(0)"), Py("NoOps()"), Py("c39y.Ext(2)"), Py("c39y.Ext(0)"), 3, 2.5, "s", Py("[1]"), Py("(1,)"), None, Py("Seq(1, 2)"), True, Py("{1}")]
    IT = [Py("It(0)"), Py("It(2)"), Py("It(3)"), Py("It(5, fail=1)"), Py("It(5, fail=3)"), Py("[1, 2]"), Py("(1, 2, 3)"), Py("'ab'"), Py("{1: 2, 3: 4}"), Py("{1, 2}"),
          Py("range(2)"), Py("iter([1, 2])"), Py("(x for x in [1, 2])"), Py("c39y.Ext(2)"), Py("c39y.Ext(7)"), Py("Seq(1, 2)"), 5, None, Py("NoOps()"),
          Py("c39y.ExtIt(2)"), Py("b'ab'"), Py("collections.deque([1, 2])"), Py("dict.fromkeys([1, 2]).items()")]
    WO = "rows"
    NS = [0, 1, -1, 2, 5, -7, 255, 2 ** 15, 2 ** 30 - 1, 2 ** 30, -2 ** 30, 2 ** 31 - 1, -2 ** 31, 2 ** 31, 2 ** 62, 2 ** 63 - 1, -2 ** 63, -2 ** 63 + 1, 2 ** 63, 2 ** 64]
    N = sorted(set(NS) | {3, -3, 7, 2 ** 30 + 1, -(2 ** 30 + 1), 2 ** 53, 2 ** 53 + 1, -(2 ** 53 + 1), 2 ** 60 - 1, 2 ** 60, -2 ** 60, 2 ** 64 + 1, -2 ** 64,
                          2 ** 89, 2 ** 90, -2 ** 90 - 1, 2 ** 120 + 2 ** 70, -(2 ** 120 + 2 ** 70), 10 ** 30, 2 ** 1023, 2 ** 1024, -2 ** 1024}
               | {rng.choice((1, -1)) * rng.getrandbits(b) for b in (20, 29, 30, 31, 45, 59, 60, 61, 62, 63, 64, 65, 89, 90, 91, 150)})
    FL = [0.0, -0.0, 0.5, 1.0, -1.5, 2.5, 1e16, 1e22, 123456.789, 1e-7, 2.0 ** 53, 2.0 ** 63, -(2.0 ** 63), 1.7976931348623157e308, 5e-324,
          float("inf"), float("-inf"), float("nan")]
    NF = [0, 1, -1, 7, -7, 2 ** 30, -2 ** 30, 2 ** 31, 2 ** 62, 2 ** 63, -2 ** 63, 2 ** 64 + 5, -2 ** 90, True, False, 0.0, -0.0, 1.5, -2.5, 1e300, float("inf"), float("nan"),
          2.0 ** 53, None, "s"]
    EX = [0, 1, 2, 3, 4, 5]
    MO = [0, 1, -5, 2 ** 70, -2 ** 70, 2.5, "abc", b"abc", "x", b"", True, None, [], [7], [1, 2], [1, 2, 3, 4], [5, 6, 5], (1, 2, 3), [1, 3, 5, 7], Py("range(3)"),
          Py("collections.deque([1, 2, 9])"), Py("bytearray(b'ab')"), Py("{'k': 1, 'z': 2}"), Py("{1: 'a', 2: 'b', 3: 'c'}"), Py("{}"), Py("{5: 6}"), Py("D2({'k': 0})"),
          Py("collections.OrderedDict(k=1)"), Py("Pt(0, 0)"), Py("Pt(2, 2)"), Py("Pt(1, 2)"), Py("c39y.Ext(4)"), Py("c39y.PySub(5)"), Py("Seq(1)"), Py("L2([9])"),
          Py("T2((1, 2, 3))"), Py("I2(-3)"), Py("F2(1.0)"), Py("S2('abc')"), Py("object()") if False else Py("NoOps()")]
    NB = [x for x in NF if not isinstance(x, str)]        # (no sequence repetition by 2**30)
    NUMS = ["0", "1", "-1", "1.5", " 2.25 ", "\t-3e2\n", "inf", "-inf", "nan", "+NaN", "Infinity", "-infinity", "1_000.5", "1__0", "_1", "1e400", "-1e-400",
            "0x10", "1e", "", " ", "abc", "1 2", "\u0661\u0662.\u0665", "\uff11\uff12", "1\x00", "\xa01.5\xa0", "1.5\u2003", "12345678901234567890123", "0.1" * 3,
            "9007199254740993", "-0.0", ".5", "5.", "+.5e+1", "0b11", "١٢", "1" * 40 + "." + "5" * 40, "1\x1c", "\x1f2"]
    tables = dict(NUMS=NUMS, NB=NB, S=S, I=I, C=C, B=B, L=L, LO=LO, IO=IO, D=D, DO=DO, K=K, F=F, O=O, OO=OO, IT=IT, NS=NS, N=N, FL=FL, NF=NF, EX=EX, MO=MO)
    enc = {k: [ev(x) for x in v] for k, v in tables.items()}
    # rows tables
    enc["WO"] = [[ev(a), ev(b), ev(c)] for a in (False, True) for b in (False, True) for c in (False, True)]
    enc["G"] = [[ev(m), ev(n)] for m in range(9) for n in (0, 1, 2, 3, 6)]
    fa = []
    names = ["fa0", "fa1", "fa2", "fa3", "fa4", "fa5", "fa6", "fa7", "m.m0", "m.m1", "m.m3"]
    kws = [{}, {"a": 1}, {"b": 5}, {"c": 7}, {"a": 1, "c": 2}, {"c": 1, "d": 2, "zz": 3}, {"q": 0}, {"b": 1, "c": 2, "a": 3}, {"d": None}, {"c": "s", "d": [1]}]
    for nm in names:
        for npos in range(0, 5):
            for kw in kws:
                fa.append([ev(nm), ev(tuple(range(10, 10 + npos))), {"py": repr(kw)}])
    for args in ((1,), (2 ** 40,), ("s",), (1.5,), (1, "x"), (1, 2.5, 3), (1, 2.5, "s", [1]), (1, 2, "s", (1,)), (None,), (1, None, None, None), (True, True)):
        fa.append([ev("fa7"), ev(args), {"py": "{}"}])
    enc["FA"] = fa
    return enc


X_ROWS = {"WO", "G"}       # tables whose entries are argument rows


# ---------------------------------------------------------------------------------------------
# c39ops: sources and pools of the owning properties
# ---------------------------------------------------------------------------------------------
OPS_MODULES = ("c39cv", "c39cmp", "c39ar")


def ops_sources():
    """three modules (translated in parallel): c39cv = C05 conversions (own header and __int128 prelude), c39cmp =
    C19 int/float comparison functions, c39ar = C02 constant binops.
    -> ({module: source}, {module: python-executable source for the CPython oracle})"""
    head = "# cython: language_level=3\n"
    c05 = _C05.gen_source()
    c19 = _C19.ii_source()
    F = _C02.gen_functions("quick")
    c02 = head + "\n".join(_C02.func_source(f) for f in F) + "\n"
    return {"c39cv": c05, "c39cmp": c19, "c39ar": c02}, {"c39cmp": c19, "c39ar": c02}


def ops_tables(rng, quick):
    """-> (tables, calls [(module, function, mode, tables)]) for the three modules of ops_sources()"""
    tables, calls = {}, []
    # ---- C19: int-int pairs by digit class, float-int pairs by sign x magnitude class
    ii = _C19.gen_int_pairs(rng, True)
    if quick:
        keep = [p for p in ii if p[3].startswith(("onepos", "sign", "zero", "size", "equal", "identical"))]
        rest = [p for p in ii if p not in keep]
        ii = keep[::3] + rng.sample(rest, min(len(rest), 250))
    tables["II"] = [[ev(a), ev(b), bool(same)] for a, b, same, _ in ii]
    fi = _C19.gen_float_int_pairs(rng, True)
    if quick:
        cls = [p for p in fi if p[3].startswith("class")]
        near = [p for p in fi if p[3] in ("near-equal", "float-float")]       # values one ulp / one unit apart: all of them
        oth = [p for p in fi if not p[3].startswith("class") and p[3] not in ("near-equal", "float-float")]
        fi = cls[0::4] + cls[1::4] + near + rng.sample(oth, 600)        # (pairs come as fi, if, fi, if ...)
    tables["FI"] = [[ev(a), ev(b), False] for d, a, b, _ in fi if d == "fi"]
    tables["IF"] = [[ev(a), ev(b), False] for d, a, b, _ in fi if d == "if"]
    tables["FF"] = [[ev(a), ev(b), False] for d, a, b, _ in fi if d == "ff"]
    for on, _ in _C19.II_OPS:
        for kind in ("o", "b"):
            for tn, _sig in _C19.II_TYPINGS:
                calls.append(("c39cmp", "%s_%s_%s" % (kind, on, tn), "same", ["II"]))
            for d, tab in (("fi", "FI"), ("if", "IF"), ("ff", "FF")):
                for tn in _C19.FI_FNS[d]:
                    calls.append(("c39cmp", "%s_%s_%s" % (kind, on, tn), "same", [tab]))
    tri = _C19.gen_int_triples(rng, [p for p in _C19.gen_int_pairs(rng, True)], True)[:: (4 if quick else 1)]
    tables["III"] = [[ev(a), ev(b), ev(c)] for a, b, c, _ in tri]
    mixed = []
    for d, a, b, _ in fi[:: (6 if quick else 1)]:
        mixed.append([ev(a), ev(b), ev(a)]); mixed.append([ev(b), ev(a), ev(b)])
    tables["MIX"] = mixed
    for name, kind, _info in _C19.ii_functions():
        if kind != "pair":
            calls.append(("c39cmp", name, "rows", ["III"]))
            if name.endswith("_oo"):
                calls.append(("c39cmp", name, "rows", ["MIX"]))
    # ---- C02: every constant-operand function over ints of every sign x digit class, and floats
    ints = _C02.int_operands(rng, "quick", _C02.CONSTS_QUICK)
    if quick:
        ints = [v for v in ints if abs(v) <= 10 or abs(v).bit_length() % 15 in (0, 1, 14)] + rng.sample(ints, 40)
        ints = sorted(set(ints))
    floats = [0.0, -0.0, 1.5, -2.5, 1.0, 7.0, 1073741824.0, -1073741824.0, 9007199254740992.0, 9007199254740994.0, 1e300, 5e-324,
              float("inf"), float("-inf"), float("nan")]
    tables["AR"] = [ev(v) for v in ints] + [ev(f) for f in floats] + [True, False]
    tables["AR_SMALL"] = [ev(v) for v in ints if abs(v) <= 70000] + [ev(1.5), True]
    F = _C02.gen_functions("quick")
    for f in F:
        big_shift = f["op"] == "Lshift" and f["order"] == "CObj"
        calls.append(("c39ar", f["name"], "product", ["AR_SMALL" if big_shift else "AR"]))
    # ---- C05: every C integer type, argument conversion / assignment conversion / to-Python
    vals = _C05.int_values(rng, 30 if quick else 200)
    if quick:
        vals = [v for v in vals if abs(v) < 300 or abs(v).bit_length() in (7, 8, 9, 15, 16, 17, 30, 31, 32, 33, 60, 61, 62, 63, 64, 65, 90, 91, 127, 128, 129, 1001)]
    tables["CV"] = [ev(v) for v in vals] + [True, ev(1.5), ev("x"), None, {"py": "Idx(5)"}, {"py": "Idx(2**70)"}, {"py": "I2(-9)"}, {"py": "Num(1)"}]
    words = [0, 1, 0x7f, 0x80, 0xff, 0x7fff, 0x8000, 0xffff, 0x7fffffff, 0x80000000, 0xffffffff, 0x3fffffff, 0x40000000]
    tables["W4"] = [[ev(rng.choice(words)), ev(rng.choice(words)), ev(rng.choice(words)), ev(rng.choice(words))] for _ in range(60 if quick else 400)] + \
                   [[ev(a), ev(b), ev(0), ev(0)] for a in words for b in (0, 0x7fffffff, 0x80000000, 0xffffffff)]
    for ct, nm, w, sg, fam in _C05.TYPES:
        calls.append(("c39cv", "arg_" + nm, "product", ["CV"]))
        calls.append(("c39cv", "asg_" + nm, "product", ["CV"]))
        if fam != "bint":
            calls.append(("c39cv", "topy_" + nm, "rows", ["W4"]))
    return tables, calls
