"""helper of props/C17.py (not a property): nested struct dtypes (stratum "nest", module c17nest).

Declared dtypes = struct trees of depth 1..4 with sub-structs at every member position (first / middle /
last), siblings chosen so that padding occurs before / after the sub-struct or not at all, packed and
aligned, two adjacent sub-structs, array members inside nested structs.  Exporters: ctypes arrays and
numpy structured arrays of the same tree (their formats are nested T{} records), synthetic PEP-3118
formats (plain token lists in all byte-order modes; nested T{} renderings in the unaligned modes) exact
and edited, and exporters of OTHER trees.  Three-way: compiled acquisition (legacy buffer, the same
__Pyx_BufFmt_CheckString) vs extracted struct-stack model (check_tree) vs layout compatibility computed
from ctypes.addressof / numpy dtype offsets / the struct-module rules, against the C compiler's offsets."""
import ctypes, struct, json
import cybuild

# name: (C type, typegroup, format code, ctypes type, numpy code, struct.unpack code | None)
LEAF = {
    "char": ("char", "H", "c", "c_char", "i1", "b"), "schar": ("signed char", "I", "b", "c_byte", "i1", "b"),
    "uchar": ("unsigned char", "U", "B", "c_ubyte", "u1", "B"), "short": ("short", "I", "h", "c_short", "i2", "h"),
    "ushort": ("unsigned short", "U", "H", "c_ushort", "u2", "H"), "int": ("int", "I", "i", "c_int", "i4", "i"),
    "uint": ("unsigned int", "U", "I", "c_uint", "u4", "I"), "long": ("long", "I", "l", "c_long", "i8", "q"),
    "longlong": ("long long", "I", "q", "c_longlong", "i8", "q"), "float": ("float", "R", "f", "c_float", "f4", "f"),
    "double": ("double", "R", "d", "c_double", "f8", "d"), "cdouble": ("double complex", "C", "Zd", None, "c16", None),
    "longdouble": ("long double", "R", "g", None, "g", None),
}
GROUPCODE = {"H": 72, "I": 73, "U": 85, "R": 82, "C": 67}


def L(s, dims=()):
    return ("L", s, tuple(dims))


def S(kids, packed=False):
    return ("S", bool(packed), list(kids))


# ---- exporter builders: the same source text runs in the check process and in the worker
BUILDERS_SRC = r'''
import ctypes
def ct_of(tree, LEAF, _n=[0]):
    if tree[0] == "L":
        t = getattr(ctypes, LEAF[tree[1]][3])
        for d in reversed(tree[2]):
            t = t * d
        return t
    _n[0] += 1
    ns = {"_fields_": [("m%d" % i, ct_of(k, LEAF)) for i, k in enumerate(tree[2])]}
    if tree[1]:
        ns["_pack_"] = 1
    return type("CT%d" % _n[0], (ctypes.Structure,), ns)
def np_of(tree, LEAF, align):
    import numpy as np
    if tree[0] == "L":
        return (LEAF[tree[1]][4], tuple(tree[2])) if tree[2] else LEAF[tree[1]][4]
    lst = []
    for i, k in enumerate(tree[2]):
        f = np_of(k, LEAF, align)
        lst.append(("m%d" % i, f[0], f[1]) if isinstance(f, tuple) else ("m%d" % i, f))
    return np.dtype(lst, align=align)
def pat(n, seed=3):
    return bytes(((i * 37 + seed * 11 + 5) % 251) for i in range(n))
'''
_ns = {}
exec(BUILDERS_SRC, _ns)
ct_of, np_of, pat = _ns["ct_of"], _ns["np_of"], _ns["pat"]


def leaves(tree, path=""):
    """[(access path, scalar name, dims)] in declaration order"""
    if tree[0] == "L":
        return [(path, tree[1], tree[2])]
    out = []
    for i, k in enumerate(tree[2]):
        out += leaves(k, (path + "." if path else "") + "m%d" % i)
    return out


def depth(tree):
    return 0 if tree[0] == "L" else 1 + max(depth(k) for k in tree[2])


def packing(tree):
    """'a' all aligned, 'p' all packed, 'm' mixed"""
    fl = set()

    def go(t):
        if t[0] == "S":
            fl.add(t[1])
            for k in t[2]:
                go(k)
    go(tree)
    return "m" if len(fl) > 1 else ("p" if True in fl else "a")


def uses(tree, names):
    return any(sn in names for _, sn, _ in leaves(tree))


def nonfirst_struct_begins_with_struct(tree):
    """the finding class: some struct member that is not the first member of its parent begins with a struct"""
    if tree[0] == "L":
        return False
    for i, k in enumerate(tree[2]):
        if k[0] == "S":
            if i > 0 and k[2][0][0] == "S":
                return True
            if nonfirst_struct_begins_with_struct(k):
                return True
    return False


def can_be_complex(tree):
    """Buffer.py gives a struct of exactly two equal float members typegroup 'C' (not modelled here)"""
    if tree[0] == "L":
        return False
    ks = tree[2]
    if len(ks) == 2 and all(k[0] == "L" and not k[2] for k in ks) and ks[0][1] == ks[1][1] and \
            ks[0][1] in ("float", "double", "longdouble"):
        return True
    return any(can_be_complex(k) for k in ks)


# ---- the family of declared trees
VAR = {"A": ("int", "int", ["int", "int"]),                 # no padding anywhere
       "B": ("char", "short", ["char", "double"]),          # padding before the sub-struct, inside and after it
       "C": ("double", "schar", ["short", "int", "schar"]),  # trailing padding of the sub-struct, none before
       "D": ("uchar", "longlong", ["ushort", "float", "uchar"])}


def chain(positions, var, packed=False):
    pre, post, inner = VAR[var]
    node = S([L(x) for x in inner], packed)
    for p in reversed(positions):
        kids = {"F": [node, L(post)], "M": [L(pre), node, L(post)], "L": [L(pre), node]}[p]
        node = S(kids, packed)
    return node


def rand_tree(rng, d, budget):
    n = rng.randrange(1, 5)
    kids = []
    for _ in range(n):
        if d > 1 and budget[0] > 2 and rng.random() < 0.45:
            kids.append(rand_tree(rng, d - 1, budget))
        else:
            budget[0] -= 1
            sn = rng.choice(["char", "schar", "uchar", "short", "ushort", "int", "uint", "long", "longlong", "float", "double"])
            kids.append(L(sn, (rng.choice([2, 3]),)) if rng.random() < 0.12 else L(sn))
    t = S(kids, rng.random() < 0.25)
    return t


def tree_family(quick, rng):
    import itertools
    out = []

    def add(tag, t):
        if not can_be_complex(t):
            out.append(("N%d" % len(out), tag, t))
    add("flat", S([L("int"), L("int"), L("int"), L("int")]))
    add("flat", S([L("char"), L("double"), L("short")]))
    for i, pos in enumerate(itertools.product("FML", repeat=1)):
        for v in "ABCD":
            add("d2/" + "".join(pos) + v, chain(pos, v))
        add("d2p/" + "".join(pos), chain(pos, "B", True))
    for i, pos in enumerate(itertools.product("FML", repeat=2)):
        for v in ("AB" if quick else "ABCD"):
            add("d3/" + "".join(pos) + v, chain(pos, v))
        if not quick or i % 2 == 0:
            add("d3p/" + "".join(pos), chain(pos, "B", True))
    for i, pos in enumerate(itertools.product("FML", repeat=3)):
        for v in (["ABC"[i % 3]] if quick else "ABCD"):
            add("d4/" + "".join(pos) + v, chain(pos, v))
        if not quick and i % 3 == 0:
            add("d4p/" + "".join(pos), chain(pos, "D", True))
    inn = S([L("int"), L("short")])
    add("two-adjacent", S([L("short"), inn, inn, L("char")]))
    add("two-adjacent-deep", S([L("int"), S([L("char"), S([L("schar"), L("schar")]), S([L("schar"), L("schar")]), L("int")])]))
    add("arrays", S([L("char"), S([L("short"), L("int", (2,)), S([L("schar", (3,)), L("double")])]), L("uchar")]))
    add("mixed-pack", S([L("char"), S([L("char"), L("int"), S([L("short"), L("double")])], True), L("int")]))
    add("mixed-pack2", S([L("char"), S([L("char"), S([L("char"), L("int")], True), L("double")]), L("short")], False))
    add("single-leaf-structs", S([S([S([L("char")]), L("char")]), L("int"), S([L("double")])]))
    add("wide", S([S([L("char"), L("int")]), L("short"), S([L("double"), S([L("uchar"), L("uint")])]), L("schar"),
                  S([L("float"), L("short")])]))
    add("np-only/complex", S([L("char"), S([L("cdouble"), S([L("short"), L("longdouble")])]), L("schar")]))
    add("begins-with-struct", S([L("int"), S([S([L("int"), L("int")]), L("int")])]))
    add("seed-shape", S([L("int"), S([L("int"), S([L("int"), L("int")])])]))
    for _ in range(6 if quick else 120):
        add("random", rand_tree(rng, rng.choice([2, 3, 3, 4]), [14]))
    return out


# ---- Cython source
def struct_decls(fam):
    """-> (lines of cdef struct declarations (post-order), {top name: [(type name, tree)]})"""
    Ls, types = [], {}

    def declare(name, t):
        kn = []
        for i, k in enumerate(t[2]):
            kn.append(declare("%s_%d" % (name, i), k) if k[0] == "S" else None)
        Ls.append("cdef %sstruct %s:" % ("packed " if t[1] else "", name))
        for i, k in enumerate(t[2]):
            if k[0] == "S":
                Ls.append("    %s m%d" % (kn[i], i))
            else:
                Ls.append("    %s m%d%s" % (LEAF[k[1]][0], i, "".join("[%d]" % d for d in k[2])))
        types.setdefault(name.split("_")[0], []).append((name, t))
        return name
    for name, tag, t in fam:
        declare(name, t)
    return Ls, types


def layout_lines(fam, types, fname):
    """def <fname>(): {type name: [sizeof, offsetof members...], 'abs:'+top: [absolute scalar offsets]}"""
    Ls = ["def %s():" % fname, "    out = {}"]
    for top in types:
        for tn, t in types[top]:
            Ls.append("    cdef %s x_%s" % (tn, tn))
    for top in types:
        for tn, t in types[top]:
            offs = ", ".join("<size_t>(<char*>&x_%s.m%d - <char*>&x_%s)" % (tn, i, tn) for i in range(len(t[2])))
            Ls.append("    out[%r] = [sizeof(%s), %s]" % (tn, tn, offs))
    for name, tag, t in fam:
        offs = ", ".join("<size_t>(<char*>&x_%s.%s - <char*>&x_%s)" % (name, p, name) for p, sn, dims in leaves(t))
        Ls.append("    out[%r] = [%s]" % ("abs:" + name, offs))
    Ls += ["    return out", ""]
    return Ls


def gen_source(fam, exp_src):
    Ls = ["# cython: language_level=3", exp_src, ""]
    dl, types = struct_decls(fam)
    Ls += dl + [""]
    for name, tag, t in fam:
        vals = []
        for path, sn, dims in leaves(t):
            if dims or LEAF[sn][5] is None:
                continue
            vals.append("e.%s" % path)
        Ls += ["def buf_%s(obj):" % name, "    cdef object[%s, ndim=1] b = obj" % name, "    cdef %s e = b[1]" % name,
               "    return (bytes((<char*>&e)[:sizeof(%s)]), (%s))" % (name, "".join(v + ", " for v in vals))]
    Ls += [""] + layout_lines(fam, types, "layouts")
    return "\n".join(Ls)


# ---- __pyx_typeinfo_cmp stratum: Cython memoryview of dtype X assigned to a typed memoryview of dtype Y
TI_FAM = [("Q%d" % i, "ticmp", t) for i, t in enumerate([
    S([L("int"), L("char", (3,))]), S([L("int"), L("schar")]), S([L("int"), L("schar", (3,))]),
    S([L("int"), L("uchar", (3,))]), S([L("int"), L("char")]), S([L("int"), L("uchar")]),
    S([L("uint"), L("char")]), S([L("int"), L("char", (2,))]), S([L("int"), L("char")], True),
    S([L("int"), S([L("char"), L("schar")])]), S([L("int"), S([L("schar"), L("char")])]),
    S([L("int"), S([L("char", (2,))])]), S([L("float"), L("char")]), S([L("int"), L("char", (1,))]),
    S([L("int"), L("char", (3, 1))]), S([L("int"), L("schar", (1, 3))]), S([L("int"), L("schar")], True),
    S([L("short"), L("uchar"), L("char"), S([L("schar"), L("short")])]),
    S([L("short"), L("char"), L("uchar"), S([L("char"), L("ushort")])]),
    S([L("int"), L("schar", (2,))]), S([L("int"), L("schar", (3, 1))]), S([L("int"), L("uchar", (2,))])])]


def ti_source():
    """lines added to module c17mod (typed memoryviews)"""
    dl, types = struct_decls(TI_FAM)
    Ls = dl + [""]
    for name, tag, t in TI_FAM:
        Ls += ["def mem_%s(obj):" % name, "    cdef %s[:] a = obj" % name, "    return a",
               "def as_%s(obj):" % name, "    cdef %s[:] b = obj" % name,
               "    return bytes((<char*>&b[0])[:sizeof(%s)])" % name]
    Ls += [""] + layout_lines(TI_FAM, types, "ti_layouts")
    return Ls


TI_SETUP = r"""
import c17mod, numpy as np
%(builders)s
LEAF = %(leaf)r
TREES = %(trees)r
def ti(x, y, align):
    dt = np_of(TREES[x], LEAF, align)
    data = pat(2 * dt.itemsize)
    a = np.frombuffer(bytearray(data), dtype=dt)
    try:
        m = getattr(c17mod, "mem_" + x)(a)
    except (ValueError, TypeError) as e:
        return "NOEXPORT " + str(e)
    raw = getattr(c17mod, "as_" + y)(m)
    return "same" if raw == data[:len(raw)] else "diff:" + raw[:32].hex()
"""


def cinfo_arg(d):
    """type info of a declared tree in the driver's notation c<size>:<group>:<unsigned>:<dims>:<flags>[kids]"""
    def go(t, tn):
        if t[0] == "L":
            g = LEAF[t[1]][1]
            return "c%d:%d:%d:%s:0" % (d.leaf_size(t[1]), GROUPCODE[g], int(g == "U"), ".".join(map(str, t[2])) if t[2] else "-")
        rel = d.lay[tn]
        return "c%d:83:0:-:%d[%s]" % (rel[0], int(t[1]), ";".join("%s@%d" % (go(k, "%s_%d" % (tn, i)), rel[1 + i])
                                                                for i, k in enumerate(t[2])))
    return go(d.tree, d.name)


def char_dims_pair(x, y):
    """input-side test for finding memview_typeinfo_cmp_char_skips_array_dims: the two dtypes have, at the same
    position and offset, one-byte members one of which is C char, with different array dimensions"""
    def structure(t):
        return "L" if t[0] == "L" else [structure(k) for k in t[2]]
    if structure(x.tree) != structure(y.tree):
        return False
    return any((a[0] == "H" or b[0] == "H") and a[1] == b[1] and a[2] == b[2] and tuple(a[3]) != tuple(b[3])
               for a, b in zip(x.items(), y.items()))


def run_ticmp(ctx, model, H, fxs, deep, fixh):
    res = cybuild.call_cases(ctx.workdir, [["c17mod.ti_layouts", []]], setup="import c17mod")
    if "e" in res[0]:
        ctx.corr_break("ti-layouts", "c17mod.ti_layouts()", res[0], "layout dict")
        return
    import ast
    import numpy as np
    lay = ast.literal_eval(res[0]["r"])
    decls = [NDecl(name, tag, t, lay) for name, tag, t in TI_FAM]
    fmts, npitems = {}, {}
    for d in decls:
        al = packing(d.tree) == "a"
        dt = np_of(d.tree, LEAF, al)
        ni = H.np_flatten(dt)
        if not H.layouts_match(ni, d.items()) or dt.itemsize != d.size:
            ctx.corr_break("ti-declared-layout/numpy", d.name, [d.size] + d.items(), [dt.itemsize] + ni)
        fmts[d.name] = (memoryview(np.zeros(2, dt)).format.encode(), dt.itemsize, al)
        npitems[d.name] = ni
    pairs = [(x, y) for x in decls for y in decls]
    q1 = model.batch(["ticmp %s %s %s" % (fixh, cinfo_arg(y), cinfo_arg(x)) for x, y in pairs])
    q2 = model.batch(["tcheck %s %s0 %s %s %d" % (fxs, deep, fmts[x.name][0].hex(), y.tree_arg(), fmts[x.name][1]) for x, y in pairs])
    q3 = model.batch(["ticompat %s %s" % (cinfo_arg(y), cinfo_arg(x)) for x, y in pairs])
    setup = TI_SETUP % dict(builders=BUILDERS_SRC, leaf=LEAF, trees={n: t for n, g, t in TI_FAM})
    res = cybuild.call_cases(ctx.workdir, [["ti", [x.name, y.name, fmts[x.name][2]]] for x, y in pairs], setup=setup, alarm=10)
    for (x, y), m1, m2, m3, r in zip(pairs, q1, q2, q3, res):
        inp = {"module": "c17mod", "kind": "memoryview->memoryview", "exporter_dtype": x.name, "exporter_tree": x.tree_arg(),
               "declared_dtype": y.name, "declared_tree": y.tree_arg(), "exporter_format": fmts[x.name][0].decode(), "call": "as_%s(mem_%s(a))" % (y.name, x.name)}
        # the exporter is a Cython memoryview of declared dtype X over a numpy buffer: its item type is X (type info)
        # or the numpy format; where the two disagree about compatibility with Y (a C char view of signed data
        # against an unsigned member ...) the verdict is judged by the model tie only
        o1, o2 = H.layouts_match(x.items(), y.items()), H.layouts_match(npitems[x.name], y.items())
        orc = False if x.size != y.size else (o1 if o1 == o2 else None)
        mv = "Accept" if ((m1 == "1" and x.size == y.size) or m2 == "Accept") else "Reject"
        ctx.case("ticmp/%s/cmp%s/%s%s" % ("same" if x is y else "other", m1, mv, "/char-view-ambiguous" if orc is None else ""),
                 inp, sig=("ticmp", x.name, y.name))
        if (m3 == "1") != H.layouts_match(x.items(), y.items()):
            ctx.corr_break("buffmt:cinfo_compat/layouts_match", inp, H.layouts_match(x.items(), y.items()), m3)
        if "e" in r and r["e"] not in ("ValueError", "TypeError"):
            ctx.fail("unsafe_outcome", inp, str(r)[:200], "returns or raises ValueError/TypeError")
            continue
        if "e" not in r and "NOEXPORT" in str(r.get("r")):
            ctx.corr_break("ti-exporter", inp, r, "mem_%s acquires its own dtype" % x.name)
            continue
        iv = H.impl_verdict(r)
        if iv != mv:
            ctx.corr_break("buffmt:ticmp||check_tree", inp, iv + " " + str(r.get("m", ""))[:140], "%s (ticmp=%s, format check=%s)" % (mv, m1, m2))
        if orc is None:
            continue
        if (iv == "Accept") != orc:
            char_dims = char_dims_pair(x, y)
            ctx.fail("memview_typeinfo_cmp_char_skips_array_dims" if char_dims else
                     ("ticmp_wrong_accept" if iv == "Accept" else "ticmp_wrong_reject"), inp,
                     iv + " " + str(r.get("m", ""))[:160], "Accept" if orc else "Reject")
        elif iv == "Accept" and "same" not in str(r.get("r")):
            ctx.fail("wrong_values", inp, r.get("r"), "the raw bytes of the first item")
    debug_dump(ctx)


SETUP_TMPL = r'''
import c17nest, json
%(builders)s
LEAF = %(leaf)r
TREES = %(trees)r
_ct, _np = {}, {}
def runn(fn, kind, arg, isz):
    if kind == "ct":
        if arg not in _ct:
            _ct[arg] = ct_of(TREES[arg], LEAF)
        data = pat(2 * ctypes.sizeof(_ct[arg]))
        # memoryview(): ctypes exports strides == NULL even when PyBUF_STRIDES is requested
        e = memoryview((_ct[arg] * 2).from_buffer_copy(data))
    elif kind in ("npa", "npp"):
        import numpy as np
        if (kind, arg) not in _np:
            _np[(kind, arg)] = np_of(TREES[arg], LEAF, kind == "npa")
        dt = _np[(kind, arg)]
        data = pat(2 * dt.itemsize)
        e = np.frombuffer(bytearray(data), dtype=dt)
    else:
        data = pat(2 * isz + 64)
        e = c17nest.Exp(bytes.fromhex(arg), data, isz)
    raw, vals = getattr(c17nest, fn)(e)
    n = len(raw)
    return ("same" if raw == data[n:2 * n] else "diff:" + raw[:32].hex(), vals)
'''


# ---- layouts
def ct_flat(cls):
    """[(field ctype, absolute offset via addressof, dims)] of a ctypes Structure class"""
    obj = cls()
    base = ctypes.addressof(obj)
    out = []

    def go(o):
        for fname, ftype in o._fields_:
            v = getattr(type(o), fname)
            sub = getattr(o, fname)
            if isinstance(sub, ctypes.Structure):
                go(sub)
            else:
                out.append((ftype, ctypes.addressof(o) + v.offset - base))
    go(obj)
    return out


CT_KIND = {"c_char": ("H", 1), "c_byte": ("I", 1), "c_ubyte": ("U", 1), "c_short": ("I", 2), "c_ushort": ("U", 2),
           "c_int": ("I", 4), "c_uint": ("U", 4), "c_long": ("I", 8), "c_longlong": ("I", 8), "c_float": ("R", 4),
           "c_double": ("R", 8)}


def ct_items(cls):
    out = []
    for ft, off in ct_flat(cls):
        dims = []
        while hasattr(ft, "_length_"):
            dims.append(ft._length_)
            ft = ft._type_
        k, s = CT_KIND[ft.__name__]
        out.append((k, s, off, tuple(dims)))
    return out


class NDecl:
    def __init__(self, name, tag, tree, lay):
        self.name, self.tag, self.tree = name, tag, tree
        self.lay = lay
        self.size = lay[name][0]
        self.leaves = leaves(tree)
        self.abs = lay["abs:" + name]
        self.finding = nonfirst_struct_begins_with_struct(tree)

    def items(self):
        out = []
        for (p, sn, dims), o in zip(self.leaves, self.abs):
            out.append((LEAF[sn][1], self.leaf_size(sn), o, tuple(dims)))
        return out

    @staticmethod
    def leaf_size(sn):
        code = LEAF[sn][2]
        if code == "g":
            return ctypes.sizeof(ctypes.c_longdouble)
        if code == "Zd":
            return 16
        return struct.calcsize(code)

    def fields_arg(self):
        return "/".join("%d:%d:%d:%s" % (GROUPCODE[k], s, o, ".".join(map(str, d)) if d else "-") for k, s, o, d in self.items())

    def tree_arg(self):
        def go(t, tn):
            if t[0] == "L":
                return "l%d:%d:%s" % (GROUPCODE[LEAF[t[1]][1]], self.leaf_size(t[1]), ".".join(map(str, t[2])) if t[2] else "-")
            rel = self.lay[tn]
            return "s%d[%s]" % (rel[0], ";".join("%s@%d" % (go(k, "%s_%d" % (tn, i)), rel[1 + i]) for i, k in enumerate(t[2])))
        return go(self.tree, self.name)

    def expected_vals(self, data):
        out = []
        for (p, sn, dims), o in zip(self.leaves, self.abs):
            uc = LEAF[sn][5]
            if dims or uc is None:
                continue
            out.append(struct.unpack_from("<" + uc, data, self.size + o)[0])
        return tuple(out)


# ---- synthetic formats
def std_code(sn, mode):
    code = LEAF[sn][2]
    if mode in ("S0", "S1") and code in "lL":
        return "q" if code == "l" else "Q"
    return code


def item_tok(sn, dims, mode):
    code = std_code(sn, mode)
    return ("a", [str(d) for d in dims], code) if dims else ("i", "", code)


def plain_tokens(d, rng, mode, H):
    """token list describing d's flattened layout (explicit pads wherever the mode's own rules do not land)"""
    toks, off = [("m", mode)] if (mode != "N" or rng.random() < 0.3) else [], 0
    for (p, sn, dims), o in zip(d.leaves, d.abs):
        kind, size, al = H.code_native(LEAF[sn][2])
        land = off + ((al - off % al) % al if mode == "N" else 0)
        if o != land:
            toks.append(("p", str(o - off)))
        elif o > off and rng.random() < 0.2:
            toks.append(("p", str(o - off)))
        toks.append(item_tok(sn, dims, mode))
        if rng.random() < 0.5:
            toks.append(("n", p.replace(".", "_").encode()))
        n = 1
        for x in dims:
            n *= x
        off = o + size * n
    if d.size > off and rng.random() < 0.7:
        toks.append(("p", str(d.size - off)))
    return toks


def nested_tokens(d, rng, mode):
    """nested T{} rendering in an unaligned mode: every pad explicit, trailing pad inside or outside the braces"""
    def go(t, tn, base_abs):
        rel = d.lay[tn]
        toks, off = [], 0
        for i, k in enumerate(t[2]):
            o = rel[1 + i]
            if o > off:
                toks.append(("p", str(o - off)) if rng.random() < 0.7 else ("p", ""))
                if toks[-1][1] == "":
                    toks.pop()
                    toks += [("p", "")] * (o - off)
                off = o
            if k[0] == "S":
                ktn = "%s_%d" % (tn, i)
                body, used = go(k, ktn, base_abs + o)
                ksize = d.lay[ktn][0]
                if ksize > used and rng.random() < 0.5:
                    body.append(("p", str(ksize - used)))
                    used = ksize
                toks.append(("T", "", body))
                off = o + used
            else:
                toks.append(item_tok(k[1], k[2], mode))
                n = 1
                for x in k[2]:
                    n *= x
                off = o + NDecl.leaf_size(k[1]) * n
            if rng.random() < 0.6:
                toks.append(("n", b"m%d" % i))
        return toks, off
    body, used = go(d.tree, d.name, 0)
    if d.size > used and rng.random() < 0.6:
        body.append(("p", str(d.size - used)))
    return [("m", mode), ("T", "", body)] if rng.random() < 0.8 else [("m", mode)] + body


def merge_T(toks):
    """adjacent identical T bodies -> one counted T (2T{...})"""
    out = []
    for t in toks:
        if t[0] == "T":
            t = ("T", t[1], merge_T(t[2]))
            if out and out[-1][0] == "T" and out[-1][2] == t[2]:
                out[-1] = ("T", str(int(out[-1][1] or 1) + int(t[1] or 1)), t[2])
                continue
        out.append(t)
    return out


ECODES = ["c", "b", "B", "h", "H", "i", "I", "q", "Q", "f", "d", "Zf", "Zd"]


def edit(toks, rng):
    """one meaning-changing (or occasionally preserving) edit somewhere in the (nested) token list"""
    lists = []

    def collect(ts):
        lists.append(ts)
        for t in ts:
            if t[0] == "T":
                collect(t[2])
    def cp(ts):
        return [("T", t[1], cp(t[2])) if t[0] == "T" else t for t in ts]
    toks = cp(toks)
    collect(toks)
    ts = rng.choice(lists)
    idx = [i for i, t in enumerate(ts) if t[0] in ("i", "a")]
    k = rng.randrange(8)
    if k == 0 and idx:
        i = rng.choice(idx)
        ts[i] = (ts[i][0], ts[i][1], rng.choice(ECODES))
    elif k == 1:
        ts.insert(rng.randrange(len(ts) + 1), ("p", str(rng.choice([1, 1, 2, 4, 8]))))
    elif k == 2 and any(t[0] == "p" for t in ts):
        del ts[rng.choice([i for i, t in enumerate(ts) if t[0] == "p"])]
    elif k == 3 and len(idx) >= 2:
        i, j = rng.sample(idx, 2)
        ts[i], ts[j] = ts[j], ts[i]
    elif k == 4 and idx:
        i = rng.choice(idx)
        ts.insert(i, ts[i])
    elif k == 5 and idx:
        del ts[rng.choice(idx)]
    elif k == 6 and any(t[0] == "p" and t[1] not in ("", "1") for t in ts):
        i = rng.choice([i for i, t in enumerate(ts) if t[0] == "p" and t[1] not in ("", "1")])
        ts[i] = ("p", str(max(0, int(ts[i][1]) + rng.choice([-1, 1, -4, 4]))))
    else:
        ts.insert(rng.randrange(len(ts) + 1), ("w", 32) if rng.random() < 0.5 else ("n", b"x_%d" % rng.randrange(9)))
    return toks


def native_brace_pad(fmtb):
    """input-side test for the known class nested_record_trailing_pad_first_member: some T{} record closes in
    native mode at an offset that is not a multiple of the alignment of its first native-mode member"""
    s = fmtb.decode("latin1")
    AL = {"c": 1, "b": 1, "B": 1, "?": 1, "h": 2, "H": 2, "i": 4, "I": 4, "l": 8, "L": 8, "q": 8, "Q": 8, "f": 4, "d": 8, "g": 16}
    SZ = dict(AL)
    i, off, mode, stack, num, dimn, zc = 0, 0, "@", [], "", 1, 1
    hit = False
    while i < len(s):
        c = s[i]
        if c.isdigit():
            num += c
        elif c in "@=<>^!":
            mode = c
        elif c == ":":
            j = s.find(":", i + 1)
            i = j if j > 0 else len(s)
        elif c == "(":
            j = s.find(")", i)
            for x in s[i + 1:j].split(","):
                dimn *= int(x or 1)
            i = j
        elif c == "T":
            stack.append(None)
            i += 1
            num = ""
        elif c == "}":
            fa = stack.pop() if stack else None
            if fa and off % fa:
                hit = True
            num = ""
        elif c == "x":
            off += int(num or 1)
            num = ""
        elif c == "Z":
            zc = 2
        elif c in AL:
            n = int(num or 1) * dimn
            if mode == "@":
                off += (-off) % AL[c]
                if stack and stack[-1] is None:
                    stack[-1] = AL[c]
            std = {"l": 4, "L": 4}.get(c, SZ[c]) if mode in "=<" else SZ[c]
            off += std * zc * n
            num, dimn, zc = "", 1, 1
        i += 1
    return hit


# ---- the stratum
def run_nest(ctx, model, quick, rng, H, fxs, deep, fam):
    """H = the props.C17 module (oracle helpers); fxs = parser-repair flags; deep = '0' | '1' model variant"""
    res = cybuild.call_cases(ctx.workdir, [["c17nest.layouts", []]], setup="import c17nest")
    if "e" in res[0]:
        ctx.corr_break("nest-layouts", "c17nest.layouts()", res[0], "layout dict")
        return
    import ast
    lay = ast.literal_eval(res[0]["r"])
    decls = [NDecl(name, tag, t, lay) for name, tag, t in fam]
    byname = {d.name: d for d in decls}
    trees = {name: t for name, tag, t in fam}

    # ---- declared layouts: C compiler vs ctypes (addressof) vs numpy vs the model's flatten / struct-stack walk
    q1 = ["tflat " + d.tree_arg() for d in decls]
    q2 = ["twalk %s0 %s" % (deep, d.tree_arg()) for d in decls]
    r1, r2 = model.batch(q1), model.batch(q2)
    cts, nps = {}, {}
    for d, fl, wk in zip(decls, r1, r2):
        ctx.case("nest/declared-layout/depth%d" % depth(d.tree), d.name, sig=("nestdecl", d.name))
        if fl != d.fields_arg():
            ctx.corr_break("buffmt:flatten/C-offsets", {"dtype": d.name, "tree": d.tree_arg()}, d.fields_arg(), fl)
        if (deep == "1" or not d.finding) and wk != fl:
            ctx.corr_break("buffmt:walk=flatten", {"dtype": d.name, "tree": d.tree_arg()}, fl, wk)
        if not uses(d.tree, ("cdouble", "longdouble")):
            cts[d.name] = ct_of(d.tree, LEAF)
            ci = ct_items(cts[d.name])
            if not H.layouts_match(ci, d.items()) or ctypes.sizeof(cts[d.name]) != d.size:
                ctx.corr_break("nest-declared-layout/ctypes", d.name, [d.size] + d.items(), [ctypes.sizeof(cts[d.name])] + ci)
        pk = packing(d.tree)
        if pk in "ap":
            nps[d.name] = ("npa" if pk == "a" else "npp", np_of(d.tree, LEAF, pk == "a"))
            ni = H.np_flatten(nps[d.name][1])
            if not H.layouts_match(ni, d.items()) or nps[d.name][1].itemsize != d.size:
                ctx.corr_break("nest-declared-layout/numpy", d.name, [d.size] + d.items(), [nps[d.name][1].itemsize] + ni)

    cases = []

    def add(stratum, d, kind, arg, fmtb, isz, items, toks=None, plain=False):
        orc = items is not None and H.layouts_match(items, d.items()) and isz == d.size
        cases.append(dict(stratum="nest/" + stratum, decl=d, kind=kind, arg=arg, fmtb=fmtb, isz=isz, oracle=orc,
                          toks=toks, plain=plain, items=items))

    def synth(stratum, d, toks, isz=None, plain=False):
        layo = H.oracle_layout_ext(toks)
        fmtb = b"".join(H.render_tok_ext(t) for t in toks)
        add(stratum, d, "ex", fmtb.hex(), fmtb, d.size if isz is None else isz, None if layo is None else layo[0], toks, plain)

    import numpy as np
    import warnings
    n_edit = 3 if quick else 14
    for d in decls:
        dp = "depth%d" % depth(d.tree)
        cls = "/finding-class" if d.finding else ""
        if d.name in cts:
            fmtb = memoryview((cts[d.name] * 2)()).format.encode()
            add("ctypes/self/%s%s" % (dp, cls), d, "ct", d.name, fmtb, d.size, ct_items(cts[d.name]))
        if d.name in nps:
            kind, dt = nps[d.name]
            fmtb = memoryview(np.zeros(2, dt)).format.encode()
            add("numpy/self/%s%s" % (dp, cls), d, kind, d.name, fmtb, dt.itemsize, H.np_flatten(dt))
        modes = ["N", "S0", "S1", "U"] if not uses(d.tree, ("longdouble",)) else ["N", "U"]
        for mode in ([rng.choice(modes)] if quick else modes):
            synth("plain/exact/%s%s" % (dp, cls), d, plain_tokens(d, rng, mode, H), plain=True)
        base_plain = plain_tokens(d, rng, rng.choice(modes), H)
        nmode = rng.choice([m for m in modes if m != "N"])
        base_nest = merge_T(nested_tokens(d, rng, nmode)) if rng.random() < 0.5 else nested_tokens(d, rng, nmode)
        synth("record/exact/%s%s" % (dp, cls), d, base_nest)
        for i in range(n_edit):
            if i % 2 == 0:
                t = edit(base_plain, rng)
                if rng.random() < 0.25:
                    t = edit(t, rng)
                synth("plain/edited/%s%s" % (dp, cls), d, t, plain=not any(x[0] == "a" for x in t))
            else:
                synth("record/edited/%s%s" % (dp, cls), d, edit(base_nest, rng))
        if rng.random() < (0.3 if quick else 1.0):
            synth("plain/itemsize/%s" % dp, d, base_plain, isz=d.size + rng.choice([-1, 1, 4]), plain=True)
        # exporters of other trees (same size first)
        others = [o for o in decls if o is not d and o.name in cts]
        same = [o for o in others if o.size == d.size]
        pick = rng.sample(same, min(len(same), 2 if quick else 6)) + rng.sample(others, 1 if quick else 3)
        for o in pick:
            fmtb = memoryview((cts[o.name] * 2)()).format.encode()
            add("ctypes/other/%s%s" % (dp, cls), d, "ct", o.name, fmtb, o.size, ct_items(cts[o.name]))

    # ---- model verdicts; Gallina spec on the plain-token cases
    mres = model.batch(["tcheck %s %s0 %s %s %d" % (fxs, deep, c["fmtb"].hex() or "-", c["decl"].tree_arg(), c["isz"]) for c in cases])
    sc = [c for c in cases if c["plain"] and all(t[0] in ("w", "m", "n", "p", "i") for t in c["toks"])
          and not any(t[0] in ("i", "p") and t[1] and int(t[1]) == 0 for t in c["toks"])]
    sres = model.batch(["spec P %s %d %s %d" % (H.enc_toks(c["toks"]), c["decl"].size, c["decl"].fields_arg(), c["isz"]) for c in sc])
    for c, line in zip(sc, sres):
        parts = line.split()
        if line.startswith("!") or len(parts) < 3 or (parts[1] == "1") != c["oracle"] or parts[0] != (c["fmtb"].hex() or "-"):
            ctx.corr_break("buffmt:spec_accept(flat_ti)", nest_input(c), c["oracle"], line[:200])
    # ---- implementation
    setup = SETUP_TMPL % dict(builders=BUILDERS_SRC, leaf=LEAF, trees=trees)
    calls = [["runn", ["buf_" + c["decl"].name, c["kind"], c["arg"], c["isz"]]] for c in cases]
    res = cybuild.call_cases(ctx.workdir, calls, setup=setup, alarm=10)
    for c, mv, r in zip(cases, mres, res):
        d = c["decl"]
        inp = nest_input(c)
        ctx.case(c["stratum"] + "/" + mv, inp, sig=("nest", d.name, c["kind"], c["arg"], c["isz"]))
        if r.get("e") == "WORKER":
            ctx.corr_break("worker", inp, r, "result")
            continue
        iv = H.impl_verdict(r)
        if iv != mv:
            ctx.corr_break("buffmt:check_tree", inp, iv + " " + str(r.get("m", ""))[:140], mv)
        # nonfirst_substruct_begins_with_struct only exists for the code without the repaired descent (deep == "0");
        # once repaired, such dtypes get as far as any other and can only show the independent, already registered
        # closing-brace defect (a native-mode T{} record closing at an offset that is not a multiple of the alignment
        # of its first member: numpy writes the trailing padding as explicit x AFTER the brace, the checker pads first)
        klass = "nonfirst_substruct_begins_with_struct" if (d.finding and deep == "0") else \
            ("nested_record_trailing_pad_first_member" if native_brace_pad(c["fmtb"]) else None)
        if iv not in ("Accept", "Reject"):
            ctx.fail("unsafe_outcome", inp, iv + " " + str(r.get("m", ""))[:160], "returns or raises ValueError/TypeError")
        elif (iv == "Accept") != c["oracle"]:
            ctx.fail(klass or ("nested_wrong_accept" if iv == "Accept" else "nested_wrong_reject"), inp,
                     iv + " " + str(r.get("m", ""))[:160], "Accept" if c["oracle"] else "Reject")
        elif iv == "Accept":
            got = H.canon_val(r)
            n = 2 * c["isz"] + (64 if c["kind"] == "ex" else 0)
            exp = H.py_canon(d.expected_vals(pat(n)))
            if "same" not in str(got[0]) or tuple(got[1]) != exp:
                ctx.fail("wrong_values", inp, repr(got)[:300], repr(("same", exp))[:300])
    debug_dump(ctx)


# ---- axes stratum: ndim / strides / contiguity validation of __Pyx_ValidateAndInit_memviewslice
AX_FNS = [("ax_1", "const int[:]", "S", "n"), ("ax_1c", "const int[::1]", "C", "c"),
          ("ax_2", "const int[:, :]", "SS", "n"), ("ax_2c", "const int[:, ::1]", "FC", "c"), ("ax_2f", "const int[::1, :]", "CF", "f"),
          ("ax_3", "const int[:, :, :]", "SSS", "n"), ("ax_3c", "const int[:, :, ::1]", "FFC", "c"),
          ("ax_3f", "const int[::1, :, :]", "CFF", "f")]


def axes_source():
    Ls = []
    for fn, decl, spec, fl in AX_FNS:
        n = len(spec)
        idx0 = ", ".join("0" for _ in range(n))
        idx1 = ", ".join("v.shape[%d] - 1" % i for i in range(n))
        Ls += ["def %s(obj):" % fn, "    cdef %s v = obj" % decl,
               "    if %s == 0:" % " * ".join("v.shape[%d]" % i for i in range(n)), "        return None",
               "    return (v[%s], v[%s])" % (idx0, idx1)]
    return Ls + [""]


AX_SETUP = r"""
import c17mod, numpy as np
def ax(fn, expr):
    a = eval(expr)
    return getattr(c17mod, fn)(a)
"""


def axes_exprs(quick, rng):
    """numpy expressions producing int32 views with every stride pattern: C/F bases, per-dimension steps,
    reversals, transposes, inserted length-1 axes, broadcast (stride 0) axes, empty extents"""
    import itertools
    out = []
    for nd in (1, 2, 3):
        for shape in itertools.product((1, 2, 3), repeat=nd):
            for order in "CF":
                n = 1
                for x in shape:
                    n *= x
                base = "np.arange(1, %d, dtype=np.intc).reshape(%r, order=%r)" % (n + 1, shape, order)
                out.append(base)
                for perm in itertools.permutations(range(nd)):
                    if list(perm) != list(range(nd)):
                        out.append(base + ".transpose(%r)" % (perm,))
                for d in range(nd):
                    big = tuple(2 * x if i == d else x for i, x in enumerate(shape))
                    sl = ", ".join("::2" if i == d else ":" for i in range(nd))
                    out.append("np.arange(1, %d, dtype=np.intc).reshape(%r, order=%r)[%s]" % (2 * n + 1, big, order, sl))
                    sl = ", ".join("::-1" if i == d else ":" for i in range(nd))
                    out.append(base + "[%s]" % sl)
                    sl = ", ".join("1:1" if i == d else ":" for i in range(nd))
                    out.append(base + "[%s]" % sl)
                    if nd < 3:
                        idx = [":"] * nd
                        idx.insert(d, "None")
                        out.append(base + "[%s]" % ", ".join(idx))
                        out.append(base + "[%s]" % ", ".join([":"] * nd + ["None"]))
                    if shape[d] == 1:
                        bs = tuple(3 if i == d else x for i, x in enumerate(shape))
                        out.append("np.broadcast_to(%s, %r)" % (base, bs))
    seen, uniq = set(), []
    for e in out:
        if e not in seen:
            seen.add(e)
            uniq.append(e)
    if quick:
        def nd_of(e):
            return e[e.index("reshape((") + 9:].split(")")[0].count(",") + (0 if e[e.index("reshape((") + 9:].split(")")[0].endswith(",") else 1)
        keep = [e for e in uniq if nd_of(e) <= 2 and (nd_of(e) == 1 or rng.random() < 0.5) or rng.random() < 0.08]
        uniq = keep
    return uniq


def run_axes(ctx, model, quick, rng, H):
    import numpy as np
    exprs = axes_exprs(quick, rng)
    cases = []
    for e in exprs:
        a = eval(e)
        mvw = memoryview(a)
        for fn, decl, spec, fl in AX_FNS:
            ok = a.ndim == len(spec) and (fl == "n" or (fl == "c" and bool(a.flags.c_contiguous)) or (fl == "f" and bool(a.flags.f_contiguous)))
            exp = None if (not ok or a.size == 0) else (int(a.flat[0]), int(a.reshape(-1, order="C")[-1]) if a.ndim == 1 else int(a[tuple(-1 for _ in range(a.ndim))]))
            cases.append((e, fn, decl, spec, fl, ok, exp, mvw.shape, mvw.strides, mvw.itemsize))
    mres = model.batch(["axes %s %s %d %s %s" % (fl, spec, isz, ",".join(map(str, sh)), ",".join(map(str, st)))
                        for e, fn, decl, spec, fl, ok, exp, sh, st, isz in cases])
    res = cybuild.call_cases(ctx.workdir, [["ax", [fn, e]] for e, fn, decl, spec, fl, ok, exp, sh, st, isz in cases], setup=AX_SETUP, alarm=10)
    for (e, fn, decl, spec, fl, ok, exp, sh, st, isz), mv, r in zip(cases, mres, res):
        inp = {"module": "c17mod", "fn": fn, "declared": decl, "array": e, "shape": list(sh), "strides": list(st)}
        ctx.case("axes/%s/%s" % (decl.replace("const int", ""), "accept" if mv == "1" else "reject"), inp, sig=("axes", fn, e))
        acc = "e" not in r
        if not acc and r["e"] not in ("ValueError", "TypeError"):
            ctx.fail("memview_unsafe", inp, str(r)[:200], "accept or ValueError")
            continue
        if acc != (mv == "1"):
            ctx.corr_break("memviewaxes:validate_axes", inp, "Accept" if acc else "Reject " + str(r.get("m"))[:100], mv)
        if acc != ok:
            ctx.fail("memview_contiguity_verdict", inp, "Accept" if acc else "Reject " + str(r.get("m"))[:120], "Accept" if ok else "Reject")
        elif acc and exp is not None:
            got = H.canon_val(r)
            if got != exp:
                ctx.fail("wrong_values", inp, r.get("r"), repr(exp))
    debug_dump(ctx)


def ast_tuple(s):
    import ast
    try:
        v = ast.literal_eval(s)
        return tuple(v) if isinstance(v, (tuple, list)) else v
    except Exception:
        return s


def debug_dump(ctx):
    import os
    if os.environ.get("C17_DEBUG"):
        with open(os.environ["C17_DEBUG"], "w") as f:
            json.dump({"fails": ctx.prop_failures, "breaks": ctx.corr_breaks}, f, indent=1, default=str)


def nest_input(c):
    d = c["decl"]
    out = {"module": "c17nest", "dtype": d.name, "shape": d.tag, "tree": d.tree_arg(), "fn": "buf_" + d.name,
           "exporter": c["kind"], "format": c["fmtb"].decode("latin1"), "itemsize": c["isz"]}
    if c["kind"] != "ex":
        out["exporter_tree"] = c["arg"]
    return out
