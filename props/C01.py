"""C01 - Compiled pure-Python code behaves exactly like CPython (DESIGN 7/C01).

Theorem side: Lib/MiniPy.v (CPython scoping with cells, run_cells), Model/M_Closure.v (the compiler's
scope objects + outer_scope hops, run_scopes), Proof/P_Closure.v (simulation); Model/M_Unpack.v (the
generated sequence-unpacking protocol vs Python's unpacking), Proof/P_Unpack.v; Prop/C01.v.
Helpers: props/C01_unpack.py (unpacking, 3-way), props/C01_boundary.py (boundary-sized inputs, 2-way).
Correspondence: generated programs run three ways - CPython exec of the source (property oracle), the
module compiled by the compiler under test, and (MiniPy subset) the two extracted interpreters.
"""
import json, os, re, time
import cybuild

TITLE = "Compiled pure-Python code behaves exactly like CPython"
EXTRACTS = ["Closure", "Unpack"]
RULE = ("random programs over a small name pool (so that shadowing, capture, global/nonlocal collisions are "
        "frequent): core = the MiniPy subset (nested def, lambda, closures, global/nonlocal, del, augmented "
        "assignment, if/while/return, calls, makers returning closures); ext = core + list comprehensions (own "
        "scope, captured iteration variable, walrus), default arguments capturing, class bodies (module level "
        "and inside functions, methods, class-level comprehensions), tuple unpacking, builtins, recursion; each "
        "program is called on generated argument tuples in sequence (module state persists); distinct by "
        "(program source, call index); non-trivial = every program defines at least one nested function. "
        "unpacking: every flat target shape of N targets (no star, one star at each position; N<=5 quick, <=6 "
        "thorough) and nested shapes, in assignment / for / comprehension / genexpr / with / typed-rhs contexts and "
        "'for k, v in obj.items()', over 16 iterable kinds (exact tuple/list, their subclasses with and without "
        "__iter__, logging iterators, iterators raising at the end, generators, str, bytes, dict, set, range, "
        "__getitem__ sequences, deque) and non-iterables, with lengths 0..N+2 at every level; distinct by (target, "
        "context, value). boundary: 73 functions (closures, classes, comprehensions, lambdas, global/nonlocal, "
        "augmented assignment, conditional expressions, walrus, unpacking, builtins) each called on sequences of "
        "length 0, 1, 2, 3, 4 and on falsy items")
EXPLANATION = ("theorems (closed, no axioms): for ALL MiniPy programs, entry expressions and ALL fuel the compiler's closure "
               "scheme run_scopes (one scope object per activation of a function with captured variables, closure "
               "pointer = cur_scope of the defining function when the inner function has from_closure entries, "
               "variables reached by a statically computed number of outer_scope hops, pass-through functions) "
               "yields exactly the outcome of CPython's cell scheme run_cells: same value, same event trace, same "
               "UnboundLocalError/NameError (OutOfFuel and Stuck are explicit outcomes and coincide) - proved by a "
               "simulation between cell heaps and scope-object heaps; for the tree as it is the statement is "
               "refuted by 'del' of an unbound module global and proved as _partial: equal, or both runs stop at the "
               "same point with the same trace, NameError vs AttributeError; with the proposed repair "
               "(delglob_fixed) plain equality holds; Scope.lookup's hop computation finds a variable exactly when "
               "symtable's owner resolution does. Unpacking (closed, no axioms, unbounded in targets, nesting and "
               "items): the generated protocol cy_assign (exact tuple/list fast path by size check + item copy; "
               "generic iterator path with its 'need more than k' / 'too many' decisions and end check; starred "
               "path: left targets by iteration, rest into a list, length guard len < n_right, right targets read "
               "from the end by index; nested targets left to right) yields, for every target tree and every "
               "value, exactly the trace (observable next-calls, bindings in order) and outcome of Python's "
               "unpacking ref_assign, the exception carrying the same count; no out-of-bounds index, the starred "
               "target is a new list, the length guard is tight (<= is refuted at the boundary); "
               "__Pyx_unpack_tuple2 ('for k, v in obj.items()') is refuted for tuple subclasses overriding "
               "__iter__ (finding) and proved otherwise / for the proposed PyTuple_CheckExact. partial: the theorem covers name resolution and closure conversion "
               "of the MiniPy subset only (no comprehensions, classes, default arguments, exception handlers); "
               "expression/statement code generation, C-API calls and optimisation passes are not modelled and are "
               "covered only by the differential run (3-way on the MiniPy subset: extracted run_scopes vs compiled "
               "module, extracted run_cells vs CPython, compiled vs CPython; 2-way CPython-vs-compiled on the "
               "extended programs, and on the boundary-sized calls; 3-way cy_assign vs compiled, ref_assign vs "
               "CPython, compiled vs CPython on the unpacking cases). Exception args/messages are not compared "
               "for the random and boundary programs (counted in exception_message_differs); for unpacking they "
               "are compared and differ only by the registered wording class.")
TRUSTED = ["CPython 3.12 executing the same source text (exec) as the property oracle",
           "gcc as a conforming C compiler for the generated module",
           "MiniPy's value universe and operators (int/bool/None/function) as a model of CPython's, tested against exec",
           "cells addressed by (activation number, name) as a naming of CPython's fresh cell objects",
           "M_Unpack.v as a transcription of SequenceNode.generate_*_unpacking_code / __Pyx_unpack_tuple2 (tested 3-way); "
           "PySequence_List, PyObject_GetIter, tp_iternext as their documented contracts (items then StopIteration or an error)"]
ASSUMPTIONS = ["no exception handlers inside MiniPy programs: an exception ends the run",
               "a program that the compiler rejects at compile time is outside the supported subset (counted, not judged)"]

# after the 'del of an unbound module global' fix is applied to /repo flip this to "1"
DELGLOB_FIXED = os.environ.get("C01_DELGLOB_FIXED", "1")
# after proposed_fixes/C01-items_loop_tuple_subclass_iter_ignored.diff (PyTuple_CheckExact in
# __Pyx_unpack_tuple2) is applied to /repo flip this to "1"
FX_TUPLE2 = os.environ.get("C01_FX_TUPLE2", "1")
FUEL = 40000

# ------------------------------------------------------------------------------------------------
# names: ids are the MiniPy identifiers
# ------------------------------------------------------------------------------------------------
INTS = ["a", "b", "c", "d", "e"]
FUNS = {"f": 1, "g": 0, "h": 2, "k": 1}
MKS = {"m": (1, 0), "q": (0, 1)}
ALL = INTS + list(FUNS) + list(MKS) + ["main", "w", "w2", "w3"]
ID = {n: i for i, n in enumerate(ALL)}
BINOPS = {"add": "+", "sub": "-", "mul": "*", "fdiv": "//", "mod": "%"}
CMPOPS = {"lt": "<", "le": "<=", "eq": "==", "ne": "!=", "gt": ">", "ge": ">="}


class Scope:
    def __init__(self, kind, parent, params=(), locals_=(), simple=False):
        self.kind = kind            # module | fn | class
        self.parent = parent
        self.params = set(params)
        self.locals_ = set(params) | set(locals_)   # fn: every name the function may bind
        self.bound = set(params)    # names that MAY be bound at this point (some path binds them)
        self.glob = set()
        self.nonl = set()
        self.deletable = set()      # locals no nested scope refers to ('del' of a captured name is rejected)
        self.forbid = set() if parent is None else set(parent.forbid) | set(parent.deletable)
        self.forbid -= self.locals_
        self.simple = simple        # lambda / comprehension scope: binds only its parameters
        self.depth = 0 if parent is None else parent.depth + (1 if kind == "fn" else 0)

    def fn_chain(self):
        s = self
        while s is not None:
            if s.kind != "class" or s is self:
                yield s
            s = s.parent

    def module(self):
        s = self
        while s.parent is not None:
            s = s.parent
        return s

    def resolve(self, n):
        """(scope that owns n from here, is it the current scope)"""
        if self.kind == "fn":
            if n in self.glob:
                return self.module()
            if n in self.locals_ and n not in self.nonl:
                return self
        elif n in self.bound or self.kind == "module":
            return self
        first = True
        for s in self.fn_chain():
            if first:
                first = False
                continue
            if s.kind == "fn":
                if n in s.glob:
                    return self.module()
                if n in s.locals_ and n not in s.nonl:
                    return s
        return self.module()

    def maybe_bound(self, n):
        return n in self.resolve(n).bound

    def can_read(self, n):
        """reading n here is accepted by the compiler (a definitely unbound local is a compile error)"""
        if n in self.forbid:
            return False
        o = self.resolve(n)
        return o is not self or self.kind != "fn" or n in self.bound

    def targets(self, pool):
        if self.kind == "fn":
            return [n for n in pool if (n in self.locals_ or n in self.glob or n in self.nonl) and n not in self.forbid]
        return [n for n in pool if n not in self.forbid]

    def visible(self):
        return set(n for n in ALLN if self.can_read(n) and self.maybe_bound(n))


ALLN = INTS + list(FUNS) + list(MKS)


class Gen:
    def __init__(self, rng, ext):
        self.rng = rng
        self.ext = ext
        self.feat = set()
        self.nfun = 0
        self.classes = []     # (name, int attrs, methods{name: arity})
        self.ncls = 0

    # ---------------- expressions ----------------
    def lit(self):
        r = self.rng.random()
        if r < 0.8:
            return ("int", self.rng.randrange(-3, 8))
        if r < 0.9:
            return ("bool", self.rng.random() < 0.5)
        return ("none",)

    def int_name(self, sc):
        vis = [n for n in INTS if n in sc.visible()]
        if vis and self.rng.random() < 0.92:
            return self.rng.choice(vis)
        wild = [n for n in INTS if sc.can_read(n)]
        if wild:
            return self.rng.choice(wild)
        return None

    def name_or_lit(self, sc):
        n = self.int_name(sc)
        return ("name", n) if n is not None else self.lit()

    def fun_names(self, sc, arity):
        vis = sc.visible()
        return [n for n, a in FUNS.items() if a == arity and n in vis]

    def iexpr(self, sc, d):
        rng = self.rng
        r = rng.random()
        if d <= 0 or r < 0.22:
            return self.lit() if rng.random() < 0.4 else self.name_or_lit(sc)
        if r < 0.42:
            return self.name_or_lit(sc)
        if r < 0.60:
            op = rng.choice(["add", "add", "sub", "mul", "fdiv", "mod"] if rng.random() < 0.3 else ["add", "sub", "mul"])
            return ("bin", op, self.iexpr(sc, d - 1), self.iexpr(sc, d - 1))
        if r < 0.66:
            return ("cmp", rng.choice(list(CMPOPS)), self.iexpr(sc, d - 1), self.iexpr(sc, d - 1))
        if r < 0.72:
            return ("cond", self.iexpr(sc, d - 1), self.iexpr(sc, d - 1), self.iexpr(sc, d - 1))
        if r < 0.76:
            return (rng.choice(["neg", "not"]), self.iexpr(sc, d - 1))
        if r < 0.82:
            return ("log", self.iexpr(sc, d - 1))
        if r < 0.95:
            c = self.call(sc, d - 1)
            if c is not None:
                return c
            return self.name_or_lit(sc)
        if self.ext:
            return self.ext_iexpr(sc, d - 1)
        # immediately applied lambda
        p = rng.choice(INTS)
        return ("call", self.lam(sc, [p], d - 1), [self.iexpr(sc, d - 1)])

    def call(self, sc, d):
        rng = self.rng
        vis = sc.visible()
        cands = [n for n in FUNS if n in vis]
        mks = [n for n in MKS if n in vis]
        if mks and rng.random() < 0.3:
            mname = rng.choice(mks)
            ma, ra = MKS[mname]
            return ("call", ("call", ("name", mname), [self.iexpr(sc, d) for _ in range(ma)]),
                    [self.iexpr(sc, d) for _ in range(ra)])
        if self.ext and self.classes and rng.random() < 0.3:
            cn, attrs, meths = rng.choice(self.classes)
            if meths and rng.random() < 0.6:
                mn = rng.choice(sorted(meths))
                return ("mcall", cn, mn, [self.iexpr(sc, d) for _ in range(meths[mn])])
            if attrs:
                return ("attr", cn, rng.choice(sorted(attrs)))
        if not cands:
            return None
        fname = rng.choice(cands)
        nargs = FUNS[fname]
        if self.ext and nargs >= 1 and rng.random() < 0.15:
            nargs -= 1          # relies on a default argument if there is one (else TypeError in both)
        args = [self.iexpr(sc, d) for _ in range(nargs)]
        return ("call", ("name", fname), args)

    def lam(self, sc, ps, d, defaults=None):
        inner = Scope("fn", sc, ps, simple=True)
        body = self.iexpr(inner, d)
        self.nfun += 1
        if defaults:
            return ("lam", ps, body, defaults)
        return ("lam", ps, body)

    def fexpr(self, sc, arity, d):
        """an expression whose value is a function of the given arity"""
        rng = self.rng
        r = rng.random()
        same = self.fun_names(sc, arity)
        mks = [n for n, (ma, ra) in MKS.items() if ra == arity and n in sc.visible()]
        if mks and r < 0.35:
            mname = rng.choice(mks)
            return ("call", ("name", mname), [self.iexpr(sc, d) for _ in range(MKS[mname][0])])
        if same and r < 0.5:
            return ("name", rng.choice(same))
        ps = rng.sample(INTS, arity)
        if self.ext and arity >= 1 and rng.random() < 0.4:
            # default argument capturing the current value
            self.feat.add("default")
            return self.lam(sc, ps, d, [self.name_or_lit(sc)])
        return self.lam(sc, ps, d)

    def ext_iexpr(self, sc, d):
        rng = self.rng
        r = rng.random()
        v = rng.choice(INTS)
        n_it = ("bin", "mod", self.iexpr(sc, d), ("int", 4))
        inner = Scope("fn", sc, [v], simple=True)
        wt = [] if (sc.simple or sc.kind == "class") else sc.targets(INTS)
        if r < 0.35:
            self.feat.add("listcomp")
            cond = self.iexpr(inner, d) if rng.random() < 0.3 else None
            return ("bi", rng.choice(["sum", "len"]), ("listcomp", self.iexpr(inner, d), v, ("range", n_it), cond))
        if r < 0.6:
            # lambdas capturing the iteration variable, called afterwards
            self.feat.add("listcomp_capture")
            self.nfun += 1
            lam = ("lam", [], self.iexpr(Scope("fn", inner, [], simple=True), d))
            return ("bi", "sum", ("listcomp", ("call", ("name", "g"), []), "g",
                                  ("listcomp", lam, v, ("range", n_it), None), None))
        if r < 0.75 and wt:
            self.feat.add("walrus")
            x = rng.choice(wt)
            e = self.iexpr(sc, d)
            self.bind(sc, x)
            return ("bin", "add", ("walrus", x, e), ("name", x))
        if r < 0.88 or not [n for n in wt if n != v]:
            self.feat.add("builtin")
            return ("bi", rng.choice(["abs", "int", "bool"]), self.iexpr(sc, d))
        self.feat.add("walrus_in_comp")
        x = rng.choice([n for n in wt if n != v])
        e = self.iexpr(inner, d)
        self.bind(sc, x)
        return ("bin", "add", ("bi", "len", ("listcomp", ("walrus", x, e), v, ("range", ("int", rng.randrange(1, 4))), None)),
                ("name", x))

    # ---------------- statements ----------------
    def block(self, sc, n, d, loopd=0):
        out = []
        for _ in range(n):
            ss = self.stmt(sc, d, loopd)
            out.extend(ss)
            if ss and ss[-1][0] == "ret":
                break               # nothing after a return (the compiler warns about unreachable code)
        return out or [("pass",)]

    def stmt(self, sc, d, loopd):
        rng = self.rng
        r = rng.random()
        ed = 2
        tg = sc.targets(INTS)
        if r < 0.30 and tg:
            x = rng.choice(tg)
            e = self.iexpr(sc, ed)
            self.bind(sc, x)
            return [("assign", x, e)]
        if r < 0.42:
            cands = [x for x in tg if sc.can_read(x) and (sc.maybe_bound(x) or rng.random() < 0.1)]
            if cands:
                x = rng.choice(cands)
                e = self.iexpr(sc, ed)
                self.bind(sc, x)
                return [("aug", x, rng.choice(["add", "add", "sub", "mul"]), e)]
        if r < 0.52 and d > 0:
            c = self.iexpr(sc, ed)
            snap = set(sc.bound)
            msnap = set(sc.module().bound)
            t = self.block(sc, rng.randrange(1, 3), d - 1, loopd)
            after_t = set(sc.bound)
            sc.bound = set(snap)
            f = self.block(sc, rng.randrange(1, 3), d - 1, loopd) if rng.random() < 0.5 else []
            sc.bound |= after_t
            return [("if", c, t, f)]
        if r < 0.58 and d > 0 and loopd < 2 and sc.kind != "class":
            w = ["w", "w2", "w3"][loopd]
            k = rng.randrange(1, 4)
            snap = set(sc.bound)
            body = self.block(sc, rng.randrange(1, 3), d - 1, loopd + 1)
            sc.bound |= snap
            # the counter increment comes first so that no path skips it
            return [("assign", w, ("int", 0)),
                    ("while", ("cmp", "lt", ("name", w), ("int", k)), [("aug", w, "add", ("int", 1))] + body)]
        if r < 0.74 and sc.depth < 3:
            fd = self.fundef(sc, d)
            if fd:
                return fd
        if r < 0.80:
            ar = rng.choice([0, 1, 1, 2])
            names = sc.targets([n for n, a in FUNS.items() if a == ar])
            if names:
                x = rng.choice(names)
                e = self.fexpr(sc, ar, ed)
                self.bind(sc, x)
                return [("assign", x, e)]
        if r < 0.84 and sc.kind == "fn":
            return [("ret", self.iexpr(sc, ed))]
        if r < 0.88 and sc.kind != "class":
            if sc.kind == "fn":
                cands = [x for x in INTS if (x in sc.deletable and x in sc.bound) or x in sc.glob]
            else:
                cands = [x for x in INTS if x in sc.bound or rng.random() < 0.1]
            if cands:
                x = rng.choice(cands)
                if x in sc.glob:
                    sc.module().bound.discard(x) if rng.random() < 0.3 else None
                else:
                    sc.bound.discard(x)
                self.feat.add("del")
                return [("del", x)]
        if r < 0.92 and self.ext and sc.kind != "class" and sc.depth < 2:
            return self.classdef(sc, d)
        if r < 0.95 and self.ext and len(tg) >= 2:
            self.feat.add("unpack")
            x, y = rng.sample(tg, 2)
            e1, e2 = self.iexpr(sc, ed), self.iexpr(sc, ed)
            self.bind(sc, x); self.bind(sc, y)
            return [("unpack", [x, y], [e1, e2])]
        return [("expr", ("log", self.iexpr(sc, ed)))]

    def bind(self, sc, x):
        if sc.kind == "fn" and x in sc.glob:
            sc.module().bound.add(x)
        elif sc.kind == "fn" and x in sc.nonl:
            pass
        else:
            sc.bound.add(x)

    def fundef(self, sc, d, name=None, maker=None, method=False):
        rng = self.rng
        if name is None:
            mk = sc.targets(sorted(MKS))
            fn = sc.targets(sorted(FUNS))
            if mk and rng.random() < 0.25 and sc.depth < 2:
                name = rng.choice(mk)
                maker = MKS[name]
            elif fn:
                name = rng.choice(fn)
            else:
                return []
        self.nfun += 1
        arity = maker[0] if maker else FUNS[name]
        ps = rng.sample(INTS, arity)
        # the names this function may bind, chosen up front
        loc = set(x for x in INTS if x not in ps and rng.random() < 0.4)
        loc |= set(x for x in list(FUNS) + list(MKS) if rng.random() < 0.3)
        encl = set()
        for s in list(sc.fn_chain()):
            if s.kind == "fn":
                encl |= (s.bound & s.locals_) - s.nonl - s.glob
        decl_g, decl_n = set(), set()
        for x in INTS:
            if x in ps or x in sc.forbid or x in sc.deletable:
                continue
            r = rng.random()
            if r < 0.12:
                decl_g.add(x)
            elif r < 0.40 and x in encl:
                decl_n.add(x)
        loc -= decl_g | decl_n
        inner = Scope("fn", sc, ps, locals_=loc)
        inner.glob, inner.nonl = decl_g, decl_n
        inner.deletable = set(x for x in sorted(loc) if x in INTS and rng.random() < 0.3)
        decls = [("global", x) for x in sorted(decl_g)] + [("nonlocal", x) for x in sorted(decl_n)]
        if decl_g:
            self.feat.add("global")
        if decl_n:
            self.feat.add("nonlocal")
        defaults = None
        if self.ext and arity >= 1 and rng.random() < 0.3:
            self.feat.add("default")
            defaults = [self.iexpr(sc, 1)]
        body = list(decls)
        if maker:
            self.feat.add("maker")
            body += self.block(inner, rng.randrange(0, 3), max(d - 1, 0))
            if body and body[-1][0] == "ret":
                body.pop()
            ra = maker[1]
            inames = [n for n, a in FUNS.items() if a == ra]
            iname = rng.choice(inames)
            if rng.random() < 0.7:
                inner.locals_.add(iname)
                body += self.fundef(inner, max(d - 1, 0), name=iname)
                if rng.random() < 0.4:
                    extra = self.block(inner, 1, 0)
                    if extra[-1][0] != "ret":
                        body += extra
                body.append(("ret", ("name", iname)))
            else:
                body.append(("ret", self.lam(inner, rng.sample(INTS, ra), 2)))
        else:
            body += self.block(inner, rng.randrange(1, 5), max(d - 1, 0))
            if body[-1][0] != "ret" and rng.random() < 0.8:
                body.append(("ret", self.iexpr(inner, 2)))
        self.bind(sc, name)
        if method:
            return [("def", name, ["self"] + ps, body, defaults)]
        return [("def", name, ps, body, defaults)]

    def classdef(self, sc, d):
        rng = self.rng
        self.feat.add("class")
        self.ncls += 1
        cname = "C%d" % self.ncls
        csc = Scope("class", sc)
        body, attrs, meths = [], set(), {}
        for _ in range(rng.randrange(1, 5)):
            r = rng.random()
            tg = csc.targets(INTS)
            if r < 0.45 and tg:
                x = rng.choice(tg)
                body.append(("assign", x, self.iexpr(csc, 2)))
                csc.bound.add(x); attrs.add(x)
            elif r < 0.6 and tg:
                # comprehension in the class body (F15: class-level names must not be visible inside)
                self.feat.add("class_comp")
                x = rng.choice(tg)
                v = rng.choice(INTS)
                inner = Scope("fn", csc, [v], simple=True)
                first = ("range", ("bin", "mod", self.iexpr(csc, 1), ("int", 3)))
                body.append(("assign", x, ("bi", "sum", ("listcomp", self.iexpr(inner, 2), v, first, None))))
                csc.bound.add(x); attrs.add(x)
            elif r < 0.9:
                mn = rng.choice(sorted(FUNS))
                body += self.fundef(csc, max(d - 1, 0), name=mn, method=True)
                meths[mn] = FUNS[mn]
                csc.bound.discard(mn)
            else:
                body.append(("expr", ("log", self.iexpr(csc, 2))))
        self.classes.append((cname, attrs, meths))
        return [("class", cname, body)]

    def program(self):
        rng = self.rng
        msc = Scope("module", None)
        body = []
        for x in rng.sample(INTS, rng.randrange(1, 4)):
            body.append(("assign", x, ("int", rng.randrange(0, 6))))
            msc.bound.add(x)
        for _ in range(rng.randrange(2, 5)):
            if rng.random() < 0.7:
                body += self.fundef(msc, 2)
            else:
                body += self.stmt(msc, 1, 0)
        # entry point
        loc = set(x for x in ["c", "d", "e"] + list(FUNS) if rng.random() < 0.4)
        dg = set(x for x in ["c", "d", "e"] if x not in loc and rng.random() < 0.25)
        inner = Scope("fn", msc, ["a", "b"], locals_=loc)
        inner.glob = dg
        inner.deletable = set(x for x in sorted(loc) if x in INTS and rng.random() < 0.3)
        mb = [("global", x) for x in sorted(dg)] + self.block(inner, rng.randrange(2, 6), 2)
        if mb[-1][0] != "ret":
            mb.append(("ret", self.iexpr(inner, 3)))
        body.append(("def", "main", ["a", "b"], mb, None))
        # every name is assigned somewhere at module level (the compiler rejects never-assigned names);
        # functions called before this point still see them unbound
        for x in INTS:
            if rng.random() < 0.7 or x not in msc.bound:
                body.append(("assign", x, ("int", rng.randrange(0, 6))))
        return body


# ------------------------------------------------------------------------------------------------
# rendering: python source, MiniPy tokens
# ------------------------------------------------------------------------------------------------
def nm(x, k):
    return x if x == "self" else "%s_%d" % (x, k)


def src_e(e, k):
    t = e[0]
    if t == "int":
        return "(%d)" % e[1] if e[1] < 0 else str(e[1])
    if t == "bool":
        return "True" if e[1] else "False"
    if t == "none":
        return "None"
    if t == "name":
        return nm(e[1], k)
    if t == "neg":
        return "(-%s)" % src_e(e[1], k)
    if t == "not":
        return "(not %s)" % src_e(e[1], k)
    if t == "bin":
        return "(%s %s %s)" % (src_e(e[2], k), BINOPS[e[1]], src_e(e[3], k))
    if t == "cmp":
        return "(%s %s %s)" % (src_e(e[2], k), CMPOPS[e[1]], src_e(e[3], k))
    if t == "cond":
        return "(%s if %s else %s)" % (src_e(e[2], k), src_e(e[1], k), src_e(e[3], k))
    if t == "log":
        return "log(%s)" % src_e(e[1], k)
    if t == "lam":
        ps = list(e[1])
        if len(e) > 3 and e[3]:
            dn = len(e[3])
            ps = [nm(p, k) for p in ps[:-dn]] + ["%s=%s" % (nm(p, k), src_e(dv, k)) for p, dv in zip(ps[-dn:], e[3])]
        else:
            ps = [nm(p, k) for p in ps]
        return "(lambda %s: %s)" % (", ".join(ps), src_e(e[2], k))
    if t == "call":
        return "%s(%s)" % (src_e(e[1], k), ", ".join(src_e(a, k) for a in e[2]))
    if t == "listcomp":
        s = "[%s for %s in %s" % (src_e(e[1], k), nm(e[2], k), src_e(e[3], k))
        if e[4] is not None:
            s += " if %s" % src_e(e[4], k)
        return s + "]"
    if t == "range":
        return "range(%s)" % src_e(e[1], k)
    if t == "bi":
        return "%s(%s)" % (e[1], src_e(e[2], k))
    if t == "walrus":
        return "(%s := %s)" % (nm(e[1], k), src_e(e[2], k))
    if t == "attr":
        return "%s_%d.%s" % (e[1], k, nm(e[2], k))
    if t == "mcall":
        return "%s_%d().%s(%s)" % (e[1], k, nm(e[2], k), ", ".join(src_e(a, k) for a in e[3]))
    raise ValueError(t)


def src_b(ss, k, ind):
    out = []
    pad = "    " * ind
    for s in ss:
        t = s[0]
        if t == "expr":
            out.append(pad + src_e(s[1], k))
        elif t == "assign":
            out.append(pad + "%s = %s" % (nm(s[1], k), src_e(s[2], k)))
        elif t == "aug":
            out.append(pad + "%s %s= %s" % (nm(s[1], k), BINOPS[s[2]], src_e(s[3], k)))
        elif t == "if":
            out.append(pad + "if %s:" % src_e(s[1], k))
            out += src_b(s[2] or [("pass",)], k, ind + 1)
            if s[3]:
                out.append(pad + "else:")
                out += src_b(s[3], k, ind + 1)
        elif t == "while":
            out.append(pad + "while %s:" % src_e(s[1], k))
            out += src_b(s[2] or [("pass",)], k, ind + 1)
        elif t == "ret":
            out.append(pad + "return %s" % src_e(s[1], k))
        elif t == "def":
            ps = list(s[2])
            if s[4]:
                dn = len(s[4])
                pt = [nm(p, k) for p in ps[:-dn]] + ["%s=%s" % (nm(p, k), src_e(dv, k)) for p, dv in zip(ps[-dn:], s[4])]
            else:
                pt = [nm(p, k) for p in ps]
            out.append(pad + "def %s(%s):" % (nm(s[1], k), ", ".join(pt)))
            out += src_b(s[3] or [("pass",)], k, ind + 1)
        elif t == "global":
            out.append(pad + "global %s" % nm(s[1], k))
        elif t == "nonlocal":
            out.append(pad + "nonlocal %s" % nm(s[1], k))
        elif t == "del":
            out.append(pad + "del %s" % nm(s[1], k))
        elif t == "pass":
            out.append(pad + "pass")
        elif t == "class":
            out.append(pad + "class %s_%d:" % (s[1], k))
            out += src_b(s[2] or [("pass",)], k, ind + 1)
        elif t == "unpack":
            out.append(pad + "%s = %s" % (", ".join(nm(x, k) for x in s[1]), ", ".join(src_e(e, k) for e in s[2])))
        else:
            raise ValueError(t)
    return out


class NotMini(Exception):
    pass


def tok_e(e):
    t = e[0]
    if t == "int":
        return ["i", str(e[1])]
    if t == "bool":
        return ["T" if e[1] else "F"]
    if t == "none":
        return ["N"]
    if t == "name":
        return ["n", str(ID[e[1]])]
    if t in ("neg", "not", "log"):
        return [t] + tok_e(e[1])
    if t == "bin":
        return ["b", e[1]] + tok_e(e[2]) + tok_e(e[3])
    if t == "cmp":
        return ["c", e[1]] + tok_e(e[2]) + tok_e(e[3])
    if t == "cond":
        return ["if"] + tok_e(e[1]) + tok_e(e[2]) + tok_e(e[3])
    if t == "lam":
        if len(e) > 3 and e[3]:
            raise NotMini()
        return ["lam", str(len(e[1]))] + [str(ID[p]) for p in e[1]] + tok_e(e[2])
    if t == "call":
        out = ["call"] + tok_e(e[1]) + [str(len(e[2]))]
        for a in e[2]:
            out += tok_e(a)
        return out
    raise NotMini()


def tok_b(ss):
    out = [str(len(ss))]
    for s in ss:
        out += tok_s(s)
    return out


def tok_s(s):
    t = s[0]
    if t == "expr":
        return ["ex"] + tok_e(s[1])
    if t == "assign":
        return ["as", str(ID[s[1]])] + tok_e(s[2])
    if t == "aug":
        return ["aug", str(ID[s[1]]), s[2]] + tok_e(s[3])
    if t == "if":
        return ["sif"] + tok_e(s[1]) + tok_b(s[2]) + tok_b(s[3])
    if t == "while":
        return ["wh"] + tok_e(s[1]) + tok_b(s[2])
    if t == "ret":
        return ["ret"] + tok_e(s[1])
    if t == "def":
        if s[4] or "self" in s[2]:
            raise NotMini()
        return ["def", str(ID[s[1]]), str(len(s[2]))] + [str(ID[p]) for p in s[2]] + tok_b(s[3])
    if t == "global":
        return ["glob", str(ID[s[1]])]
    if t == "nonlocal":
        return ["nonl", str(ID[s[1]])]
    if t == "del":
        return ["del", str(ID[s[1]])]
    if t == "pass":
        return ["pass"]
    raise NotMini()


# ------------------------------------------------------------------------------------------------
# static scan used to keep programs inside what the compiler accepts, and for classification
# ------------------------------------------------------------------------------------------------
def walk_exprs(e, f):
    f(e)
    for c in e[1:]:
        if isinstance(c, tuple):
            walk_exprs(c, f)
        elif isinstance(c, list):
            for x in c:
                if isinstance(x, tuple):
                    walk_exprs(x, f)


def names_in(e, bound=frozenset()):
    """names read by an expression, not descending into lambdas' own parameters"""
    out = set()
    t = e[0]
    if t == "name":
        if e[1] not in bound:
            out.add(e[1])
        return out
    if t == "lam":
        b2 = bound | set(e[1])
        out |= names_in(e[2], b2)
        for dv in (e[3] if len(e) > 3 and e[3] else []):
            out |= names_in(dv, bound)
        return out
    if t == "listcomp":
        out |= names_in(e[3], bound)
        b2 = bound | {e[2]}
        out |= names_in(e[1], b2)
        if e[4] is not None:
            out |= names_in(e[4], b2)
        return out
    for c in e[1:]:
        if isinstance(c, tuple):
            out |= names_in(c, bound)
        elif isinstance(c, list):
            for x in c:
                if isinstance(x, tuple):
                    out |= names_in(x, bound)
    return out


def sub_exprs(e):
    yield e
    for c in e[1:]:
        if isinstance(c, tuple):
            yield from sub_exprs(c)
        elif isinstance(c, list):
            for x in c:
                if isinstance(x, tuple):
                    yield from sub_exprs(x)


def stmt_exprs(s):
    """expressions directly inside one statement (not inside nested blocks / defs / classes)"""
    t = s[0]
    if t in ("expr", "ret"):
        return [s[1]]
    if t in ("assign",):
        return [s[2]]
    if t == "aug":
        return [s[3]]
    if t in ("if", "while"):
        return [s[1]]
    if t == "unpack":
        return list(s[2])
    if t == "def":
        return list(s[4] or [])
    return []


def const_false(e):
    t = e[0]
    return (t == "int" and e[1] == 0) or (t == "bool" and not e[1]) or t == "none"


def const_true(e):
    return (e[0] == "int" and e[1] != 0) or (e[0] == "bool" and e[1])


def has_lambda(ss):
    for s in ss:
        for e in stmt_exprs(s):
            if any(x[0] == "lam" for x in sub_exprs(e)):
                return True
        if s[0] in ("if", "while") and (has_lambda(s[2]) or (s[0] == "if" and has_lambda(s[3]))):
            return True
    return False


def prog_features(body):
    """syntactic facts used by classify(): computed from the program text only"""
    feats = set()

    def unreachable_lambda(ss):
        for i, s in enumerate(ss):
            if s[0] == "if" and const_true(s[1]) and s[2] and s[2][-1][0] == "ret" and has_lambda(ss[i + 1:]):
                feats.add("lambda_after_constant_true_return")

    def comp_captures(e):
        # a comprehension whose element holds a lambda that reads the iteration variable
        for x in sub_exprs(e):
            if x[0] == "listcomp":
                for y in sub_exprs(x[1]):
                    if y[0] == "lam" and x[2] in names_in(y, frozenset()):
                        return True
        return False

    # names a call can rebind behind the caller's back (global/nonlocal declared somewhere) or that may be
    # unbound (bound under an if/while)
    volatile = set()

    def vol(ss, guarded):
        for s in ss:
            t = s[0]
            if t in ("global", "nonlocal"):
                volatile.add(s[1])
            if guarded and t in ("assign", "aug", "def"):
                volatile.add(s[1])
            if t in ("if", "while"):
                vol(s[2], True)
                if t == "if":
                    vol(s[3], True)
            elif t == "def":
                vol(s[3], False)
            elif t == "class":
                vol(s[2], guarded)
    vol(body, False)

    def has_call(e):
        return any(x[0] in ("call", "log", "mcall") for x in sub_exprs(e))

    def binds(ss):
        for s in ss:
            if s[0] in ("assign", "aug", "def", "del", "unpack", "class"):
                return True
            if s[0] in ("if", "while") and (binds(s[2]) or (s[0] == "if" and binds(s[3]))):
                return True
            if any(x[0] == "walrus" for e in stmt_exprs(s) for x in sub_exprs(e)):
                return True
        return False

    def expr_feats(e):
        for x in sub_exprs(e):
            if x[0] in ("bin", "cmp") and x[2][0] == "name" and x[2][1] in volatile and has_call(x[3]):
                feats.add("name_operand_before_call")
            if x[0] == "call":
                ops_ = [x[1]] + list(x[2])
                for i, o in enumerate(ops_):
                    if o[0] == "name" and o[1] in volatile and any(has_call(q) for q in ops_[i + 1:]):
                        feats.add("name_operand_before_call")
            if x[0] == "cond":
                kinds = [(b[0] in ("not", "cmp", "bool")) for b in (x[2], x[3])]
                if kinds[0] != kinds[1]:
                    feats.add("cond_expr_bool_and_int_branches")

    def literal_only_locals(fbody, params):
        rhs = {}

        def coll(b):
            for q in b:
                if q[0] == "assign":
                    rhs.setdefault(q[1], []).append(q[2][0] in ("int", "bool"))
                elif q[0] in ("aug", "def", "class"):
                    rhs.setdefault(q[1], []).append(False)
                elif q[0] == "unpack":
                    for x in q[1]:
                        rhs.setdefault(x, []).append(False)
                elif q[0] == "if":
                    coll(q[2]); coll(q[3])
                elif q[0] == "while":
                    coll(q[2])
                for e in stmt_exprs(q):
                    for x in sub_exprs(e):
                        if x[0] == "walrus":
                            rhs.setdefault(x[1], []).append(False)
        coll(fbody)
        decl = set(q[1] for q in fbody if q[0] in ("global", "nonlocal"))
        return [x for x, v in rhs.items() if all(v) and x not in params and x not in decl]

    def st(ss, where, globs):
        unreachable_lambda(ss)
        for s in ss:
            t = s[0]
            if t == "def" and literal_only_locals(s[3], set(s[2])):
                feats.add("int_literal_only_local")
            if t == "aug" and s[1] in volatile and has_call(s[3]):
                feats.add("name_operand_before_call")
            if t == "if" and s[1][0] in ("int", "bool", "none"):
                dead = s[3] if const_true(s[1]) else s[2]
                if binds(dead):
                    feats.add("constant_guard_dead_binding")
            if t == "while" and const_false(s[1]) and binds(s[2]):
                feats.add("constant_guard_dead_binding")
            for e in stmt_exprs(s):
                expr_feats(e)
                if comp_captures(e):
                    feats.add("comp_capture")
                for x in sub_exprs(e):
                    if x[0] == "listcomp":
                        feats.add("listcomp")
            if t == "del":
                feats.add("del")
                if where == "module" or s[1] in globs:
                    feats.add("del_global")
            if t in ("if", "while"):
                if const_false(s[1]):
                    feats.add("const_false_guard")
                st(s[2], where, globs)
                if t == "if":
                    st(s[3], where, globs)
            elif t == "class":
                feats.add("class")
                assigned = set()

                def coll(b):
                    for q in b:
                        if q[0] in ("assign", "aug"):
                            assigned.add(q[1])
                        elif q[0] == "unpack":
                            assigned.update(q[1])
                        elif q[0] == "def":
                            assigned.add(q[1])
                        elif q[0] == "if":
                            coll(q[2]); coll(q[3])
                        elif q[0] == "while":
                            coll(q[2])
                coll(s[2])

                def scan(b):
                    for q in b:
                        for e in stmt_exprs(q):
                            for x in sub_exprs(e):
                                if x[0] == "listcomp":
                                    inner = names_in(x[1], frozenset([x[2]]))
                                    if x[4] is not None:
                                        inner |= names_in(x[4], frozenset([x[2]]))
                                    if inner & assigned:
                                        feats.add("class_comp_reads_class_name")
                                    for y in sub_exprs(x):
                                        if y[0] == "lam" and names_in(y, frozenset()) & assigned:
                                            feats.add("class_comp_lambda_reads_class_name")
                        if q[0] == "if":
                            scan(q[2]); scan(q[3])
                scan(s[2])
                st(s[2], "class", set())
            elif t == "def":
                g = set(q[1] for q in s[3] if q[0] == "global")
                st(s[3], "fn", g)
    st(body, "module", set())
    return feats


# ------------------------------------------------------------------------------------------------
# drivers run in subprocesses
# ------------------------------------------------------------------------------------------------
PRELUDE = '''# cython: language_level=3
EVENTS = []
IMPORT_EXC = {}
def log(v):
    EVENTS.append(v)
    return v
def mark(k):
    EVENTS.append(("mark", k))
'''

RUNNER = r'''
import sys, json, signal, types, os
sys.setrecursionlimit(400)
spec = json.load(sys.stdin)

class TO(Exception):
    pass
def _al(s, f):
    raise TO()
signal.signal(signal.SIGALRM, _al)

def canon(v, depth=0):
    if isinstance(v, (list, tuple)) and depth < 6:
        return [type(v).__name__] + [canon(x, depth + 1) for x in v]
    if type(v) in (int, bool, type(None), str, float):
        return type(v).__name__ + ":" + repr(v)
    if callable(v):
        return "fn"
    return "obj:" + type(v).__name__

out = {}
for mod in spec["modules"]:
    res = {"import": None, "marks": {}, "calls": {}}
    try:
        if mod.get("source_path"):
            m = types.ModuleType(mod["name"])
            m.__dict__["__builtins__"] = __builtins__
            src = open(mod["source_path"]).read()
            signal.alarm(20)
            exec(compile(src, mod["source_path"], "exec"), m.__dict__)
            signal.alarm(0)
        else:
            signal.alarm(20)
            m = __import__(mod["name"])
            signal.alarm(0)
    except BaseException as e:
        signal.alarm(0)
        res["import"] = type(e).__name__ + ": " + str(e)[:300]
        out[mod["name"]] = res
        continue
    ev = list(m.EVENTS)
    del m.EVENTS[:]
    cur = None
    for x in ev:
        if isinstance(x, tuple) and len(x) == 2 and x[0] == "mark":
            cur = str(x[1]); res["marks"][cur] = []
        elif cur is not None:
            res["marks"][cur].append(canon(x))
    res["import_exc"] = {str(k): v for k, v in m.IMPORT_EXC.items()}
    for k, arglist in mod["plan"]:
        rs = []
        f = getattr(m, "main_%d" % k, None)
        for args in arglist:
            if str(k) in res["import_exc"] or f is None:
                rs.append({"skip": 1}); continue
            try:
                signal.alarm(3)
                r = f(*args)
                signal.alarm(0)
                d = {"r": canon(r)}
            except TO:
                d = {"e": "TIMEOUT"}
            except RecursionError:
                signal.alarm(0)
                d = {"e": "RecursionError"}
            except BaseException as e:
                signal.alarm(0)
                d = {"e": type(e).__name__, "m": str(e)[:200]}
            d["ev"] = [canon(x) for x in m.EVENTS]
            del m.EVENTS[:]
            rs.append(d)
            sys.stdout.write(json.dumps({"progress": [mod["name"], k, len(rs)]}) + "\n"); sys.stdout.flush()
        res["calls"][str(k)] = rs
    out[mod["name"]] = res
print(json.dumps(out))
'''

PRECHECK = r'''
import sys, os, json, io
import pyload
pyload.install()
from Cython.Compiler import Main, Options, Errors
pyload.assert_sources()
spec = json.load(sys.stdin)
res = []
for path in spec["files"]:
    directives = dict(Options.get_directive_defaults()); directives["language_level"] = 3
    opts = Main.CompilationOptions(Main.default_options, compiler_directives=directives, output_file=path[:-3] + ".c")
    err = io.StringIO(); old = sys.stderr
    ok = False; crash = None
    try:
        sys.stderr = err
        try:
            r = Main.compile(path, opts)
            ok = r.num_errors == 0
        finally:
            sys.stderr = old
    except BaseException as e:
        crash = type(e).__name__ + ": " + str(e)[:300]
    res.append({"ok": ok, "crash": crash, "err": err.getvalue()[-600:]})
print(json.dumps(res))
'''


# ------------------------------------------------------------------------------------------------
# directed programs: one per mechanism of the closure scheme, part of every run (both tiers)
# ------------------------------------------------------------------------------------------------
def _N(x): return ("name", x)
def _I(n): return ("int", n)
def _C(f, *a): return ("call", _N(f) if isinstance(f, str) else f, list(a))
def _B(op, a, b): return ("bin", op, a, b)
def _Q(op, a, b): return ("cmp", op, a, b)
def _D(f, ps, body, defaults=None): return ("def", f, ps, body, defaults)
def _MAIN(*body): return _D("main", ["a", "b"], list(body))
_EPI = [("assign", x, ("int", i + 1)) for i, x in enumerate(INTS)]


def directed_programs():
    P = []
    # unbound free variable read through the closure pointer: NameError
    P.append(("free_unbound", False, [
        _D("f", ["a"], [_D("g", [], [("ret", _N("c"))]), ("assign", "d", _I(0)),
                        ("if", _Q("gt", _N("a"), _I(0)), [("assign", "c", _N("a"))], []),
                        ("assign", "d", _C("g")), ("ret", _N("d"))]),
        _MAIN(("ret", _C("f", _N("a"))))]))
    # unbound own captured variable: UnboundLocalError
    P.append(("cell_unbound", False, [
        _D("f", ["a"], [_D("g", [], [("ret", _N("c"))]),
                        ("if", _Q("gt", _N("a"), _I(0)), [("assign", "c", _N("a"))], []),
                        ("ret", _B("add", _N("c"), _C("g")))]),
        _MAIN(("ret", _C("f", _N("a"))))]))
    # 'global' in an intermediate function cuts the chain to the outer function's variable
    P.append(("global_intermediate", False, [
        ("assign", "c", _I(5)),
        _D("f", ["a"], [("assign", "c", _B("add", _N("a"), _I(100))),
                        _D("h", ["a", "b"], [("global", "c"), _D("g", [], [("ret", _N("c"))]),
                                             ("assign", "c", _B("add", _N("c"), _N("b"))), ("ret", _C("g"))]),
                        ("ret", _B("add", _B("mul", _C("h", _N("a"), _I(1)), _I(1000)), _N("c")))]),
        _MAIN(("ret", _B("add", _B("mul", _C("f", _N("a")), _I(10)), _N("c"))))]))
    # three levels, the middle one is a pass-through (no captured variable of its own)
    P.append(("passthrough_counter", False, [
        _D("m", ["c"], [_D("g", [], [_D("k", ["e"], [("nonlocal", "c"), ("aug", "c", "add", _N("e")), ("ret", _N("c"))]),
                                     ("ret", _B("add", _C("k", _I(1)), _B("mul", _C("k", _I(2)), _I(10))))]),
                        ("ret", _N("g"))]),
        _MAIN(("assign", "g", _C("m", _N("a"))), ("expr", ("log", _C("g"))),
              ("ret", _B("add", _C("g"), _C(_C("m", _N("b"))))))]))
    # own scope object + outer_scope hop: middle function captures too
    P.append(("two_hops", False, [
        _D("m", ["c"], [_D("g", [], [("assign", "d", _B("mul", _N("c"), _I(2))),
                                     _D("k", ["e"], [("nonlocal", "c"), ("nonlocal", "d"), ("aug", "c", "add", _N("e")),
                                                     ("aug", "d", "add", _N("c")), ("ret", _B("add", _N("c"), _N("d")))]),
                                     ("ret", _B("add", _C("k", _I(1)), _C("k", _N("d"))))]),
                        ("ret", _N("g"))]),
        _MAIN(("assign", "g", _C("m", _N("a"))), ("ret", _B("sub", _C("g"), _C("g"))))]))
    # shadowing: lambda parameter hides the captured name, late binding of the other one
    P.append(("shadow_lambda", False, [
        _D("f", ["a"], [("assign", "b", _B("mul", _N("a"), _I(2))),
                        ("assign", "k", ("lam", ["a"], _B("add", _N("a"), _N("b")))),
                        ("aug", "b", "add", _I(1)), ("ret", _C("k", _I(10)))]),
        _MAIN(("ret", _B("add", _C("f", _N("a")), _N("b"))))]))
    # recursion through a closure variable
    P.append(("recursive_closure", False, [
        _D("f", ["a"], [_D("k", ["e"], [("if", _Q("le", _N("e"), _I(0)), [("ret", _N("a"))], []),
                                        ("ret", _B("add", _C("k", _B("sub", _N("e"), _I(1))), _N("e")))]),
                        ("ret", _C("k", _N("a")))]),
        _MAIN(("ret", _C("f", _N("a"))))]))
    # two closures share one variable
    P.append(("shared_cell", False, [
        _D("h", ["a", "b"], [_D("g", [], [("ret", _N("a"))]),
                             _D("k", ["e"], [("nonlocal", "a"), ("assign", "a", _B("add", _N("a"), _N("e"))), ("ret", _N("a"))]),
                             ("assign", "c", _C("g")), ("assign", "d", _C("k", _N("b"))),
                             ("ret", _B("add", _B("add", _B("mul", _N("c"), _I(100)), _B("mul", _C("g"), _I(10))), _N("d")))]),
        _MAIN(("ret", _C("h", _N("a"), _N("b"))))]))
    # closures made in a loop see the final value; del of a local then read
    P.append(("loop_late_binding_del", False, [
        _D("f", ["a"], [("assign", "w", _I(0)), ("assign", "k", ("lam", ["e"], _N("e"))),
                        ("while", _Q("lt", _N("w"), _I(3)), [("aug", "w", "add", _I(1)),
                                                             ("assign", "k", ("lam", ["e"], _B("add", _N("e"), _N("w"))))]),
                        ("assign", "c", _N("a")),
                        ("if", _Q("gt", _N("a"), _I(2)), [("del", "c")], []),
                        ("ret", _B("add", _C("k", _N("a")), _N("c")))]),
        _MAIN(("ret", _C("f", _N("a"))))]))
    # evaluation order observed through a counter closure; del + read of a global
    P.append(("order_and_global_del", False, [
        _D("f", ["a"], [("assign", "c", _I(0)),
                        _D("g", [], [("nonlocal", "c"), ("aug", "c", "add", _I(1)), ("ret", ("log", _N("c")))]),
                        ("ret", _B("sub", _C("g"), _B("mul", _C("g"), _C("g"))))]),
        _D("k", ["e"], [("global", "d"), ("assign", "d", _N("e")), ("if", _Q("gt", _N("e"), _I(1)), [("del", "d")], []),
                        ("ret", _N("d"))]),
        _MAIN(("ret", _B("add", _C("f", _N("a")), _C("k", _N("a")))))]))
    # ---- extended (CPython vs compiled only)
    P.append(("method_vs_class_attr", True, [
        ("assign", "c", _I(1)),
        ("class", "C1", [("assign", "c", _I(2)), _D("f", ["self", "a"], [("ret", _B("add", _N("c"), _N("a")))]),
                         ("assign", "d", _B("add", _N("c"), _I(10)))]),
        _MAIN(("ret", _B("add", _B("mul", ("mcall", "C1", "f", [_N("a")]), _I(100)), ("attr", "C1", "d"))))]))
    P.append(("class_in_function", True, [
        _D("f", ["a"], [("assign", "c", _N("a")),
                        ("class", "C1", [("assign", "d", _B("add", _N("c"), _I(1))), ("assign", "c", _I(50)),
                                         _D("k", ["self", "e"], [("ret", _B("add", _N("c"), _N("e")))])]),
                        ("ret", _B("add", _B("mul", ("mcall", "C1", "k", [_I(1)]), _I(1000)),
                                   _B("add", ("attr", "C1", "d"), ("attr", "C1", "c"))))]),
        _MAIN(("ret", _C("f", _N("a"))))]))
    P.append(("class_comprehension", True, [
        ("assign", "c", _I(1)),
        ("class", "C1", [("assign", "c", _I(2)),
                         ("assign", "d", ("bi", "sum", ("listcomp", _N("c"), "e", ("range", _N("c")), None)))]),
        _MAIN(("ret", ("attr", "C1", "d")))]))
    P.append(("default_capture_in_loop", True, [
        _D("f", ["a"], [("assign", "w", _I(0)), ("assign", "k", ("lam", ["e"], _N("e"))),
                        ("while", _Q("lt", _N("w"), _I(3)), [("aug", "w", "add", _I(1)),
                            ("if", _Q("eq", _N("w"), _I(2)), [("assign", "k", ("lam", ["e"], _B("add", _B("mul", _N("e"), _I(10)), _N("w")), [_N("w")]))], [])]),
                        ("ret", _C("k"))]),
        _D("h", ["a", "b"], [("ret", _B("sub", _N("a"), _N("b")))], [_B("add", _N("c"), _I(1))]),
        _MAIN(("ret", _B("add", _C("f", _N("a")), _C("h", _N("a")))))]))
    P.append(("comprehension_scope", True, [
        _D("f", ["a"], [("assign", "c", _I(7)),
                        ("assign", "d", ("bi", "len", ("listcomp", _N("c"), "c", ("range", _B("mod", _N("a"), _I(4))), None))),
                        ("assign", "e", ("bi", "sum", ("listcomp", ("walrus", "b", _B("add", _N("c"), _N("e"))), "e", ("range", _I(3)), None))),
                        ("ret", _B("add", _B("mul", _N("c"), _I(1000)), _B("add", _B("mul", _N("d"), _I(100)), _B("add", _N("e"), _N("b")))))]),
        _MAIN(("ret", _C("f", _N("a"))))]))
    return [(nm_, ext, body + _EPI) for nm_, ext, body in P]


def program_source(body, k):
    """one program = its module-level statements inside try/except (an exception while importing must
    not take the other programs of the module down)"""
    L = ["mark(%d)" % k, "try:"]
    L += src_b(body, k, 1)
    L += ["except BaseException as _e_%d:" % k, "    IMPORT_EXC[%d] = type(_e_%d).__name__" % (k, k), ""]
    return "\n".join(L)


def gen_programs(ctx, n_core, n_ext):
    progs = []
    nargs = 4 if ctx.tier == "quick" else 6

    def add(body, ext, feat, tag):
        k = len(progs)
        args = [[ctx.rng.randrange(-2, 6), ctx.rng.randrange(0, 4)] for _ in range(nargs)]
        toks = None
        if not ext:
            try:
                toks = tok_b(body)
            except NotMini:
                toks = None
        progs.append({"k": k, "ext": ext, "body": body, "src": program_source(body, k), "args": args,
                      "toks": toks, "feat": sorted(set(feat) | prog_features(body)), "tag": tag})

    for tag, ext, body in directed_programs():
        add(body, ext, [], "directed:" + tag)
        progs[-1]["args"] = [[a, (a * 7 + 1) % 4] for a in (-1, 0, 1, 2, 3, 5)][:max(nargs, 6)]
    for i in range(n_core + n_ext):
        ext = i >= n_core
        for attempt in range(20):
            g = Gen(ctx.rng, ext)
            body = g.program()
            if g.nfun >= 2:
                break
        add(body, ext, g.feat, "random")
    return progs


def classify(prog, call_index, exp, got):
    """finding classes: syntactic features of the *program* select the candidate class; the observed pair is
    only used to require the class's characteristic symptom (otherwise: wrong_behaviour)"""
    feats = set(prog["feat"])
    e_exp, e_got = exp.get("e"), got.get("e")
    if e_got == "CRASH":
        return "crash"
    if "del_global" in feats and e_exp == "NameError" and e_got == "AttributeError":
        return "del_unbound_global_attributeerror"
    r_exp, r_got = exp.get("r"), got.get("r")
    if ("cond_expr_bool_and_int_branches" in feats and isinstance(r_exp, str) and isinstance(r_got, str)
            and {r_exp.split(":")[0], r_got.split(":")[0]} == {"bool", "int"}
            and r_exp.split(":")[1].replace("True", "1").replace("False", "0") ==
                r_got.split(":")[1].replace("True", "1").replace("False", "0")):
        return "cond_expr_bool_and_int_branches_lose_bool_type"
    if "class_comp_reads_class_name" in feats:
        return "class_scope_comprehension_name"
    if "int_literal_only_local" in feats and e_exp in ("UnboundLocalError", "NameError") and "r" in got:
        return "int_literal_local_never_unbound_checked"
    if "constant_guard_dead_binding" in feats:
        return "constant_guard_removes_binding"
    if "comp_capture" in feats:
        return "comprehension_variable_one_slot_per_activation"
    if "name_operand_before_call" in feats:
        return "name_operand_evaluated_after_later_operands"
    return "wrong_behaviour"


def classify_crash(prog):
    if "lambda_after_constant_true_return" in prog["feat"]:
        return "compiler_crash_lambda_after_constant_true_return"
    if "class_comp_lambda_reads_class_name" in prog["feat"]:
        return "compiler_crash_lambda_in_class_comprehension"
    return "compiler_crash"


def same(a, b):
    if "skip" in a or "skip" in b:
        return ("skip" in a) == ("skip" in b)
    return a.get("r") == b.get("r") and a.get("e") == b.get("e") and a.get("ev") == b.get("ev")


def model_val(s):
    if s == "fn":
        return "fn"
    if s == "T":
        return "bool:True"
    if s == "F":
        return "bool:False"
    if s == "N":
        return "NoneType:None"
    return "int:" + s[1:]


def parse_model(line):
    w = line.split()
    if w[0] in ("FUEL", "STUCK") or w[0].startswith("!"):
        return {"special": line}
    tr = [] if w[2] == "-" else [model_val(x) for x in w[2].split(",")]
    if w[0] == "D":
        return {"r": model_val(w[1]), "trace": tr}
    return {"e": w[1], "trace": tr}


def run_plan(ctx, modules, tag, compiled):
    spec = {"modules": modules}
    r = cybuild.run_script(RUNNER, ctx.workdir, spec, timeout=1500, name="runner_%s.py" % tag)
    return r


def run(ctx):
    quick = ctx.tier == "quick"
    n_core, n_ext = (20, 14) if quick else (420, 260)
    per_mod = 12 if quick else 32
    T = {}
    t0 = time.time()
    progs = gen_programs(ctx, n_core, n_ext)
    wd = ctx.workdir
    import props.C01_unpack as U
    import props.C01_boundary as B
    umods, ufuncs, ucases = U.prepare(ctx)
    bplan = B.prepare(ctx)
    T["gen"] = round(time.time() - t0, 1); t0 = time.time()
    ctx.extra["phase_s"] = T
    # ---- 1. which programs does the compiler accept (front end only, one warmed process)
    files = []
    for p in progs:
        path = os.path.join(wd, "pre_%d.py" % p["k"])
        with open(path, "w") as f:
            f.write(PRELUDE + p["src"])
        files.append(path)
    import concurrent.futures as cf
    nchunk = 4 if quick else 8
    chunks = [files[i::nchunk] for i in range(nchunk)]
    with cf.ThreadPoolExecutor(max_workers=nchunk) as ex:
        prs = list(ex.map(lambda ic: cybuild.run_script(
            PRECHECK, wd, {"files": ic[1]}, timeout=2400, name="precheck_%d.py" % ic[0],
            pypath=os.path.dirname(os.path.abspath(cybuild.__file__))), enumerate(chunks)))
    pre = [None] * len(files)
    for i, (pr, ch) in enumerate(zip(prs, chunks)):
        if not pr["json"] or len(pr["json"]) != len(ch):
            ctx.corr_break("precheck", "all programs", (pr["err"] or pr["out"])[-1500:], "front end runs")
            return
        for j, r in enumerate(pr["json"]):
            pre[i + j * nchunk] = r
    pr = {"json": pre}
    T["precheck"] = round(time.time() - t0, 1); t0 = time.time()
    rejected = {}
    for p, r in zip(progs, pr["json"]):
        p["accepted"] = r["ok"]
        if r["crash"]:
            ctx.fail(classify_crash(p), {"source": PRELUDE + p["src"], "k": p["k"], "args": []}, r["crash"],
                     "compiles or reports an error")
        if not r["ok"]:
            m = [re.sub(r"^.*?:\d+:\d+: ", "", l) for l in r["err"].splitlines()
                 if re.match(r"^(?!warning).*?:\d+:\d+: ", l)]
            key = re.sub(r"'[^']*'", "'_'", m[0]) if m else "?"
            rejected[key] = rejected.get(key, 0) + 1
    ctx.extra["rejected_by_compiler"] = rejected
    acc = [p for p in progs if p["accepted"]]
    if len(acc) < len(progs) * 0.6:
        ctx.corr_break("generator", "acceptance rate", "%d/%d accepted: %s" % (len(acc), len(progs), rejected),
                       "most generated programs compile")
    # ---- 2. oracle: CPython exec of the same module sources
    mods = []
    for i in range(0, len(acc), per_mod):
        chunk = acc[i:i + per_mod]
        name = "c01m_%d" % (i // per_mod)
        src = PRELUDE + "\n".join(p["src"] for p in chunk)
        mods.append({"name": name, "progs": chunk, "source": src})
        with open(os.path.join(wd, name + "_src.py"), "w") as f:
            f.write(src)
    oplan = [{"name": m["name"], "source_path": os.path.join(wd, m["name"] + "_src.py"),
              "plan": [[p["k"], p["args"]] for p in m["progs"]]} for m in mods]
    orc = run_plan(ctx, oplan, "oracle", False)
    if not orc["json"]:
        ctx.corr_break("oracle", "cpython exec", (orc["err"] or orc["out"])[-1500:], "oracle runs")
        return
    T["oracle"] = round(time.time() - t0, 1); t0 = time.time()
    # a program whose module-level code hits CPython's recursion limit (or the alarm) would overflow the C
    # stack when compiled: not comparable, left out of the compiled modules
    ndrop = 0
    for m in mods:
        o = orc["json"].get(m["name"], {})
        bad = set(k for k, v in (o.get("import_exc") or {}).items() if v in ("RecursionError", "TO"))
        if bad:
            ndrop += len(bad)
            m["progs"] = [p for p in m["progs"] if str(p["k"]) not in bad]
            m["source"] = PRELUDE + "\n".join(p["src"] for p in m["progs"])
    ctx.extra["dropped_unbounded_recursion"] = ndrop
    # ---- 3. compiled
    specs = [dict(name=m["name"], source=m["source"], workdir=wd, suffix=".py",
                  cflags=["-O0"]) for m in mods]
    nprog = len(specs)
    specs = specs + U.build_specs(umods, wd) + [B.build_spec(ctx)]
    built = cybuild.build_many(specs, jobs=6 if quick else 8)
    built_u, built_b = built[nprog:-1], built[-1]
    built = built[:nprog]
    T["build"] = round(time.time() - t0, 1); t0 = time.time()
    # ---- 3b. unpacking (3-way with the extracted unpack models) and boundary-sized inputs (2-way)
    U.compare(ctx, umods, built_u, ufuncs, ucases, FX_TUPLE2)
    B.compare(ctx, bplan, built_b)
    T["unpack_boundary"] = round(time.time() - t0, 1); t0 = time.time()
    cplan = []
    for m, (so, err) in zip(mods, built):
        if err is not None:
            ctx.corr_break("build " + m["name"], m["name"], str(err)[-1500:], "module builds (programs passed the front end)")
            continue
        # calls whose oracle outcome is a timeout / recursion limit are not comparable: cut the plan there
        o = orc["json"][m["name"]]
        plan = []
        for p in m["progs"]:
            oc = o["calls"].get(str(p["k"]), [])
            n = 0
            for c in oc:
                if c.get("e") in ("TIMEOUT", "RecursionError"):
                    break
                n += 1
            p["ncalls"] = n
            plan.append([p["k"], p["args"][:n]])
        cplan.append({"name": m["name"], "plan": plan})
    com = {}
    for cp in cplan:            # one process per module: a crash only loses that module
        r = run_plan(ctx, [cp], "compiled_" + cp["name"], True)
        if r["json"]:
            com.update(r["json"])
        else:
            last = None
            for line in r["out"].splitlines():
                try:
                    d = json.loads(line)
                    if "progress" in d:
                        last = d["progress"]
                except Exception:
                    pass
            com[cp["name"]] = {"crash": "rc=%s after %s %s" % (r["rc"], last, r["err"][-300:])}
    T["run_compiled"] = round(time.time() - t0, 1); t0 = time.time()
    # ---- 4. models
    model = ctx.model("closure")
    mq, mref = [], []
    for m in mods:
        for p in m["progs"]:
            if p["toks"] is None:
                continue
            base = list(p["toks"])
            nst = int(base[0])
            # import-time run, then one query per call prefix
            calls = [["call", "n", str(ID["main"]), "2", "i", str(a), "i", str(b)] for a, b in p["args"][:p.get("ncalls", 0)]]
            for j in range(-1, len(calls)):
                pre = calls[:max(j, 0)]
                toks = [str(nst + len(pre))] + base[1:]
                for c in pre:
                    toks += ["ex"] + c
                toks += (calls[j] if j >= 0 else ["N"])
                t = " ".join(toks)
                mq.append("cells %d %s" % (FUEL, t)); mref.append((p, j, "cells"))
                mq.append("scopes %s %d %s" % (DELGLOB_FIXED, FUEL, t)); mref.append((p, j, "scopes"))
    mres = model.batch(mq)
    mod_out = {}
    for (p, j, which), line in zip(mref, mres):
        mod_out[(p["k"], j, which)] = parse_model(line)
    T["models"] = round(time.time() - t0, 1); t0 = time.time()
    # ---- 5. compare
    n_model_cases = 0
    for m in mods:
        o = orc["json"][m["name"]]
        c = com.get(m["name"])
        if c is None:
            continue
        if "crash" in c or c.get("import"):
            ctx.fail("crash", {"module": m["name"], "source_file": m["name"] + ".py"}, c, "module imports and runs")
            continue
        if o.get("import"):
            ctx.corr_break("oracle import", m["name"], o["import"], "imports")
            continue
        for p in m["progs"]:
            k = str(p["k"])
            inp0 = {"source": PRELUDE + p["src"], "k": p["k"], "args": p["args"]}
            # import time
            oi = {"e": o["import_exc"].get(k), "ev": o["marks"].get(k, [])}
            ci = {"e": c["import_exc"].get(k), "ev": c["marks"].get(k, [])}
            stratum = ("ext" if p["ext"] else "core") + "/import"
            ctx.case(stratum, {"k": p["k"]}, sig=(p["src"], -1))
            if oi != ci:
                ctx.fail(classify(p, -1, oi, ci), dict(inp0, call=-1), ci, oi)
            alive = True
            if p["toks"] is not None:
                alive = check_model(ctx, p, -1, ci, oi, mod_out, inp0, cumulative=[], impl_ok=(oi == ci))
            cum = list(ci["ev"])
            oc, cc = o["calls"].get(k, []), c["calls"].get(k, [])
            for j in range(p.get("ncalls", 0)):
                if j >= len(cc) or j >= len(oc):
                    break
                ctx.case(("ext" if p["ext"] else "core") + "/" + ("exc" if "e" in oc[j] else "value"),
                         {"k": p["k"], "args": p["args"][j]}, sig=(p["src"], j))
                if not same(oc[j], cc[j]):
                    ctx.fail(classify(p, j, oc[j], cc[j]), dict(inp0, call=j), cc[j], oc[j])
                if "e" in oc[j] and "e" in cc[j] and oc[j]["e"] == cc[j]["e"] and oc[j].get("m") != cc[j].get("m"):
                    ctx.extra["exception_message_differs"] = ctx.extra.get("exception_message_differs", 0) + 1
                if p["toks"] is not None and alive and "skip" not in cc[j]:
                    n_model_cases += 1
                    alive = check_model(ctx, p, j, cc[j], oc[j], mod_out, inp0, cumulative=cum,
                                        impl_ok=same(oc[j], cc[j]))
                    cum += cc[j].get("ev", [])
    ctx.extra["model_cases"] = n_model_cases
    ctx.extra["programs"] = len(progs)
    ctx.extra["program_counts"] = {"generated": len(progs), "accepted": len(acc),
                                   "minipy": sum(1 for p in acc if p["toks"] is not None)}


def check_model(ctx, p, j, ci, oi, mod_out, inp0, cumulative, impl_ok=True):
    """tie: extracted run_scopes vs compiled module, extracted run_cells vs CPython.
    returns False when the run ended (exception) so that later prefixes are not compared"""
    ms = mod_out.get((p["k"], j, "scopes"))
    mc = mod_out.get((p["k"], j, "cells"))
    if ms is None or mc is None:
        return False
    if "special" in ms or "special" in mc:
        if ms != mc or "STUCK" in ms.get("special", "") or ms.get("special", "").startswith("!"):
            ctx.corr_break("model special outcome", dict(inp0, call=j), ms, mc)
        ctx.strata["model/" + ms.get("special", "?").split()[0]] = ctx.strata.get("model/" + ms.get("special", "?").split()[0], 0) + 1
        return False

    def obs(x):
        if j < 0:
            return {"e": x.get("e"), "trace": list(x.get("ev", []))}
        d = {"trace": cumulative + list(x.get("ev", []))}
        if "e" in x:
            d["e"] = x["e"]
        else:
            d["r"] = x["r"]
        return d
    impl, orc = obs(ci), obs(oi)
    if j < 0:
        # the model program for the import run returns None: compare exception + trace only
        ms2 = {"e": ms.get("e"), "trace": ms["trace"]}
        mc2 = {"e": mc.get("e"), "trace": mc["trace"]}
    else:
        ms2, mc2 = ms, mc
    if mc2 != orc:
        ctx.corr_break("run_cells vs cpython", dict(inp0, call=j), orc, mc2)
    if not impl_ok:
        # the compiled module already deviates from CPython here (reported through ctx.fail with its class);
        # the model of the closure scheme is not expected to reproduce an unmodelled defect, and the states
        # have diverged: stop comparing this program
        return ms2 == impl and not ms.get("e")
    if ms2 != impl:
        ctx.corr_break("run_scopes vs compiled", dict(inp0, call=j), impl, ms2)
    return not ms.get("e") and not impl.get("e")


def replay(ctx, obj):
    inp = obj["input"]
    wd = ctx.workdir
    if "function" in inp:
        print(json.dumps(obj, indent=1)[:6000])
        print("(an unpacking / boundary case: the function source and the input value above reproduce it; "
              "props/C01_unpack.py WORKER builds the value from its description)")
        return
    src = inp["source"]
    name = "c01_replay"
    with open(os.path.join(wd, name + "_src.py"), "w") as f:
        f.write(src)
    k = inp.get("k", 0)
    plan = [[k, inp.get("args", [])]]
    o = cybuild.run_script(RUNNER, wd, {"modules": [{"name": name, "source_path": os.path.join(wd, name + "_src.py"), "plan": plan}]}, name="r_o.py")
    cybuild.build(name, src, wd, suffix=".py")
    c = cybuild.run_script(RUNNER, wd, {"modules": [{"name": name, "plan": plan}]}, name="r_c.py")
    print("source:\n" + src)
    print("cpython :", json.dumps((o["json"] or {}).get(name)))
    print("compiled:", json.dumps((c["json"] or {}).get(name)) if c["json"] else c["err"][-500:])
