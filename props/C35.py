"""C35 - Reference counts stay balanced on every path, including errors (DESIGN 7/C35)."""
import json, os, re, zlib
import cybuild

TITLE = "Reference counts stay balanced on every path, including errors"
EXTRACTS = ["Refs"]
RULE = ("generated function bodies over fault-injecting operand objects (calls, attribute/subscript get/set, "
        "arithmetic, tuple/list/dict/set displays, unpacking, comprehensions, conditional/boolean expressions, "
        "if/for/while with break/continue, try/except/finally, with: 1-2 managers, name/tuple/attribute targets, "
        "every exit kind, nested / in loops / under try; the runtime's __exit__, __contains__, comparisons, "
        "__enter__, __iter__/__next__ return fault-injecting objects so that truth tests, conversions and "
        "unpacking of RETURNED objects are fault points too); each program is run fault-free and once "
        "per k with the k-th dunder/iterator/conversion call raising, in three builds (CPython exec, compiled, "
        "compiled with CYTHON_REFNANNY=1 against a refnanny rebuilt from refnanny.pyx); a case = (program, k); "
        "distinct by (program text, k); non-trivial = at least one owned temporary or local is live at the "
        "fault (all k >= 1 cases) or the fault-free run acquires at least one reference")
EXPLANATION = ("theorems: for every statement/expression tree of the modelled fragment (strict operations, "
               "tuple/list displays, calls, local assignment, attribute/item stores, if, for-in loops with "
               "break/continue/return, return) and EVERY fault oracle (any subset of the fallible operations "
               "fails, which includes 'the k-th call raises' for all k and the fault-free run) the code produced "
               "by gen never over-releases, never passes NULL, never uses an object it does not hold, keeps "
               "ledger = live temps + owned locals + result at every step and ends with an empty ledger "
               "(result reference given to the caller); the ledger is the accounting of refnanny.pyx, proved "
               "equivalent to counting. partial: the theorem is about the model of the discipline (gen mirrors "
               "ExprNodes/Nodes emission for the fragment); try/except/finally, with, unpacking, comprehensions, "
               "augmented assignment, method calls, keyword/star calls and all C utility code are only tested "
               "by the three-way fault-injection run. The __exit__ call of 'with' (WithExitCallNode: unmanaged "
               "result temp, truth test of the result) has its own model exit_call: balanced on every outcome for "
               "every oracle (C35_with_exit_call_balanced); the order 'error test before DECREF(result)' is refuted "
               "by a witness at call and statement level; the modelled order is compared with the emitted C at "
               "every __exit__ call site. The with statement as a whole (with_stat) is executable but not in the "
               "gen_stmt induction.")
LEVEL_TEXT = ("partial: machine-checked balance/no-use-after-release theorem for all trees and all fault oracles of "
              "the modelled temp/ownership discipline, tied to the real compiler by comparing the model's "
              "acquire/release event sequence with the refnanny log for every (program, k) of the fragment and the "
              "extracted ledger with refnanny.pyx's verdicts on random macro scripts; the wider statement set and the "
              "real emission sites are covered by fault-injection testing only (refnanny reports, live-object "
              "counters, sys.getrefcount deltas, exception vs CPython).")
TRUSTED = ["fault-injection runtime c35rt.py (operand class T whose every dunder ticks a global call counter)",
           "CPython 3.12 executing the same source = property oracle for result/exception/dunder-call order",
           "__Pyx_PyTuple_SET_ITEM/__Pyx_PyList_SET_ITEM modelled infallible (macro form in the default CPython build)",
           "gcc as a conforming C compiler; PYTHONMALLOC=debug to surface use-after-free",
           "with_stat: __Pyx_GetException modelled infallible; exit_var kept in a swept slot (the emitted code releases "
           "it itself on every path); text scan of the generated C for the __exit__ call sites (exit_call_sites)"]
ASSUMPTIONS = ["CPython 3.12, default (non limited-API, GIL) build of the generated module",
               "allocation failures (PyTuple_New/PyList_New -> MemoryError) are covered by the theorem's second "
               "oracle but never injected by the harness"]

# ------------------------------------------------------------------------------------------------
# fault-injection runtime (pure Python; imported by the worker, never compiled)
RT = r'''
import sys, gc, zlib
class Inject(Exception):
    pass
class St:
    calls = 0
    fault = -1
    log = []
    dec = []
    live = 0
def tick(name):
    St.calls += 1
    St.log.append(name)
    St.dec.append(0)
    if St.calls == St.fault:
        raise Inject(St.calls)
def nm(op, *parts):
    return "%s%06x" % (op[:2], zlib.crc32(("%s|%s" % (op, "|".join(parts))).encode()) & 0xffffff)
def N(x):
    if isinstance(x, bool):
        return "int"        # a C truth value used as an index reaches __getitem__ as int: a type matter, not C35
    return x.n if isinstance(x, (T, It, CM)) else type(x).__name__
class T(object):
    __slots__ = ("n", "bc", "__weakref__")
    def __init__(s, n):
        St.live += 1
        object.__setattr__(s, "n", n)
        object.__setattr__(s, "bc", 0)
    def __del__(s):
        St.live -= 1
    def _b(s, op, *o):
        tick(op)
        return T(nm(op, s.n, *[N(x) for x in o]))
    def __add__(s, o): return s._b("add", o)
    def __sub__(s, o): return s._b("sub", o)
    def __mul__(s, o): return s._b("mul", o)
    def __matmul__(s, o): return s._b("matmul", o)
    def __floordiv__(s, o): return s._b("floordiv", o)
    def __mod__(s, o): return s._b("mod", o)
    def __and__(s, o): return s._b("and", o)
    def __or__(s, o): return s._b("or", o)
    def __xor__(s, o): return s._b("xor", o)
    def __radd__(s, o): return s._b("radd", o)
    def __rmul__(s, o): return s._b("rmul", o)
    def __rsub__(s, o): return s._b("rsub", o)
    def __iadd__(s, o): return s._b("iadd", o)
    def __isub__(s, o): return s._b("isub", o)
    def __imul__(s, o): return s._b("imul", o)
    def __neg__(s): return s._b("neg")
    def __invert__(s): return s._b("invert")
    def __pos__(s): return s._b("pos")
    def __lt__(s, o): return s._b("lt", o)
    def __le__(s, o): return s._b("le", o)
    def __gt__(s, o): return s._b("gt", o)
    def __ge__(s, o): return s._b("ge", o)
    def __eq__(s, o): return s._b("eq", o)
    def __ne__(s, o): return s._b("ne", o)
    def __hash__(s):
        tick("hash")
        # by name, not by address: the iteration order of a set of operand objects must be the same in the three
        # builds (separate processes), otherwise their logs differ for a reason that has nothing to do with the code
        return zlib.crc32(s.n.encode()) & 0x3fffffff
    def __getattr__(s, name):
        if name.startswith("__"):
            raise AttributeError(name)
        return s._b("getattr." + name)
    def __setattr__(s, name, v):
        tick("setattr." + name)
    def __delattr__(s, name):
        tick("delattr." + name)
    def __getitem__(s, i): return s._b("getitem", i)
    def __setitem__(s, i, v): tick("setitem")
    def __delitem__(s, i): tick("delitem")
    def __call__(s, *a, **k):
        return s._b("call", *(list(a) + [x for kv in sorted(k.items()) for x in kv]))
    def __contains__(s, o):
        return s._b("contains", o)          # the slot wrapper truth-tests the returned T: one more fault point
    def __bool__(s):
        tick("bool")
        c = s.bc
        object.__setattr__(s, "bc", c + 1)
        r = c < (zlib.crc32(s.n.encode()) >> 3) % 3
        St.dec[-1] = 1 if r else 2
        return r
    def __iter__(s):
        tick("iter")
        return It(s.n, 1 + (zlib.crc32(s.n.encode()) >> 5) % 3)
    def __len__(s):
        tick("len")
        return 2
    def __index__(s):
        tick("index")
        return 1
    def __str__(s):
        tick("str")
        return "<" + s.n + ">"
    def __repr__(s):
        return "T(" + s.n + ")"
    def __format__(s, spec):
        tick("format")
        if zlib.crc32(s.n.encode()) % 5 == 0:
            return s                        # non-str result: TypeError raised by the caller of __format__
        return "<" + s.n + ":" + spec + ">"
    def __enter__(s):
        return s._b("enter")
    def __exit__(s, t, v, tb):
        return s._b("exit")                 # a T: its truth test (only made when the body raised) is a fault point
class It(object):
    __slots__ = ("n", "k", "lim")
    def __init__(s, n, lim):
        St.live += 1
        s.n = "it" + n; s.k = 0; s.lim = lim
    def __del__(s):
        St.live -= 1
    def __iter__(s):
        return s
    def __next__(s):
        tick("next")
        if s.k >= s.lim:
            St.dec[-1] = 2
            raise StopIteration
        St.dec[-1] = 1
        s.k += 1
        return T(nm("item", s.n, str(s.k)))
CM = It
def D(r, depth=0):
    if isinstance(r, T):
        return r.n
    if isinstance(r, (tuple, list)):
        return type(r).__name__[0] + "(" + ",".join(D(x, depth + 1) for x in r) + ")"
    if isinstance(r, dict):
        return "d(" + ",".join(sorted(D(k) + ":" + D(v) for k, v in r.items())) + ")"
    if isinstance(r, (set, frozenset)):
        return "s(" + ",".join(sorted(D(k) for k in r)) + ")"
    if isinstance(r, It):
        return r.n
    return repr(r)
'''

DRIVER = r'''
import sys, os, json, gc, io, re
sys.setrecursionlimit(400)
import c35rt
from c35rt import St, T, Inject, D
spec = json.load(open("c35_spec.json"))
outf = open(spec["out"], "a")
done = spec["done"]                      # number of (mode, prog) units already finished
NARGS = 4
def load(mode):
    if mode == "py":
        ns = {}
        exec(compile(open(spec["src"]).read(), "c35py", "exec"), ns)
        return ns
    sys.path.insert(0, os.path.join(os.getcwd(), mode))
    if mode == "nanny":
        import refnanny
        assert refnanny.__file__.startswith(os.getcwd()), refnanny.__file__
    import importlib
    m = importlib.import_module(spec["mod"])
    assert os.path.dirname(m.__file__) == os.path.join(os.getcwd(), mode), m.__file__
    return vars(m)
def one(f, k, nanny, ranges):
    gc.collect()
    base = St.live
    args = [T("a"), T("b"), T("c"), T("d")]
    rc0 = [sys.getrefcount(x) for x in args]
    St.calls = 0; St.fault = k; St.log = []; St.dec = []
    buf = None
    if nanny is not None:
        del nanny.reflog[:]
        nanny.loglevel = 1
        buf = io.StringIO(); old = sys.stdout; sys.stdout = buf
    try:
        try:
            r = f(*args)
            out = "ok " + D(r)
            r = None
        except Inject as e:
            out = "Inject %s" % (e.args[0],)
            e = None
        except BaseException as e:
            out = "exc " + type(e).__name__
            e = None
    finally:
        if nanny is not None:
            sys.stdout = old
            nanny.loglevel = 0
    St.fault = -1
    ncalls = St.calls
    log = St.log; St.log = []
    gc.collect()
    rc1 = [sys.getrefcount(x) for x in args]
    res = {"out": out, "n": ncalls, "log": " ".join(log), "live": St.live - base - NARGS,
           "rc": [b - a for a, b in zip(rc0, rc1)]}
    if nanny is not None:
        res["nanny"] = buf.getvalue()
        lo, hi = ranges
        ids = {id(x): "a%d" % i for i, x in enumerate(args)}
        ids[id(None)] = "a4"
        ev = []
        for ln, act, i in nanny.reflog:
            if lo <= ln <= hi:
                ev.append(("+" if act == "regref" else "-") + (ids.get(i) or str(i)))
        del nanny.reflog[:]
        res["ev"] = " ".join(ev)
        res["dec"] = ",".join(map(str, St.dec)) or "-"
    args = None
    return res
unit = 0
for mode in spec["modes"]:
    ns = None
    for pi, fname in enumerate(spec["funcs"]):
        unit += 1
        if unit <= done:
            continue
        if ns is None:
            ns = load(mode)
            nanny = sys.modules.get("refnanny") if mode == "nanny" else None
        f = ns[fname]
        rng = spec["ranges"].get(fname, [0, 0])
        outf.write(json.dumps({"begin": unit}) + "\n"); outf.flush()
        r0 = one(f, 0, nanny, rng)
        rows = [r0]
        for k in range(1, min(r0["n"], spec["maxk"]) + 1):
            rows.append(one(f, k, nanny, rng))
        outf.write(json.dumps({"unit": unit, "mode": mode, "f": fname, "rows": rows}) + "\n"); outf.flush()
outf.write(json.dumps({"end": 1}) + "\n"); outf.flush()
'''

# ------------------------------------------------------------------------------------------------
# program generator.  Expressions / statements are nested tuples.
BINOPS = ["+", "-", "*", "@", "//", "%", "&", "|", "^", "<", "<=", ">", ">=", "==", "!="]
ATTRS = ["foo", "bar", "baz"]
ARGN = ["a", "b", "c", "d"]


class Gen:
    """core=True restricts to the fragment modelled in Coq (M_Refs.v)."""

    def __init__(self, rng, core):
        self.rng = rng
        self.core = core
        self.nloc = 0

    # ---- expressions ----
    def leaf(self, bound):
        r = self.rng
        if bound and r.random() < 0.5:
            return ("loc", r.choice(sorted(bound)))
        return ("arg", r.randrange(4))

    def expr(self, d, bound, seq_ok=True):
        """core: displays (plain tuples/lists take fast paths and raise on T-only operations) may only be call
        arguments, display items, store values or return values"""
        r = self.rng
        if d <= 0 or r.random() < 0.25:
            return self.leaf(bound)
        kinds = ["bin", "bin", "un", "attr", "item", "call"] + (["seq"] if (seq_ok or not self.core) else [])
        if not self.core:
            kinds += ["mcall", "kwcall", "starcall", "cond", "and", "or", "not", "dict", "set", "comp", "fstr",
                      "in", "chain", "slice", "dcomp", "genexp"]
        k = r.choice(kinds)
        e = lambda: self.expr(d - 1, bound, k in ("seq", "call"))
        if k == "bin":
            # core: no rich comparisons (as conditions they are fused with the truth test: no object temp)
            return ("op", r.choice(BINOPS[:9] if self.core else BINOPS), [e(), e()])
        if k == "un":
            return ("op", r.choice(["u-", "u~", "u+"]), [e()])
        if k == "attr":
            return ("op", "." + r.choice(ATTRS), [e()])
        if k == "item":
            return ("op", "[]", [e(), e()])
        if k == "seq":
            return ("seq", r.choice(["tuple", "list"]), [e() for _ in range(r.randrange(1, 4))])
        if k == "call":
            return ("call", self.leaf(bound) if self.core else self.callee(d - 1, bound), [e() for _ in range(r.randrange(0, 3))])
        if k == "mcall":
            return ("mcall", e(), r.choice(ATTRS), [e() for _ in range(r.randrange(0, 3))])
        if k == "kwcall":
            return ("kwcall", self.callee(d - 1, bound), [e() for _ in range(r.randrange(0, 2))], [("k%d" % i, e()) for i in range(r.randrange(1, 3))])
        if k == "starcall":
            return ("starcall", self.callee(d - 1, bound), [e() for _ in range(r.randrange(0, 2))], e(), r.random() < 0.3)
        if k == "cond":
            return ("cond", e(), e(), e())
        if k in ("and", "or"):
            return (k, e(), e())
        if k == "not":
            return ("not", e())
        if k == "dict":
            return ("dict", [(e(), e()) for _ in range(r.randrange(1, 3))])
        if k == "set":
            return ("set", [e() for _ in range(r.randrange(1, 3))])
        if k in ("comp", "dcomp", "genexp"):
            v = self.newloc()
            b2 = bound | {v}
            body = self.expr(d - 1, b2)
            cond = self.expr(d - 2, b2) if r.random() < 0.4 else None
            return (k, r.choice(["list", "set"]), v, e(), body, cond)
        if k == "fstr":
            ops = [self.leaf(bound) if r.random() < 0.5 else ("op", "." + r.choice(ATTRS), [self.leaf(bound)])
                   for _ in range(r.randrange(1, 3))]
            return ("fstr", ops, r.choice(["", "!s", ":>4"]))
        if k == "in":
            return ("in", r.random() < 0.5, e(), e())
        if k == "chain":
            return ("chain", r.choice(["<", "<="]), r.choice([">", "=="]), e(), e(), e())
        if k == "slice":
            return ("slice", e(), e(), e())
        raise ValueError(k)

    def callee(self, d, bound):
        while True:
            f = self.expr(d, bound)
            if f[0] not in NOCALL and not (f[0] == "op" and f[1] in ("<", "<=", ">", ">=", "==", "!=")):
                return f

    def newloc(self):
        self.nloc += 1
        return self.nloc - 1

    # ---- statements ----
    def block(self, d, bound, inloop, n=None):
        """returns (stmts, bound_after)"""
        r = self.rng
        out = []
        for _ in range(n if n is not None else r.randrange(1, 4)):
            s, bound = self.stmt(d, bound, inloop)
            out.append(s)
            if terminates(s):
                break
        return out, bound

    def stmt(self, d, bound, inloop):
        r = self.rng
        kinds = ["assign", "assign", "expr", "set", "ret"]
        if d > 0:
            kinds += ["if", "for", "for"]
        if inloop:
            kinds += ["break", "continue"]
        if not self.core:
            kinds += ["aug", "unpack", "del", "raise"]
            if d > 0:
                kinds += ["try", "try", "fin", "with", "withn", "while", "tryelse"]
        k = r.choice(kinds)
        ed = r.randrange(1, 4)
        if k == "assign":
            x = r.choice(sorted(bound)) if bound and r.random() < 0.4 else self.newloc()
            return ("assign", x, self.expr(ed, bound, False)), bound | {x}
        if k == "expr":
            return ("expr", self.expr(ed, bound, False)), bound
        if k == "set":
            w = r.choice(["attr", "item", "delitem", "delattr"] if not self.core else ["attr", "item", "delitem"])
            if w == "attr":
                return ("setattr", self.expr(ed - 1, bound, False), r.choice(ATTRS), self.expr(ed - 1, bound)), bound
            if w == "item":
                return ("setitem", self.expr(ed - 1, bound, False), self.expr(ed - 1, bound, False), self.expr(ed - 1, bound)), bound
            if w == "delattr":
                return ("delattr", self.expr(ed - 1, bound, False), r.choice(ATTRS)), bound
            return ("delitem", self.expr(ed - 1, bound, False), self.expr(ed - 1, bound, False)), bound
        if k == "ret":
            return ("ret", self.expr(ed, bound)), bound
        if k in ("break", "continue"):
            return (k,), bound
        if k == "if":
            c = self.expr(ed - 1, bound, False)
            b1, bd1 = self.block(d - 1, bound, inloop)
            if r.random() < 0.6:
                b2, bd2 = self.block(d - 1, bound, inloop)
            else:
                b2, bd2 = [], bound
            return ("if", c, b1, b2), (bd1 & bd2)
        if k == "for":
            x = self.newloc()
            it = self.expr(ed - 1, bound, False)
            body, _ = self.block(d - 1, bound | {x}, True)
            els = None
            if not self.core and r.random() < 0.3:
                els, _ = self.block(d - 1, bound, inloop)
            return ("for", x, it, body, els), bound
        if k == "while":
            body, _ = self.block(d - 1, bound, True)
            return ("while", ("arg", r.randrange(4)), body), bound
        if k == "aug":
            w = r.choice(["loc", "attr", "item"])
            op = r.choice(["+", "-", "*"])
            rhs = self.expr(ed - 1, bound)
            while rhs[0] == "fstr":
                # 'obj.x += f"..."' is compiled to __Pyx_PyUnicode_ConcatInPlace, which assumes a str left operand
                # and aborts / reads garbage for other objects: a type-confusion bug outside this property
                rhs = self.expr(ed - 1, bound)
            if w == "loc" and bound:
                return ("augloc", r.choice(sorted(bound)), op, rhs), bound
            if w == "attr":
                return ("augattr", self.expr(ed - 1, bound), r.choice(ATTRS), op, rhs), bound
            return ("augitem", self.expr(ed - 1, bound), self.expr(ed - 1, bound), op, rhs), bound
        if k == "unpack":
            n = r.randrange(1, 4)
            xs = [self.newloc() for _ in range(n)]
            star = r.randrange(n) if r.random() < 0.3 else None
            src = self.expr(ed, bound)
            while src[0] == "slice":        # unpacking a slice crashes the compiler (inferable_item_node): C43 matter
                src = self.expr(ed, bound)
            if r.random() < 0.3:
                src = ("seq", r.choice(["tuple", "list"]), [self.expr(ed - 1, bound) for _ in range(n)])
            return ("unpack", xs, star, src), bound | set(xs)
        if k == "del":
            if bound and r.random() < 0.5:
                x = r.choice(sorted(bound))
                return ("delloc", x), bound - {x}
            return ("delitem", self.expr(ed - 1, bound), self.expr(ed - 1, bound)), bound
        if k == "raise":
            return ("raise", self.expr(ed - 1, bound)), bound
        if k in ("try", "tryelse"):
            body, bdb = self.block(d - 1, bound, inloop)
            kind = r.choice(["Inject", "bare", "as", "Exception", "TypeError"])
            v = self.newloc() if kind == "as" else None
            h, bdh = self.block(d - 1, bound, inloop)   # 'as' name is unbound after the handler: never in bound
            els = None
            if k == "tryelse":
                els, _ = self.block(d - 1, bdb, inloop)
            return ("try", body, kind, v, h, els), bound
        if k == "fin":
            body, _ = self.block(d - 1, bound, inloop)
            fb, bdf = self.block(d - 1, bound, False)
            fb = [s for s in fb if s[0] != "ret"] or [("expr", ("arg", 0))]
            return ("fin", body, fb), bound
        if k == "with":
            v = self.newloc() if r.random() < 0.6 else None
            cm = self.callee(ed - 1, bound)
            body, _ = self.block(d - 1, bound | ({v} if v is not None else set()), inloop)
            return ("with", cm, v, body), bound
        if k == "withn":
            # 1-2 managers; target: none / name / tuple of names / attribute
            items, inner = [], set(bound)
            for _ in range(r.randrange(1, 3)):
                cm = self.callee(ed - 1, inner)
                w = r.choice(["none", "name", "name", "tuple", "attr"])
                if w == "none":
                    tg = None
                elif w == "name":
                    x = self.newloc(); tg = ("name", x)
                elif w == "tuple":
                    xs = [self.newloc() for _ in range(r.randrange(1, 3))]; tg = ("tuple", xs)
                else:
                    tg = ("attr", self.leaf(inner), r.choice(ATTRS))
                items.append((cm, tg))
                if tg and tg[0] == "name":
                    inner = inner | {tg[1]}
                elif tg and tg[0] == "tuple":
                    inner = inner | set(tg[1])
            body, _ = self.block(d - 1, inner, inloop)
            return ("withn", items, body), bound
        raise ValueError(k)


def terminates(s):
    """control never reaches the statement after s (the compiler crashes on generator expressions in code it
    has found unreachable - a C43 matter - so blocks end there)"""
    t = s[0]
    if t in ("ret", "break", "continue", "raise"):
        return True
    blk = lambda b: bool(b) and terminates(b[-1])
    if t == "if":
        return blk(s[2]) and blk(s[3])
    if t == "try":
        return (blk(s[1]) or blk(s[5] or [])) and blk(s[4])
    if t == "fin":
        return blk(s[1]) or blk(s[2])
    if t in ("with", "withn"):
        return False
    if t in ("for", "while"):
        return False
    return False


def captured_locals(x, inside=False, acc=None):
    """locals referenced inside comprehension / generator scopes"""
    acc = set() if acc is None else acc
    if isinstance(x, (tuple, list)):
        if x and x[0] == "loc" and inside and len(x) == 2:
            acc.add(x[1])
        ins = inside or (bool(x) and x[0] in ("comp", "dcomp", "genexp"))
        for y in x:
            captured_locals(y, ins, acc)
    return acc


def fix_dels(x, cap):
    if isinstance(x, list):
        return [fix_dels(y, cap) for y in x]
    if isinstance(x, tuple):
        if x and x[0] == "delloc" and x[1] in cap:
            return ("expr", ("loc", x[1]))
        return tuple(fix_dels(y, cap) for y in x)
    return x


NOCALL = ("not", "in", "chain", "fstr", "seq", "dict", "set", "comp", "dcomp", "genexp")


def E(e):
    t = e[0]
    if t == "arg":
        return ARGN[e[1]]
    if t == "loc":
        return "v%d" % e[1]
    if t == "op":
        s, es = e[1], e[2]
        if s.startswith("u"):
            return "(%s%s)" % (s[1], E(es[0]))
        if s.startswith("."):
            return "%s%s" % (P(es[0]), s)
        if s == "[]":
            return "%s[%s]" % (P(es[0]), E(es[1]))
        return "(%s %s %s)" % (E(es[0]), s, E(es[1]))
    if t == "seq":
        body = ", ".join(E(x) for x in e[2])
        if e[1] == "tuple":
            return "(%s,)" % body
        return "[%s]" % body
    if t == "call":
        return "%s(%s)" % (P(e[1]), ", ".join(E(x) for x in e[2]))
    if t == "mcall":
        return "%s.%s(%s)" % (P(e[1]), e[2], ", ".join(E(x) for x in e[3]))
    if t == "kwcall":
        return "%s(%s)" % (P(e[1]), ", ".join([E(x) for x in e[2]] + ["%s=%s" % (k, E(v)) for k, v in e[3]]))
    if t == "starcall":
        return "%s(%s)" % (P(e[1]), ", ".join([E(x) for x in e[2]] + ["*" + P(e[3])] + (["**{'k': %s}" % E(e[3])] if e[4] else [])))
    if t == "cond":
        return "(%s if %s else %s)" % (E(e[2]), E(e[1]), E(e[3]))
    if t in ("and", "or"):
        return "(%s %s %s)" % (E(e[1]), t, E(e[2]))
    if t == "not":
        return "(not %s)" % E(e[1])
    if t == "dict":
        return "{%s}" % ", ".join("%s: %s" % (E(k), E(v)) for k, v in e[1])
    if t == "set":
        return "{%s}" % ", ".join(E(x) for x in e[1])
    if t in ("comp", "dcomp", "genexp"):
        cond = (" if %s" % E(e[5])) if e[5] is not None else ""
        tail = "for v%d in %s%s" % (e[2], E(e[3]), cond)
        if t == "dcomp":
            return "{%s: %s %s}" % (E(e[4]), E(e[4]), tail)
        if t == "genexp":
            return "list(%s %s)" % (E(e[4]), tail)
        return ("[%s %s]" if e[1] == "list" else "{%s %s}") % (E(e[4]), tail)
    if t == "fstr":
        return "f'" + "-".join("{(%s)%s}" % (E(x).replace("'", '"'), e[2]) for x in e[1]) + "'"
    if t == "in":
        return "(%s %s %s)" % (E(e[2]), "not in" if e[1] else "in", E(e[3]))
    if t == "chain":
        return "(%s %s %s %s %s)" % (E(e[3]), e[1], E(e[4]), e[2], E(e[5]))
    if t == "slice":
        return "%s[%s:%s]" % (P(e[1]), E(e[2]), E(e[3]))
    raise ValueError(e)


def P(e):
    s = E(e)
    return s if re.match(r"^[\w.\[\]]+$", s) or s[0] in "([" else "(%s)" % s


def S(b, ind, out):
    if not b:
        out.append(ind + "pass")
    for s in b:
        t = s[0]
        if t == "assign":
            out.append(ind + "v%d = %s" % (s[1], E(s[2])))
        elif t == "expr":
            out.append(ind + E(s[1]))
        elif t == "setattr":
            out.append(ind + "%s.%s = %s" % (P(s[1]), s[2], E(s[3])))
        elif t == "setitem":
            out.append(ind + "%s[%s] = %s" % (P(s[1]), E(s[2]), E(s[3])))
        elif t == "delitem":
            out.append(ind + "del %s[%s]" % (P(s[1]), E(s[2])))
        elif t == "delattr":
            out.append(ind + "del %s.%s" % (P(s[1]), s[2]))
        elif t == "delloc":
            out.append(ind + "del v%d" % s[1])
        elif t == "ret":
            out.append(ind + "return %s" % E(s[1]))
        elif t in ("break", "continue"):
            out.append(ind + t)
        elif t == "raise":
            out.append(ind + "raise %s" % E(s[1]))
        elif t == "if":
            out.append(ind + "if %s:" % E(s[1]))
            S(s[2], ind + "    ", out)
            if s[3]:
                out.append(ind + "else:")
                S(s[3], ind + "    ", out)
        elif t == "for":
            out.append(ind + "for v%d in %s:" % (s[1], E(s[2])))
            S(s[3], ind + "    ", out)
            if s[4] is not None:
                out.append(ind + "else:")
                S(s[4], ind + "    ", out)
        elif t == "while":
            out.append(ind + "while %s:" % E(s[1]))
            S(s[2], ind + "    ", out)
        elif t == "augloc":
            out.append(ind + "v%d %s= %s" % (s[1], s[2], E(s[3])))
        elif t == "augattr":
            out.append(ind + "%s.%s %s= %s" % (P(s[1]), s[2], s[3], E(s[4])))
        elif t == "augitem":
            out.append(ind + "%s[%s] %s= %s" % (P(s[1]), E(s[2]), s[3], E(s[4])))
        elif t == "unpack":
            tg = ", ".join(("*" if i == s[2] else "") + "v%d" % x for i, x in enumerate(s[1]))
            out.append(ind + "%s%s = %s" % (tg, "," if len(s[1]) == 1 else "", E(s[3])))
        elif t == "try":
            out.append(ind + "try:")
            S(s[1], ind + "    ", out)
            h = {"Inject": "except Inject:", "bare": "except:", "as": "except Inject as v%s:" % s[3],
                 "Exception": "except Exception:", "TypeError": "except TypeError:"}[s[2]]
            out.append(ind + h)
            S(s[4], ind + "    ", out)
            if s[5] is not None:
                out.append(ind + "else:")
                S(s[5], ind + "    ", out)
        elif t == "fin":
            out.append(ind + "try:")
            S(s[1], ind + "    ", out)
            out.append(ind + "finally:")
            S(s[2], ind + "    ", out)
        elif t == "with":
            out.append(ind + "with %s%s:" % (E(s[1]), (" as v%d" % s[2]) if s[2] is not None else ""))
            S(s[3], ind + "    ", out)
        elif t == "withn":
            out.append(ind + "with %s:" % ", ".join(E(cm) + WT(tg) for cm, tg in s[1]))
            S(s[2], ind + "    ", out)
        else:
            raise ValueError(s)


def WT(tg):
    if tg is None:
        return ""
    if tg[0] == "name":
        return " as v%d" % tg[1]
    if tg[0] == "tuple":
        return " as (%s,)" % ", ".join("v%d" % x for x in tg[1])
    return " as %s.%s" % (P(tg[1]), tg[2])


def func_source(name, body):
    out = ["def %s(a, b, c, d):" % name]
    S(body, "    ", out)
    return "\n".join(out) + "\n"


# ------------------------------------------------------------------------------------------------
# token encoding of core programs for the extracted model (prefix form)
def TE(e):
    t = e[0]
    if t == "arg":
        return ["arg", str(e[1])]
    if t == "loc":
        return ["loc", str(e[1])]
    if t == "op":
        return ["op", str(len(e[2]))] + [x for s in e[2] for x in TE(s)]
    if t == "seq":
        return ["seq", str(len(e[2]))] + [x for s in e[2] for x in TE(s)]
    if t == "call":
        return ["call"] + TE(e[1]) + [str(len(e[2]))] + [x for s in e[2] for x in TE(s)]
    raise ValueError(e)


def TB(b):
    out = ["blk", str(len(b))]
    for s in b:
        out += TS(s)
    return out


def TS(s):
    t = s[0]
    if t == "assign":
        return ["assign", str(s[1])] + TE(s[2])
    if t == "expr":
        return ["expr"] + TE(s[1])
    if t == "ret":
        return ["ret"] + TE(s[1])
    if t == "setattr":
        return ["store", "0", "1"] + TE(s[3]) + TE(s[1])     # rhs is evaluated first; disposal: rhs, obj
    if t == "setitem":
        return ["store", "1", "2"] + TE(s[3]) + TE(s[1]) + TE(s[2])   # disposal: base, index, rhs
    if t == "delitem":
        return ["store", "0", "1"] + TE(s[1]) + TE(s[2])
    if t == "if":
        return ["if"] + TE(s[1]) + TB(s[2]) + TB(s[3])
    if t == "for":
        return ["for", str(s[1])] + TE(s[2]) + TB(s[3])
    if t == "break":
        return ["break"]
    if t == "continue":
        return ["continue"]
    raise ValueError(s)


# ------------------------------------------------------------------------------------------------
def c_ranges(c_text, modname, funcs):
    """C line range (1-based, inclusive) of the body of each __pyx_pf_ function."""
    lines = c_text.split("\n")
    out = {}
    for fn in funcs:
        pat = re.compile(r"^static PyObject \*__pyx_pf_\w*?_\d*%s\(.*\) \{$" % re.escape(fn))
        for i, l in enumerate(lines):
            if pat.match(l):
                j = i
                while lines[j] != "}":
                    j += 1
                out[fn] = [i + 1, j + 1]
                break
    return out


PREFILTER = r"""
import sys, os, io, re, json
import pyload; pyload.install()
from Cython.Compiler import Main, Options
pyload.assert_sources()
spec = json.load(sys.stdin)
d = dict(Options.get_directive_defaults()); d["language_level"] = 3
os.makedirs("pre", exist_ok=True)
out = {}
for name, src in spec:
    p = os.path.join("pre", name + ".py")
    open(p, "w").write("from c35rt import Inject\n\n" + src)
    opts = Main.CompilationOptions(Main.default_options, compiler_directives=d, output_file=p[:-3] + ".c")
    err = io.StringIO(); old = sys.stderr; sys.stderr = err
    try:
        try:
            r = Main.compile(p, opts); ok = r.num_errors == 0
        except BaseException as e:
            ok = False; err.write("CRASH %r" % (e,))
    finally:
        sys.stderr = old
    txt = err.getvalue()
    m = re.findall(r"^[^\n]*\.py:\d+:\d+: ((?!Unreachable)[^\n]*)", txt, re.M)
    out[name] = [ok, (("CRASH " + txt[-160:]) if "CRASH" in txt else (m[0] if m else txt[-160:])) if not ok else ""]
    for ext in (".c", ".py"):
        try: os.unlink(p[:-3] + ext)
        except OSError: pass
print(json.dumps(out))
"""


def has_display_repeat(x):
    """a tuple/list display multiplied by a non-literal operand: the compiler types the product as tuple/list, and an
    operand object whose __rmul__/__mul__ returns something else makes the generated code read a non-sequence as one
    (assertion / type confusion).  A real defect, but not a reference-counting one: such programs are left out."""
    if isinstance(x, (tuple, list)):
        if len(x) == 3 and x[0] == "op" and x[1] in ("*", "@") and isinstance(x[2], (list, tuple)) and \
                any(isinstance(o, (tuple, list)) and o and o[0] == "seq" for o in x[2]):
            return True
        return any(has_display_repeat(y) for y in x)
    return False


def prefilter(ctx, progs):
    """compile every program on its own (one warmed-up compiler process): programs the compiler rejects or
    crashes on are outside this property (C43) and are dropped with a note"""
    kept = []
    for fn, body, core in progs:
        if has_display_repeat(body):
            ctx.strata["left_out_display_repeat"] = ctx.strata.get("left_out_display_repeat", 0) + 1
        else:
            kept.append((fn, body, core))
    progs = kept
    r = cybuild.run_script(PREFILTER, os.path.join(ctx.workdir, "pre"),
                           stdin_obj=[[fn, func_source(fn, body)] for fn, body, _ in progs], name="c35_prefilter.py")
    if r["json"] is None:
        raise RuntimeError("prefilter failed: " + (r["err"] or r["out"])[-800:])
    keep = []
    for fn, body, core in progs:
        ok, why = r["json"][fn]
        if ok:
            keep.append((fn, body, core))
        else:
            ctx.strata["compiler_rejected"] = ctx.strata.get("compiler_rejected", 0) + 1
            if len(ctx.notes) < 12:
                ctx.note("dropped %s (compiler rejects it, outside C35): %s" % (fn, why[:160]))
            if core:
                ctx.corr_break("core_program_rejected", {"source": func_source(fn, body)}, why[:300], "compiles")
    return keep


def build_all(ctx, name, source, workdir, with_ledger=False):
    """translate once, compile twice (plain / CYTHON_REFNANNY=1); refnanny rebuilt from refnanny.pyx"""
    os.makedirs(workdir, exist_ok=True)
    for sub in ("cy", "nanny"):
        os.makedirs(os.path.join(workdir, sub), exist_ok=True)
    with open(os.path.join(workdir, "c35rt.py"), "w") as f:
        f.write(RT)
    src = os.path.join(workdir, name + ".py")
    with open(src, "w") as f:
        f.write(source)
    c_file = os.path.join(workdir, name + ".c")
    import concurrent.futures as cf
    def tr_main():
        res = cybuild.translate(src, c_file)
        if res.get("crash") or not res.get("ok"):
            raise cybuild.BuildError("cython", res.get("crash") or res.get("errors", ""))
        jobs = []
        with cf.ThreadPoolExecutor(2) as ex:
            jobs.append(ex.submit(cybuild.cc, c_file, os.path.join(workdir, "cy", name + cybuild.EXT), ["-O0"], None))
            jobs.append(ex.submit(cybuild.cc, c_file, os.path.join(workdir, "nanny", name + cybuild.EXT), ["-O0"],
                                  ["CYTHON_REFNANNY=1"]))
            for j in jobs:
                rc, err = j.result()
                if rc != 0:
                    raise cybuild.BuildError("cc", err)
    def tr_nanny():
        rsrc = open(os.path.join(ctx.repo, "Cython", "Runtime", "refnanny.pyx")).read()
        cybuild.build("refnanny", rsrc, os.path.join(workdir, "nanny"), cflags=["-O0"])
    def tr_ledger():
        cybuild.build("c35led", LEDGER_PYX, os.path.join(workdir, "nanny"), cflags=["-O0"], macros=["CYTHON_REFNANNY=1"])
    with cf.ThreadPoolExecutor(3) as ex:
        js = [ex.submit(tr_main), ex.submit(tr_nanny)] + ([ex.submit(tr_ledger)] if with_ledger else [])
        for j in js:
            j.result()
    return c_file


def run_driver(workdir, name, funcs, ranges, modes, maxk, timeout=3000):
    out = os.path.join(workdir, "results_%s_%s.jsonl" % (name, modes[0]))
    if os.path.exists(out):
        os.unlink(out)
    done = 0
    crashes = []
    total = len(modes) * len(funcs)
    while done < total:
        spec = {"out": out, "done": done, "src": name + ".py", "mod": name, "funcs": funcs, "ranges": ranges,
                "modes": modes, "maxk": maxk}
        with open(os.path.join(workdir, "c35_spec.json"), "w") as f:
            json.dump(spec, f)
        r = cybuild.run_script(DRIVER, workdir, timeout=timeout, extra_env={"PYTHONMALLOC": "debug"},
                               name="c35_driver.py")
        units = {}
        begun = None
        ended = False
        for line in open(out):
            try:
                d = json.loads(line)
            except Exception:
                continue
            if "begin" in d:
                begun = d["begin"]
            elif "unit" in d:
                units[d["unit"]] = d
            elif "end" in d:
                ended = True
        if ended:
            break
        if begun is None or begun in units or begun <= done:
            raise RuntimeError("driver died outside a unit: rc=%s %s" % (r["rc"], r["err"][-1500:]))
        mode = modes[(begun - 1) // len(funcs)]
        crashes.append({"unit": begun, "mode": mode, "f": funcs[(begun - 1) % len(funcs)], "rc": r["rc"],
                        "err": r["err"][-600:]})
        done = begun
        if len(crashes) > 30:
            break
    units = {}
    for line in open(out):
        try:
            d = json.loads(line)
        except Exception:
            continue
        if "unit" in d:
            units[(d["mode"], d["f"])] = d["rows"]
    return units, crashes


def canon(evs, model=False):
    """rename objects by first appearance; a name is forgotten when the ledger count of its object returns
    to 0 (CPython reuses addresses of freed objects); arguments and None keep fixed names a0..a4"""
    names, count, out, nfresh = {}, {}, [], 0
    for e in evs.split():
        sign, raw = e[0], e[1:]
        if model and int(raw) < 5:
            raw = "a%s" % raw
        if raw.startswith("a"):
            out.append(sign + raw)
            continue
        if raw not in names:
            names[raw] = "o%d" % nfresh
            nfresh += 1
        out.append(sign + names[raw])
        count[raw] = count.get(raw, 0) + (1 if sign == "+" else -1)
        if count[raw] <= 0:
            del names[raw], count[raw]
    return " ".join(out) or "-"


def contains_return(b):
    for s in b:
        if s[0] == "ret":
            return True
        for part in s[1:]:
            if isinstance(part, list) and part and isinstance(part[0], tuple) and contains_return(part):
                return True
    return False


def return_under_finally(b):
    """a return statement inside the body of try/finally or with (TryFinallyStatNode stashes the value)"""
    for s in b:
        if s[0] == "fin" and contains_return(s[1]):
            return True
        if s[0] == "with" and contains_return(s[3]):
            return True
        for part in s[1:]:
            if isinstance(part, list) and part and isinstance(part[0], tuple) and return_under_finally(part):
                return True
    return False


def return_under_terminator_finally(b):
    """try: return e / finally: <block that never falls through> (raise, break ...): the pending return value stays
    in the function result variable, which the error exit overwrites"""
    for s in b:
        if s[0] == "fin" and contains_return(s[1]) and s[2] and terminates(s[2][-1]):
            return True
        for part in s[1:]:
            if isinstance(part, list) and part and isinstance(part[0], tuple) and return_under_terminator_finally(part):
                return True
    return False


def loop_jump_at_level(b):
    """a break/continue in block b that targets a loop outside b"""
    for s in b:
        if s[0] in ("break", "continue"):
            return True
        if s[0] in ("for", "while"):
            continue
        for part in s[1:]:
            if isinstance(part, list) and part and isinstance(part[0], tuple) and loop_jump_at_level(part):
                return True
    return False


def return_cancelled_by_finally_jump(b):
    """loop: try: return e / finally: break|continue -- ReturnStatNode has already released the loop's temps
    (iterable, iterator) when the finally clause resumes the loop"""
    for s in b:
        if s[0] == "fin" and contains_return(s[1]) and loop_jump_at_level(s[2]):
            return True
        for part in s[1:]:
            if isinstance(part, list) and part and isinstance(part[0], tuple) and return_cancelled_by_finally_jump(part):
                return True
    return False


# always run: the shapes around a return value pending across a finally clause / __exit__ call
A0, A1, A2 = ("arg", 0), ("arg", 1), ("arg", 2)
ADD01 = ("op", "+", [A0, A1])
DIRECTED = [
    ("d000", [("fin", [("ret", ADD01)], [("expr", ("op", ".x", [A2]))])]),            # finally clause may raise
    ("d001", [("fin", [("ret", ADD01)], [("raise", ("call", A2, []))])]),             # finally clause always raises
    ("d002", [("fin", [("ret", ADD01)], [("expr", ("call", A2, [A0]))])]),
    ("d003", [("with", ("call", A2, []), None, [("ret", ADD01)])]),                    # __exit__ may raise
    ("d004", [("for", 0, ("seq", "list", [A0, A1]), [("fin", [("ret", ADD01)], [("break",)])], None), ("ret", A2)]),
    ("d005", [("fin", [("fin", [("ret", ADD01)], [("expr", ("op", ".x", [A2]))])], [("expr", ("op", ".y", [A2]))])]),
    ("d006", [("assign", 0, ("op", "<", [A0, A1])),
              ("expr", ("chain", "<", "<", A0, A1, ("op", ".x", [A2])))]),            # cascade with a fallible tail
]




def with_shapes():
    """always run: every exit of a with block (fall through, return, break, continue, raise, fault) x target kinds x
    manager counts x nesting in loops / try-finally / try-except.  With the runtime's __exit__ returning a T, the
    truth test of its result (made only on the exception exit) is a fault point of its own: its failure, the
    swallow and the re-raise outcome are all reached (the decisions of T.__bool__ vary with the object name)."""
    A3 = ("arg", 3)
    attr = lambda e, n: ("op", "." + n, [e])
    call = lambda f, *a: ("call", f, list(a))
    use = lambda e: ("expr", attr(e, "foo"))
    W = lambda items, body: ("withn", items, body)
    V = lambda i: ("loc", i)
    sh = [
        [W([(A0, None)], [use(A1)]), ("ret", A2)],
        [W([(A0, ("name", 0))], [use(V(0))])],
        [W([(attr(A0, "bar"), ("name", 0))], [("ret", ("op", "+", [V(0), A1]))])],
        [W([(call(A0), ("tuple", [0, 1]))], [("expr", ("op", "+", [V(0), V(1)]))])],
        [W([(A0, ("tuple", [0]))], [use(V(0))])],
        [W([(A0, ("attr", A1, "foo"))], [use(A2)])],
        [W([(A0, None), (A1, ("name", 0))], [use(V(0))]), ("ret", A2)],
        [W([(A0, ("name", 0)), (V(0), ("name", 1))], [("raise", call(A2))]), ("ret", A3)],
        [W([(A0, None)], [W([(A1, ("name", 0))], [use(A2)]), use(A3)]), ("ret", A3)],
        [("for", 0, A2, [W([(A0, None)], [("if", V(0), [("break",)], []), ("continue",)])], None), ("ret", A1)],
        [("for", 0, A2, [W([(A0, ("name", 1))], [use(V(1))]), ("continue",)], None)],
        [("fin", [W([(A0, None)], [use(A1)])], [use(A2)])],
        [("try", [W([(A0, None)], [("raise", call(A1))])], "Inject", None, [use(A2)], None), ("ret", A3)],
        [W([(A0, None)], [("raise", call(A1))]), ("ret", A2)],
        [W([(A0, None)], [("fin", [use(A1)], [use(A2)])])],
        [("while", A0, [W([(A1, None)], [use(A2), ("break",)])])],
        [("assign", 0, A1), W([(A0, ("name", 0))], [("expr", V(0))]), ("ret", V(0))],
        [W([(A0, ("name", 0))], [("for", 1, V(0), [("if", V(1), [("ret", V(1))], [])], None), use(A2)])],
        [W([(A0, None)], [("expr", ("in", False, A1, A2))]), ("expr", ("fstr", [A3], ":>4"))],
        [W([(call(A0, A1), None)], [("unpack", [0, 1], None, A2)]), ("ret", A3)],
    ]
    return [("s%03d" % i, b) for i, b in enumerate(sh)]


def chain_with_fallible_tail(x):
    """a cascaded comparison a < b < c whose LAST operand needs evaluation code that can raise"""
    if isinstance(x, (tuple, list)):
        if x and x[0] == "chain" and x[5][0] not in ("arg", "loc"):
            return True
        return any(chain_with_fallible_tail(y) for y in x)
    return False


def classify(body):
    """finding class from the program's constructs (coarse, input-derived)"""
    txt = json.dumps(body)
    for key in ("with", "fin", "try", "unpack", "genexp", "dcomp", "comp", "starcall", "kwcall", "mcall", "aug",
                "while", "for", "chain", "fstr"):
        if '"%s' % key in txt:
            return "imbalance_" + key
    return "imbalance_core"


def run(ctx):
    quick = ctx.tier == "quick"
    rng = ctx.rng
    n_core, n_wide = (30, 40) if quick else (150, 400)
    maxk = 40 if quick else 80
    progs = []
    for i in range(n_core):
        g = Gen(rng, True)
        body, _ = g.block(2, set(), False, n=rng.randrange(2, 5))
        progs.append(("c%03d" % i, body, True))
    for i in range(n_wide):
        g = Gen(rng, False)
        body, _ = g.block(2, set(), False, n=rng.randrange(2, 5))
        body = fix_dels(body, captured_locals(body))
        progs.append(("w%03d" % i, body, False))
    progs += [(n, b, False) for n, b in DIRECTED]
    progs += [(n, b, False) for n, b in with_shapes()]
    progs = prefilter(ctx, progs)
    chunks = [progs[i:i + 120] for i in range(0, len(progs), 120)]
    for ci, chunk in enumerate(chunks):
        run_chunk(ctx, "c35m%d" % ci, chunk, maxk, with_ledger=(ci == 0))
    for cand in ("c35m0", "c35m0a", "c35m0aa", "c35m0aaa"):
        nd = os.path.join(ctx.workdir, cand, "nanny")
        if os.path.exists(os.path.join(nd, "c35led" + cybuild.EXT)):
            ledger_tie(ctx, nd)
            break
    else:
        ctx.corr_break("refnanny_ledger", {}, "ledger module not built", "built")
    with open(os.path.join(ctx.workdir, "c35_failures.json"), "w") as f:
        json.dump({"fail": ctx.prop_failures, "corr": ctx.corr_breaks, "known": ctx.known_hits}, f, indent=1, default=str)


def run_chunk(ctx, name, chunk, maxk, with_ledger=False):
    source = "from c35rt import Inject\n\n" + "\n".join(func_source(fn, body) for fn, body, _ in chunk)
    wd = os.path.join(ctx.workdir, name)
    try:
        c_file = build_all(ctx, name, source, wd, with_ledger)
    except cybuild.BuildError as e:
        if len(chunk) > 1 and len(name) < 12:
            # a compiler crash / rejected program / generated C that gcc rejects is outside this property (C43):
            # bisect to keep the other programs
            h = len(chunk) // 2
            run_chunk(ctx, name + "a", chunk[:h], maxk, with_ledger)
            run_chunk(ctx, name + "b", chunk[h:], maxk, False)
        elif len(chunk) == 1 and not (e.stage == "cc" and chunk[0][2]):
            ctx.note("program rejected by the compiler%s (outside C35): %s: %s" % (
                " (invalid C)" if e.stage == "cc" else "", func_source(chunk[0][0], chunk[0][1])[:300], str(e)[-300:]))
            ctx.strata["compiler_rejected"] = ctx.strata.get("compiler_rejected", 0) + 1
        else:
            ctx.corr_break("build", {"module": name}, str(e)[-1500:], "builds")
        return
    funcs = [fn for fn, _, _ in chunk]
    ranges = c_ranges(open(c_file).read(), name, funcs)
    exit_order_tie(ctx, name, open(c_file).read())
    units, crashes = {}, []
    for mode in ("py", "cy", "nanny"):
        u, c = run_driver(wd, name, funcs, ranges, [mode], maxk)
        units.update(u)
        crashes += c
    bodies = {fn: (body, core) for fn, body, core in chunk}
    for c in crashes:
        body, core = bodies[c["f"]]
        if c["mode"] == "py":
            ctx.note("CPython run crashed on %s: %s" % (c["f"], c["err"][-200:]))
            continue
        ck = ("cascaded_cmp_dangling_temp" if chain_with_fallible_tail(body)
              else "return_cancelled_by_finally_loop_jump" if return_cancelled_by_finally_jump(body)
              else classify(body) + "_crash")
        ctx.fail(ck, {"source": func_source(c["f"], body), "mode": c["mode"]},
                 "process died rc=%s %s" % (c["rc"], c["err"][-300:]), "no crash")
    model_lines, model_keys = [], []
    for fn, body, core in chunk:
        src = func_source(fn, body)
        py, cy, nn = units.get(("py", fn)), units.get(("cy", fn)), units.get(("nanny", fn))
        if py is None or cy is None or nn is None:
            continue
        klass = classify(body)
        order_same = py[0]["log"] == cy[0]["log"]
        if not order_same:
            ctx.strata["order_differs_from_cpython"] = ctx.strata.get("order_differs_from_cpython", 0) + 1
        for k in range(len(cy)):
            inp = {"source": src, "k": k}
            ctx.case(("core" if core else "wide") + (":fault" if k else ":nofault"), inp, sig=(src, k))
            c, n = cy[k], (nn[k] if k < len(nn) else None)
            # --- property oracle: balance observations on both builds
            for tag, row in (("cy", c), ("nanny", n)):
                if row is None:
                    ctx.fail(klass, inp, "refnanny build made fewer calls than the plain build", "same call count")
                    continue
                leak_class = "finally_terminator_discards_return_value" if return_under_terminator_finally(body) else klass
                if row["live"] != 0:
                    ctx.fail(leak_class if row["live"] > 0 else klass, inp,
                             "%s build: %+d operand objects alive after the call" % (tag, row["live"]), "0")
                if any(row["rc"]):
                    ctx.fail(leak_class if min(row["rc"]) >= 0 else klass, inp,
                             "%s build: argument refcount deltas %r" % (tag, row["rc"]), "all 0")
                if row.get("nanny"):
                    only_leak = "Too many" not in row["nanny"] and "NULL" not in row["nanny"]
                    over = "Too many decrefs" in row["nanny"] and "leaked" not in row["nanny"]
                    kl = leak_class if only_leak else klass
                    if over and chain_with_fallible_tail(body):
                        kl = "cascaded_cmp_dangling_temp"
                    ctx.fail(kl, inp, "refnanny: " + row["nanny"][:300], "no refnanny report")
            if n is not None and (n["out"], n["log"]) != (c["out"], c["log"]):
                ctx.fail(klass, inp, "refnanny build: %s" % n["out"], "plain build: %s" % c["out"])
            # --- property oracle: CPython on the same source and fault
            if order_same and k < len(py):
                p = py[k]
                pl, cl = p["log"].split(), c["log"].split()
                bump = lambda key: ctx.strata.__setitem__(key, ctx.strata.get(key, 0) + 1)
                if pl[:k] != cl[:k]:
                    # the k-th call is a different operation in the two runs (evaluation order differs on a path
                    # only reached after an earlier... or at this fault): not comparable, an order matter (C20)
                    bump("fault_lands_on_different_operation")
                elif p["out"].startswith("exc ") and c["out"].startswith("exc "):
                    # both runs end in a NON-injected exception (e.g. 'with []': TypeError vs AttributeError,
                    # or {}.foo(args) looking the method up after the arguments): C01 / C20 matters
                    if (p["out"], pl) != (c["out"], cl):
                        bump("noninjected_exception_type_differs")
                elif p["out"] != c["out"] or sorted(pl) != sorted(cl):
                    ctx.fail(klass + "_outcome", inp, c["out"] + " | " + c["log"][-160:], p["out"] + " | " + p["log"][-160:])
                elif pl != cl:
                    bump("call_order_differs_after_fault")        # e.g. o.m(args): method looked up after the args
                if p["live"] != 0 or any(p["rc"]):
                    ctx.note("harness: CPython itself left live=%s rc=%s on %s k=%d" % (p["live"], p["rc"], fn, k))
            # --- model tie (core fragment): refnanny event order vs extracted model
            if core and n is not None and n["out"].startswith("exc "):
                ctx.strata["core:natural_exception_no_tie"] = ctx.strata.get("core:natural_exception_no_tie", 0) + 1
            elif core and n is not None:
                model_lines.append("run %d %s %s" % (k, n["dec"], " ".join(TB(body))))
                model_keys.append((inp, n["ev"], n["out"]))
    if model_lines:
        outs = ctx.model("refs").batch(model_lines)
        for (inp, ev, out), m in zip(model_keys, outs):
            kind = "ok" if out.startswith("ok") else "err"
            impl = "%s %s" % (kind, canon(ev))
            mw = m.split(" ", 1)
            mod = "%s %s" % (mw[0], canon("" if len(mw) < 2 or mw[1] == "-" else mw[1], model=True)) if mw[0] in ("ok", "err") else m
            ctx.traces_validated += 1
            if mod != impl:
                ctx.corr_break("refnanny_event_sequence", inp, impl, mod)


def exit_call_sites(c_text):
    """emission order of every WithExitCallNode site in the generated C: [(line, test, has_args_temp, op codes)];
    op codes as in M_Refs.exit_order (0 call, 1 DECREF exit_var, 2 DECREF args, 3 NULL test, 4 GOTREF result,
    5 IsTrue, 6 DECREF result, 7 error test of the truth value)"""
    lines = c_text.split("\n")
    exit_vars = set(re.findall(r"(__pyx_t_\d+) = __Pyx_PyObject_LookupSpecial\([^;]*__pyx_n_u_exit\)", c_text))
    out = []
    for i, l in enumerate(lines):
        m = re.match(r"\s*(__pyx_t_\d+) = __Pyx_PyObject_Call\((__pyx_t_\d+), ([^,]+), NULL\);\s*$", l)
        if not m or m.group(2) not in exit_vars:
            continue
        resv, ex, args = m.groups()
        ops, tv = [0], None
        for l2 in lines[i + 1:i + 14]:
            l2 = l2.strip()
            if l2.startswith("__Pyx_DECREF(%s);" % ex):
                ops.append(1)
            elif l2.startswith("__Pyx_DECREF(%s);" % args):
                ops.append(2)
            elif l2.startswith("if (unlikely(!%s))" % resv):
                ops.append(3)
            elif l2.startswith("__Pyx_GOTREF(%s)" % resv):
                ops.append(4)
            elif "= __Pyx_PyObject_IsTrue(%s)" % resv in l2:
                ops.append(5)
                tv = l2.split(" = ")[0]
            elif l2.startswith("__Pyx_DECREF(%s);" % resv):
                ops.append(6)
            elif tv and re.match(r"if \((unlikely\()?\(?%s < \(?0\)?" % re.escape(tv), l2):
                ops.append(7)
            elif l2.startswith("}") or l2.startswith("goto ") or l2.startswith("__pyx_t_") and "= (!" in l2:
                break
        out.append((i + 1, tv is not None, args.startswith("__pyx_t_"), ops))
    return out


def exit_order_tie(ctx, name, c_text):
    """model (M_Refs.exit_order, the order exit_call implements and C35_with_exit_call_balanced is about) vs the
    statement order the compiler under test emits at every __exit__ call site of the module"""
    sites = exit_call_sites(c_text)
    if not sites:
        return
    mod = {}
    for t in (0, 1):
        mod[t] = [int(x) for x in ctx.model("refs").batch(["exitorder 0 %d" % t])[0].split(",")]
    for line, test, has_args, ops in sites:
        want = [o for o in mod[1 if test else 0] if has_args or o != 2]
        ctx.case("exit_site:" + ("except" if test else "finally"), {"module": name, "c_line": line}, sig=("exit", name, line))
        ctx.traces_validated += 1
        if ops != want:
            ctx.corr_break("with_exit_emission_order", {"module": name, "c_line": line, "test": test}, ops, want)


# ------------------------------------------------------------------------------------------------
LEDGER_PYX = r"""
from cpython.ref cimport PyObject
cdef extern from *:
    void __Pyx_INCREF(PyObject*)
    void __Pyx_DECREF(PyObject*)
    void __Pyx_GOTREF(PyObject*)
    void __Pyx_GIVEREF(PyObject*)
    PyObject* PyList_GET_ITEM(object, Py_ssize_t)
def play(list objs, bytes ops):
    cdef Py_ssize_t j, n = len(ops) // 2
    cdef const unsigned char* s = ops
    cdef PyObject* p
    for j in range(n):
        p = PyList_GET_ITEM(objs, s[2 * j + 1])
        if s[2 * j] == 0:
            __Pyx_INCREF(p)
        elif s[2 * j] == 1:
            __Pyx_DECREF(p)
        elif s[2 * j] == 2:
            __Pyx_GOTREF(p)
        else:
            __Pyx_GIVEREF(p)
    return None
"""

LEDGER_DRIVER = r"""
import sys, os, io, json, re
sys.path.insert(0, os.getcwd())
import refnanny
assert refnanny.__file__.startswith(os.getcwd())
import c35led
objs = [None, True, False, Ellipsis, NotImplemented]      # immortal in CPython 3.12: real DECREFs are harmless
scripts = json.load(sys.stdin)
out = []
for sc in scripts:
    buf = io.StringIO(); old = sys.stdout; sys.stdout = buf
    try:
        c35led.play(objs, bytes(sc))
    finally:
        sys.stdout = old
    txt = buf.getvalue()
    errs = len(re.findall(r"REFNANNY: Too many decrefs", txt))
    leaks = sorted(int(x) for x in re.findall(r"^  \((\d+)\) acquired on lines", txt, re.M))
    out.append([errs, leaks, len(re.findall(r"NULL argument", txt))])
print(json.dumps(out))
"""


def ledger_tie(ctx, nanny_dir):
    """random INCREF/DECREF/GOTREF/GIVEREF scripts executed inside one refnanny context: verdict of the real
    refnanny.pyx Context (reports printed by FinishContext) vs the extracted ledger the theorems are stated over."""
    rng = ctx.rng
    n = 300 if ctx.tier == "quick" else 3000
    scripts = []
    for i in range(n):
        ln = rng.randrange(0, 14)
        nobj = rng.randrange(1, 6)
        mode = rng.randrange(3)
        sc, held = [], []
        for _ in range(ln):
            o = rng.randrange(nobj)
            if mode == 0 or rng.random() < 0.25:          # unconstrained
                op = rng.randrange(4)
            elif held and rng.random() < 0.5:             # mostly balanced
                o = held.pop(rng.randrange(len(held))); op = rng.choice([1, 3])
            else:
                op = rng.choice([0, 2]); held.append(o)
            sc += [op, o]
        if mode == 2:
            for o in held:
                sc += [rng.choice([1, 3]), o]
        scripts.append(sc)
    r = cybuild.run_script(LEDGER_DRIVER, nanny_dir, stdin_obj=scripts, name="c35_ledger_driver.py")
    if r["json"] is None:
        ctx.corr_break("refnanny_ledger", {"driver": "failed"}, (r["err"] or r["out"])[-800:], "runs")
        return
    lines = []
    for sc in scripts:
        evs = ",".join(("+" if sc[i] in (0, 2) else "-") + str(sc[i + 1]) for i in range(0, len(sc), 2)) or "-"
        lines.append("nanny 0,1,2,3,4 %s" % evs)
    outs = ctx.model("refs").batch(lines)
    for sc, impl, m in zip(scripts, r["json"], outs):
        implt = "%d %s" % (impl[0], ",".join(map(str, impl[1])) or "-")
        mw = m.split()
        mt = "%s %s" % (mw[0], ",".join(map(str, sorted(int(x) for x in mw[1].split(",")))) if mw[1] != "-" else "-")
        bal = impl[0] == 0 and not impl[1]
        ctx.case("ledger:" + ("balanced" if bal else "imbalanced"), {"script": sc}, sig=("led", tuple(sc)))
        if impl[2]:
            ctx.corr_break("refnanny_ledger", {"script": sc}, "NULL argument reported", m)
        if implt != mt:
            ctx.corr_break("refnanny_ledger", {"script": sc}, implt, mt)
