"""C18 helper (not a property): f-strings as part lists.  Generator of part lists over every static operand class,
printer to source, front-end dump of the rewritten node lists (ConstantFolding / analyse_types / FinalOptimizePhase),
parser of the join arguments in the generated C, worker that runs the compiled functions and CPython on the same
source text with call-logging objects.  Model: coq/theories/Model/M_FStr.v through ocaml/drv_fstr.ml."""
import json, os, re
import cybuild

# After proposed_fixes/C18-padded_c_format_in_join_kind_ignored.diff is applied to /repo set the default to "1".
FX_CKIND = os.environ.get("C18_FX_CKIND", "1")

# variables of every generated function: (name, declaration, class id of the model, class name)
VARS = [("ci", "int ci", 0, "cint"), ("cd", "double cd", 1, "cdouble"), ("cb", "bint cb", 2, "bint"),
        ("sn", "str sn not None", 3, "str"), ("so", "str so", 4, "str-or-None"), ("by", "bytes by", 5, "bytes"),
        ("pi", "pi: int", 5, "pyint"), ("li", "list li", 5, "list"), ("ob", "ob", 6, "object"), ("wi", "int wi", 0, "cint")]
VIDX = {v[0]: i for i, v in enumerate(VARS)}
PY_SIG = ", ".join(v[0] for v in VARS) + ", out"
CY_SIG = ", ".join(v[1] for v in VARS) + ", out"
# literal specs per variable: (text, accepted by type.can_coerce_to_pystring)
LIT_SPECS = {"ci": [("5d", 1), ("05", 1), ("x", 1), (">5", 1), ("3c", 1), ("03c", 1), ("c", 1), ("1c", 1), ("<5", 0), (",", 0)],
             "cd": [(".2f", 1), ("e", 1), (">8", 0), ("08.1f", 0)], "cb": [("d", 1), ("3", 1), ("<3", 0)],
             "sn": [(">5", 0), ("^7.2", 0)], "so": [(">5", 0), ("^7.2", 0)], "by": [], "pi": [("x", 0), ("05", 0)],
             "li": [], "ob": [("abc", 0), (">4", 0)], "wi": [("2", 1)]}
CONVS = ["n", "s", "r", "a"]
LITS = [("a", "a"), ("|", "|"), ("=", "="), ("é", "é"), ("€", "€"), ("{{", "{"), ("}}", "}"), ("%", "%"),
        ("\U0001f600", "\U0001f600"), (" ", " ")]
CONSTS = [("5", "i", "5"), ("True", "i", "True"), ("'x'", "s", "x"), ("''", "s", ""), ("'q'", "s", "q")]
# value tuples: every class gets values whose str/repr/ascii differ where they can
VALUES = [
    {"ci": 65, "cd": 1.5, "cb": True, "sn": "abc", "so": "it's", "by": b"ab", "pi": 5, "li": [1, "a"], "wi": 3},
    {"ci": 0x20AC, "cd": -0.0, "cb": False, "sn": "grüß", "so": None, "by": b"\xff'", "pi": -10 ** 20, "li": [], "wi": 0},
    {"ci": 0x1F600, "cd": 1e300, "cb": True, "sn": "", "so": "€\U0001f600", "by": b"", "pi": 0, "li": ["é"], "wi": 7},
    {"ci": 233, "cd": float("inf"), "cb": False, "sn": "a\nb", "so": "", "by": b"'\"", "pi": 255, "li": [["x"]], "wi": 1},
]


def cps(t):
    return ",".join(str(ord(c)) for c in t) if t else "-"


# ---------------------------------------------------------------------------------------------- parts
# part = ("L", src, text) | ("P", var, conv, spec, dbg) | ("K", src, kind, text, conv, spec)
# spec = None | ("lit", text) | ("nest", [inner parts over wi])        dbg = "" | "=" | " = " (debug specifier)
def spec_src(spec):
    if spec is None:
        return ""
    if spec[0] == "lit":
        return ":" + spec[1]
    return ":" + "".join(part_src(p) for p in spec[1])


def part_src(p):
    if p[0] == "L":
        return p[1]
    if p[0] == "P":
        _, var, conv, spec, dbg = p
        return "{" + var + dbg + ("" if conv == "n" else "!" + conv) + spec_src(spec) + "}"
    _, src, kind, text, conv, spec = p
    return "{" + src + ("" if conv == "n" else "!" + conv) + spec_src(spec) + "}"


def fstring_src(parts):
    body = "".join(part_src(p) for p in parts)
    return 'f"' + body + '"'


def percent_src(parts):
    """the same part list as a %-template (ConstantFolding._build_fstring), or None when not expressible"""
    tmpl, args = "", []
    for p in parts:
        if p[0] == "L":
            if p[2] in "{}":
                tmpl += p[2]
            else:
                tmpl += p[2].replace("%", "%%")
        elif p[0] == "P" and p[2] in "sra" and p[4] == "" and p[3] is None:
            tmpl += "%" + p[2]
            args.append(p[1])
        else:
            return None
    if not args:
        return None
    return repr(tmpl) + " % (" + ", ".join(args) + ",)"


def model_parts(parts, dyn):
    """tokens for drv_fstr; nested specs get ids (appended to dyn as inner part lists)"""
    out = []
    for p in parts:
        if p[0] == "L":
            out.append("L" + cps(p[2]))
            continue
        if p[0] == "P":
            _, var, conv, spec, dbg = p
            if dbg:
                out.append("L" + cps(var + dbg))
                if conv == "n" and spec is None:
                    conv = "r"
            op = "v%d.%d" % (VIDX[var], VARS[VIDX[var]][2])
            acc = dict(LIT_SPECS[var])
        else:
            _, src, kind, text, conv, spec = p
            op = kind + cps(text)
            acc = {}
        if spec is None:
            sp = "-"
        elif spec[0] == "lit":
            sp = "l%d.%s" % (acc.get(spec[1], 0), cps(spec[1]))
        else:
            sp = "d%d" % len(dyn)
            dyn.append(spec[1])
        out.append("P%s:%s:%s" % (op, conv, sp))
    return out


def gen_cases(rng, quick):
    """list of part lists: (a) every variable formatted two/three times in one f-string with every pair of
    conversions and every pair of spec kinds; (b) constants, empty parts, debug specifiers, shapes of 0..2 parts;
    (c) random part lists of length 0..6 over all part kinds"""
    cases = []
    L = lambda s: ("L", s, s)
    nest1 = ("nest", [("P", "wi", "n", None, "")])
    nest2 = ("nest", [("L", ">", ">"), ("P", "wi", "n", None, "")])
    nest3 = ("nest", [("P", "wi", "n", None, ""), ("P", "wi", "n", None, ""), ("P", "wi", "s", None, "")])
    for var, decl, k, cname in VARS:
        # (a1) conversions: all ordered pairs, same variable, no spec (the de-duplication key's conversion part)
        for c1 in CONVS:
            for c2 in CONVS:
                cases.append([("P", var, c1, None, ""), L("="), ("P", var, c2, None, "")] +
                             ([L("|")] if (c1 + c2) != "nn" or True else []))
        # three occurrences, the first two equal
        for c1, c2, c3 in (("r", "r", "n"), ("n", "s", "r"), ("a", "r", "a"), ("s", "n", "n")):
            cases.append([("P", var, c1, None, ""), ("P", var, c2, None, ""), ("P", var, c3, None, "")])
        # (a2) spec kinds: none / empty / literal / nested, ordered pairs (C numbers: conversions ignored with a spec
        # are a registered class of their own, so specs come without conversion there)
        kinds = [None, ("lit", "")] + [("lit", s) for s, a in LIT_SPECS[var][:(3 if quick else 99)]]
        if var in ("ci", "cd", "sn", "so", "pi", "ob"):
            kinds += [nest1] + ([nest2] if not quick else [])
        for s1 in kinds:
            for s2 in kinds:
                if quick and s1 != s2 and (s1 is not None or s2 != kinds[2 % len(kinds)]) and rng.random() < 0.7:
                    continue
                cases.append([("P", var, "n", s1, ""), L("|"), ("P", var, "n", s2, ""), L("|"), ("P", var, "n", s1, "")])
        if var not in ("ci", "cd", "cb", "wi", "by", "li"):
            for s1 in kinds[2:4]:
                cases.append([("P", var, "r", s1, ""), L("|"), ("P", var, "r", s1, ""), L("|"), ("P", var, "s", s1, "")])
        # (b) debug specifier
        cases.append([("P", var, "n", None, "="), ("P", var, "n", None, "="), ("P", var, "s", None, " = ")])
    cases.append([("P", "ci", "n", nest3, ""), L("|"), ("P", "ci", "n", nest3, "")])
    cases.append([("P", "ob", "n", nest3, ""), ("P", "ob", "r", None, ""), ("P", "ob", "r", None, "")])
    # padded c in joins of every length, before/after other values (the kind of the result)
    for sp in ("3c", "03c", "c", "1c"):
        cases.append([("P", "ci", "n", ("lit", sp), ""), L("|"), ("P", "ci", "n", ("lit", sp), ""), L("|x")])
        cases.append([L("a"), ("P", "ci", "n", ("lit", sp), ""), L("b"), ("P", "ci", "n", None, ""), L("c")])
        cases.append([("P", "ci", "n", ("lit", sp), ""), ("P", "so", "n", None, ""), ("P", "ci", "n", ("lit", sp), "")])
    # (b) shapes and constants
    cases += [[], [L("")], [L("a")], [("K", "''", "s", "", "n", None)], [("K", "5", "i", "5", "r", ("lit", ""))],
              [("P", "so", "n", None, "")], [("P", "sn", "s", None, "")], [("P", "ob", "r", None, "")],
              [L("a"), ("P", "so", "n", None, "")], [("P", "so", "r", None, ""), ("P", "so", "n", None, "")],
              [L("a"), ("K", "''", "s", "", "n", None), L("b"), ("P", "so", "n", None, "")],
              [L("a"), ("K", "'x'", "s", "x", "n", None), L("b")],
              [("K", "'q'", "s", "q", "r", None), ("K", "'q'", "s", "q", "r", None), ("K", "'q'", "s", "q", "n", ("lit", ">3"))],
              [("K", "5", "i", "5", "n", None), ("K", "True", "i", "True", "r", None), ("P", "ci", "n", None, ""), ("K", "5", "i", "5", "a", None)]]
    # (c) random
    nrand = 50 if quick else 500
    for _ in range(nrand):
        n = rng.choice([0, 1, 2, 3, 3, 4, 4, 5, 5, 6, 6])
        pool = rng.sample([v[0] for v in VARS if v[0] != "wi"], rng.choice([1, 1, 2, 3]))
        ps = []
        for _ in range(n):
            r = rng.random()
            if r < 0.3:
                s, t = rng.choice(LITS)
                ps.append(("L", s, t))
            elif r < 0.38:
                src, kind, text = rng.choice(CONSTS)
                conv = rng.choice(["n", "n", "s", "r"])
                ps.append(("K", src, kind, text, conv, rng.choice([None, None, ("lit", "")] + ([("lit", ">3")] if kind == "s" else []))))
            else:
                var = rng.choice(pool)
                cnum = var in ("ci", "cd", "cb")
                spec = rng.choice([None, None, None, ("lit", "")] + [("lit", s) for s, a in LIT_SPECS[var]] +
                                  ([nest1, nest2] if var in ("ci", "cd", "sn", "so", "pi", "ob") else []))
                conv = "n" if (cnum and spec is not None and spec != ("lit", "")) else rng.choice(CONVS)
                dbg = rng.choice(["", "", "", "", "="]) if spec is None else ""
                ps.append(("P", var, conv, spec, dbg))
        cases.append(ps)
    return cases


def classify(parts, vals):
    """class of a failing f-string from the input only"""
    nparts = len(parts)
    for p in parts:
        if p[0] == "P" and p[1] == "ci" and p[3] is not None and p[3][0] == "lit" and len(p[3][1]) > 1 and \
                p[3][1].endswith("c") and nparts >= 3 and vals["ci"] >= 256 and FX_CKIND != "1":
            return "padded_c_format_in_join_kind_ignored"
    return "fstring_assembly_wrong"


# ---------------------------------------------------------------------------------------------- sources
PER_FUNC = 40


def module_sources(items):
    """items: [(source expression)]; -> (pyx text, py text, [(func index, line)]) ; one expression per line"""
    cy = ["# cython: language_level=3", ""]
    py = [""]
    where = []
    for f in range(0, len(items), PER_FUNC):
        cy.append("def g%d(%s):" % (f // PER_FUNC, CY_SIG))
        py.append("def g%d(%s):" % (f // PER_FUNC, PY_SIG))
        for k, src in enumerate(items[f:f + PER_FUNC]):
            body = ["    try:", "        r = " + src, "        out(%d, r)" % (f + k),
                    "    except Exception as e:", "        out(%d, e)" % (f + k)]
            cy += body
            py += body
            where.append((f // PER_FUNC, len(cy) - 3))     # 1-based line of the `r = ...` line
        cy.append("")
        py.append("")
    return "\n".join(cy), "\n".join(py), where


FRONT = r'''
import sys, json, os, io
import pyload; pyload.install()
spec = json.load(sys.stdin)
from Cython.Compiler import Main, Options, Errors, ExprNodes, Optimize, Nodes, Visitor
pyload.assert_sources()
def vname(n):
    if isinstance(n, ExprNodes.CoerceToPyTypeNode): return vname(n.arg)
    if isinstance(n, ExprNodes.NameNode): return n.name
    if isinstance(n, ExprNodes.UnicodeNode): return ["s", str(n.value)]
    return "?" + type(n).__name__
def desc(n, sibs=None):
    if isinstance(n, ExprNodes.UnicodeNode): return ["L", str(n.value)]
    if isinstance(n, ExprNodes.JoinedStrNode): return ["J", [desc(v, n.values) for v in n.values]]
    if isinstance(n, ExprNodes.FormattedValueNode):
        return ["F", vname(n.value), n.conversion_char, n.c_format_spec, None if n.format_spec is None else desc(n.format_spec)]
    if isinstance(n, ExprNodes.CloneNode):
        return ["C", [i for i, s in enumerate(sibs or []) if s is n.arg]]
    if isinstance(n, ExprNodes.AddNode): return ["+", desc(n.operand1), desc(n.operand2)]
    if isinstance(n, ExprNodes.PythonCapiCallNode): return ["U", n.function.name, [vname(a) for a in n.args]]
    if isinstance(n, ExprNodes.CoerceToPyTypeNode): return desc(n.arg)
    if isinstance(n, ExprNodes.NameNode): return ["N", n.name]
    return ["?", type(n).__name__]
REC = {}
class W(Visitor.TreeVisitor):
    def visit_Node(self, node):
        self.visitchildren(node)
    def visit_SingleAssignmentNode(self, node):
        if getattr(node.lhs, "is_name", False) and node.lhs.name == "r":
            REC[node.pos[1]] = desc(node.rhs)
        self.visitchildren(node)
orig = Optimize.FinalOptimizePhase.__call__
def call(self, root):
    r = orig(self, root)
    W().visit(r)
    return r
Optimize.FinalOptimizePhase.__call__ = call
directives = dict(Options.get_directive_defaults()); directives["language_level"] = 3
src = os.path.join(spec["dir"], spec["name"] + ".pyx")
err = io.StringIO(); old = sys.stderr; sys.stderr = err
try:
    opts = Main.CompilationOptions(Main.default_options, compiler_directives=directives, output_file=src[:-4] + ".c")
    res = Main.compile(src, opts)
    n = res.num_errors
except BaseException as e:
    n = -1; err.write(repr(e))
finally:
    sys.stderr = old
print(json.dumps({"errors": n, "stderr": err.getvalue()[-3000:], "rec": {str(k): v for k, v in REC.items()}}))
'''

WORKER = r'''
import sys, json
spec = json.load(sys.stdin)
LOG = []
class Ob:
    def __format__(self, s):
        LOG.append("f:" + s); return "F%d<%s>" % (len(LOG), s)
    def __repr__(self):
        LOG.append("r"); return "R%d\xe9" % len(LOG)
    def __str__(self):
        LOG.append("s"); return "S%d" % len(LOG)
ns = {}
exec(compile(open(spec["py"]).read(), spec["py"], "exec"), ns)
import importlib
mod = importlib.import_module(spec["name"])
def run(fn, vals):
    res = {}
    def out(k, r):
        res[k] = [r if isinstance(r, str) else ["!" + type(r).__name__], list(LOG)]
        del LOG[:]
    v = dict(vals); v["cd"] = float.fromhex(v["cd"]); v["by"] = bytes(v["by"]); v["ob"] = Ob()
    del LOG[:]
    try:
        fn(v["ci"], v["cd"], v["cb"], v["sn"], v["so"], v["by"], v["pi"], v["li"], v["ob"], v["wi"], out)
    except BaseException as e:
        res["crash"] = repr(e)[:300]
    return res
outp = []
for f in range(spec["nfunc"]):
    for vi, vals in enumerate(spec["values"]):
        print(json.dumps({"at": [f, vi]}), flush=True)
        outp.append([f, vi, run(getattr(mod, "g%d" % f), vals), run(ns["g%d" % f], vals)])
print(json.dumps({"results": outp}))
'''


# ---------------------------------------------------------------------------------------------- C text
def join_calls(ctext):
    """every __Pyx_PyUnicode_Join call of the generated C in order: (count, known_len, {index: factor}, lit_kind, [indices])"""
    out = []
    lines = ctext.split("\n")
    for n, line in enumerate(lines):
        m = re.search(r"= __Pyx_PyUnicode_Join\((\w+), (\d+), (\w+), (\w+)\);", line)
        if not m:
            continue
        arr, cnt, lt, kt = m.group(1), int(m.group(2)), m.group(3), m.group(4)
        blk = lines[max(0, n - 40):n]

        def collect(tmp, macro):
            start = max(i for i, l in enumerate(blk) if re.match(r"\s*%s = (\d+);" % re.escape(tmp), l))
            const = int(re.match(r"\s*%s = (\d+);" % re.escape(tmp), blk[start]).group(1))
            terms = {}
            j = start + 1
            while j < len(blk):
                l = blk[j]
                if re.match(r"\s*\w+ = \d+;", l) or "__Pyx_PyUnicode_Join(" in l:
                    break
                mf = re.match(r"\s*for \(Py_ssize_t i=(\d+); i <= (\d+); i \+= (\d+)\) \{", l)
                if mf:
                    for i in range(int(mf.group(1)), int(mf.group(2)) + 1, int(mf.group(3))):
                        terms[i] = 1
                    j += 1
                    while j < len(blk) and not blk[j].startswith("  #endif"):
                        for mc in re.finditer(r"((?:case \d+: )+)l \*= (\d+); break;", blk[j]):
                            for ci in re.findall(r"case (\d+):", mc.group(1)):
                                terms[int(ci)] = int(mc.group(2))
                        j += 1
                    break
                if (tmp + " +=") in l or (tmp + " |=") in l:
                    for mt in re.finditer(r"%s\(%s\[(\d+)\]\)(?: \* (\d+))?" % (macro, re.escape(arr)), l):
                        terms[int(mt.group(1))] = int(mt.group(2) or 1)
                j += 1
            return const, terms
        try:
            known, lterms = collect(lt, "__Pyx_PyUnicode_GET_LENGTH")
            kconst, kterms = collect(kt, "__Pyx_PyUnicode_KIND_04")
        except Exception as e:
            out.append(("unparsed", repr(e), n))
            continue
        out.append((cnt, known, lterms, kconst, sorted(kterms)))
    return out


# ---------------------------------------------------------------------------------------------- compare
def desc_tokens(d, inner):
    """front-end description -> (shape tag, [node tokens in the model's syntax without the spec acceptance bit]);
    nested spec descriptions are collected in `inner` (compared against the model's rewrite of the inner list)"""
    def node(x):
        if x[0] == "L":
            return "L" + cps(x[1])
        if x[0] == "N":
            return "N%d" % VIDX.get(x[1], -1)
        if x[0] == "U":
            return "U%d" % VIDX.get(x[2][0], -1) if x[1] == "unicode" and len(x[2]) == 1 else "?U"
        if x[0] == "C":
            return "C%d" % x[1][0] if len(x[1]) == 1 else "?C"
        if x[0] == "F":
            _, v, conv, cf, sp = x
            if isinstance(v, list):
                op = "s" + cps(v[1])
            elif v in VIDX:
                op = "v%d.%d" % (VIDX[v], VARS[VIDX[v]][2])
            else:
                op = v
            if sp is None:
                s = "-"
            elif sp[0] == "L":
                s = "l." + cps(sp[1])
            else:
                s = "d%d" % len(inner)
                inner.append(sp)
            return "F%s:%s:%s:%s" % (op, conv or "n", "~" if cf is None else cps(cf), s)
        return "?" + str(x[0])
    if d[0] == "J":
        return "J", [node(x) for x in d[1]]
    if d[0] == "+":
        return "A", [node(d[1]), node(d[2])]
    if d[0] == "L" and d[1] == "":
        return "E", []
    return "O", [node(d)]


def model_tokens(line):
    """model output -> (tag, nodes without acceptance bit, known_len, {i: f}, lit_kind, [i])"""
    head, ln, kd = [x.strip() for x in line.split("|")]
    toks = head.split()
    nodes = [re.sub(r":l[01]\.", ":l.", t) for t in toks[1:]]
    _, known, terms = ln.split()
    _, lk, kt = kd.split()
    lterms = {} if terms == "-" else {int(a.split("*")[0]): int(a.split("*")[1]) for a in terms.split(",")}
    return toks[0], nodes, int(known), lterms, int(lk), ([] if kt == "-" else [int(x) for x in kt.split(",")])


# ---------------------------------------------------------------------------------------------- driver
def prepare(ctx, quick):
    """generate the corpus and write the sources (fast, main thread: uses ctx.rng)"""
    cases = gen_cases(ctx.rng, quick)
    items = []          # (source, parts, form)
    for ps in cases:
        items.append((fstring_src(ps), ps, "fstring"))
        pc = percent_src(ps)
        if pc is not None and (not quick or ctx.rng.random() < 0.5):
            items.append((pc, ps, "percent"))
    cy, py, where = module_sources([it[0] for it in items])
    wd = ctx.workdir
    with open(os.path.join(wd, "c18_fstr.pyx"), "w", encoding="utf8") as f:
        f.write(cy)
    with open(os.path.join(wd, "c18_fstr_py.py"), "w", encoding="utf8") as f:
        f.write(py)
    return {"items": items, "where": where, "wd": wd}


def build(st):
    """front end with the node dump, then gcc (runs in a side thread during the other builds)"""
    wd = st["wd"]
    r = cybuild.run_script(FRONT, wd, {"dir": wd, "name": "c18_fstr"}, timeout=3000, name="c18_fstr_front.py")
    st["front"] = r["json"] if isinstance(r["json"], dict) else {"errors": -2, "stderr": (r["err"] or r["out"])[-3000:], "rec": {}}
    if st["front"]["errors"] == 0:
        rc, err = cybuild.cc(os.path.join(wd, "c18_fstr.c"), os.path.join(wd, "c18_fstr" + cybuild.EXT), cflags=["-O0"])
        st["cc"] = (rc, err[-2000:])
    return st


def check(ctx, st, model, nbad):
    quick = ctx.tier == "quick"
    items, where, wd = st["items"], st["where"], st["wd"]
    fr = st["front"]
    if fr["errors"] != 0 or st.get("cc", (1, ""))[0] != 0:
        ctx.corr_break("build c18_fstr", "c18_fstr", (fr["stderr"] or "") + str(st.get("cc")), "module builds")
        return
    rec = fr["rec"]
    # ---- model rewrite of every part list (nested specs: separate queries), compared with the compiler's node lists
    queries, qmeta, dyns = [], [], []
    for k, (src, ps, form) in enumerate(items):
        dyn = []
        queries.append("opt 1 1 %s %s" % (FX_CKIND, " ".join(model_parts(ps, dyn))))
        qmeta.append(("top", k, None))
        for j, inner in enumerate(dyn):
            d2 = []
            queries.append("opt 1 1 %s %s" % (FX_CKIND, " ".join(model_parts(inner, d2))))
            qmeta.append(("inner", k, j))
    mres = model.batch(queries)
    # a nested spec inside a value of a 3+-part f-string is not visited by the late pass: no de-duplication there
    for q, ((kind, k, j), line) in enumerate(zip(qmeta, mres)):
        if kind == "top":
            cur = line.split()[0]
        elif cur == "J":
            queries[q] = "optin" + queries[q][3:]
    redo = [q for q, (kind, k, j) in enumerate(qmeta) if kind == "inner" and queries[q].startswith("optin")]
    for q, line in zip(redo, model.batch([queries[q] for q in redo])):
        mres[q] = line
    top, inner_m = {}, {}
    for (kind, k, j), line in zip(qmeta, mres):
        if line.startswith("!"):
            ctx.corr_break("fstr:model-query", items[k][0], line, "model output")
            return
        if kind == "top":
            top[k] = model_tokens(line)
        else:
            inner_m[(k, j)] = model_tokens(line)
    expected_joins = []          # post-order: nested spec joins first
    for k, (src, ps, form) in enumerate(items):
        inp = {"form": form, "source": src, "func": "c18_fstr.g%d" % where[k][0], "item": k}
        d = rec.get(str(where[k][1]))
        tag, nodes, known, lterms, lk, kterms = top[k]
        nph = sum(1 for p in ps if p[0] != "L")
        ctx.case("fstr-tree/%s/%s/parts%d" % (form, tag, min(len(ps), 6)), inp, sig=("fstr-tree", src))
        if d is None:
            ctx.corr_break("fstr:node-dump-missing", inp, None, nodes)
            continue
        inner_d = []
        dtag, dnodes = desc_tokens(d, inner_d)
        if (dtag, dnodes) != (tag, nodes):
            ctx.corr_break("fstr:rewritten-node-list (compiler vs model)", inp, [dtag] + dnodes, [tag] + nodes)
        for j, dsp in enumerate(inner_d):
            if (k, j) not in inner_m:
                ctx.corr_break("fstr:nested-spec-count", inp, len(inner_d), "fewer")
                break
            itag, inodes = inner_m[(k, j)][:2]
            jtag, jnodes = desc_tokens(dsp, [])
            if (jtag, jnodes) != (itag, inodes):
                ctx.corr_break("fstr:nested-spec-node-list (compiler vs model)", inp, [jtag] + jnodes, [itag] + inodes)
            if itag == "J":
                expected_joins.append((k, inner_m[(k, j)]))
        if tag == "J":
            expected_joins.append((k, top[k]))
    # ---- join arguments in the generated C
    calls = join_calls(open(os.path.join(wd, "c18_fstr.c"), encoding="utf8").read())
    ctx.case("fstr-join-args/count", len(calls), sig=("fstr-joins",))
    if len(calls) != len(expected_joins):
        ctx.corr_break("fstr:number of __Pyx_PyUnicode_Join calls", "c18_fstr.c", len(calls), len(expected_joins))
    else:
        for call, (k, (tag, nodes, known, lterms, lk, kterms)) in zip(calls, expected_joins):
            inp = {"source": items[k][0], "item": k}
            ctx.case("fstr-join-args", inp, sig=("fstr-join", items[k][0], len(nodes)))
            want = (len(nodes), known, lterms, lk, kterms if lk != 4 else [])
            got = call if call[0] == "unparsed" else (call[0], call[1], call[2], call[3], call[4] if call[3] != 4 else [])
            if got != want:
                ctx.corr_break("fstr:join arguments (count, known length, {index: factor}, literal kind, kind indices)",
                               inp, list(map(str, got)), list(map(str, want)))
    # ---- behaviour: compiled vs CPython on the same source text, text and the object's formatting calls
    vals = []
    for v in VALUES:
        v = dict(v)
        v["cd"] = float(v["cd"]).hex()
        v["by"] = list(v["by"])
        vals.append(v)
    nfunc = (len(items) + PER_FUNC - 1) // PER_FUNC
    r = cybuild.run_script(WORKER, wd, {"py": os.path.join(wd, "c18_fstr_py.py"), "name": "c18_fstr", "nfunc": nfunc,
                                        "values": vals}, timeout=3000, name="c18_fstr_worker.py")
    js = r["json"]
    if not isinstance(js, dict) or "results" not in js:
        at = js.get("at") if isinstance(js, dict) else None
        f0 = at[0] if at else 0
        inp = {"form": "fstring", "func": "c18_fstr.g%d" % f0, "values": VALUES[at[1]] if at else None,
               "sources": [it[0] for it in items[f0 * PER_FUNC:(f0 + 1) * PER_FUNC]]}
        ctx.fail("fstring_assembly_crash", inp, "worker died rc=%s %s" % (r["rc"], r["err"][-300:]), "results")
        return
    for f, vi, got, exp in js["results"]:
        for k in range(f * PER_FUNC, min((f + 1) * PER_FUNC, len(items))):
            src, ps, form = items[k]
            g, e = got.get(str(k)), exp.get(str(k))
            inp = {"form": form, "source": src, "values": {a: repr(b) for a, b in VALUES[vi].items()},
                   "func": "c18_fstr.g%d" % f, "item": k}
            vars_ = sorted({p[1] for p in ps if p[0] == "P"})
            ctx.case("fstr-run/%s/%s" % (form, "+".join(VARS[VIDX[v]][3] for v in vars_) or "no-variable"), inp,
                     sig=("fstr-run", src, vi))
            if g != e:
                kl = classify(ps, VALUES[vi])
                if g is not None and e is not None and g[0] == e[0]:
                    kl = "fstring_object_format_calls_differ"
                nbad[kl] = nbad.get(kl, 0) + 1
                if nbad[kl] <= 3:
                    ctx.fail(kl, inp, g, e, note="[text, calls on the logging object (f:<spec> = __format__, r = __repr__, s = __str__)]")
