"""C45 - Profiling and tracing events are balanced and well-nested (DESIGN 7/C45).

Two program families.  (1) call-tree programs (below): functions and generators calling each other.
(2) the "kinds" family (props/C45_kinds.py): one module with a code object of every kind that emits
trace events, every decision read from a tape, tied to the code-generation model M_TraceGen.v.

Random programs in a tiny statement language (calls, try/except, try/finally, raise, return,
generators consumed fully / partially / closed / thrown into, recursion bounded by a depth
argument) are rendered to ONE Python source text.  The same text is
  * compiled by the compiler under test with profile=True, and with linetrace=True + -DCYTHON_TRACE=1,
    and executed under sys.setprofile / sys.settrace / sys.monitoring callbacks   (implementation)
  * executed by CPython under the same hooks                                        (property oracle)
  * interpreted by the small evaluator below into a CALL TREE, which the extracted Coq model
    (M_Trace.ev_cy / ev_py) turns into event sequences                              (model)
"""
import json, os, threading, random
import cybuild
try:
    from props import C45_kinds
except ImportError:
    import C45_kinds

_LOCK = threading.Lock()

TITLE = "Profiling and tracing events are balanced and well-nested"
EXTRACTS = ["Trace"]
RULE = ("family 1: random programs over {call, try/except, try/finally, raise, return, yield, for-over-generator, "
        "partial next()+throw()+close(), close() of an unstarted generator, recursion with a depth budget <= 4}; "
        "one case = (program, build variant, hook); distinct by the program's call tree + variant + hook; "
        "non-trivial = the executed call tree has >= 3 activations.  family 2 (kinds): generated modules holding "
        "code objects of every kind that emits trace events (def, closure, lambda, instance/static/class method, "
        "cdef-class method, cdef function returning object/void/C int, cpdef called directly and through its "
        "Python wrapper, generator, yield-from delegator, coroutine with suspending and non-suspending await, "
        "async generator under async for, generator expression consumed by for/sum/tuple/min/max/frozenset and "
        "inlined into any/all/sorted/list/set/dict/str.join, comprehensions, class bodies, with blocks) with "
        "bodies from the statement language of M_TraceGen.v, leaving by fall-off, return, return inside "
        "try/finally and with, raise, raise caught by the caller, StopIteration, close()/GeneratorExit, "
        "throw(); every branch/loop count/raise decision is read from a random tape; one case = (module, entry, "
        "tape, build variant, hook); plus one static case per generated C function (layout of the trace macros)")
EXPLANATION = ("theorems (code generation level, M_TraceGen.v): for EVERY program (list of functions of kind FuncDefNode-path "
               "/ GeneratorBodyDefNode-path incl. inlined generator expressions, bodies over call/raise/return/yield/if/"
               "for-else/try-except/try-finally) and EVERY execution (oracle of all call, branch, iterator and resume "
               "outcomes; any nesting of activations) the emitted event word is a Dyck word with matching ids, empty "
               "stack at the end, one start and one end per activation/generator segment, nesting = execution tree "
               "(C45_program_events_balanced), provided the fall-off guard holds for every kind - and it is necessary "
               "for every kind (C45_falloff_guard_necessary; the seeded `not is_inlined` guard refuted on "
               "list(genexpr)); the is_terminator flag is sound (C45_terminator_sound); two finding classes excluded "
               "as-is and covered by the repaired variants.  theorems (all call trees, M_Trace.v): "
               "the event sequence emitted per the placement rules parses as a Dyck word "
               "with matching function ids whose nesting IS the call tree, one start and one end per activation / "
               "generator segment, line and raise events only inside their own activation, equal to CPython's "
               "sequence (legacy tool; sys.monitoring up to PY_THROW->PY_RESUME) when no generator is closed "
               "unstarted; all of it for code without `return` inside try/finally (refuted with it: finding). "
               "partial: yield-from / await / async-for / with are desugared by the harness into the model's "
               "statements (call + conditional yield; call + try/except/finally), not modelled as own constructs; "
               "break/continue/while and nogil/prange functions are outside the language; the sys.settrace TypeError of "
               "a cpdef function entered through its wrapper is registered, not modelled; "
               "the call tree of a program comes from the Python evaluator in props/C45.py (validated "
               "against CPython's own events on every case, not proved); the sys.monitoring implementation "
               "(CPython >= 3.13) is modelled from the source but cannot be executed on this box (3.12); line "
               "events are only checked for membership/nesting, their exact sequence is not modelled.")
LEVEL_TEXT = EXPLANATION
TRUSTED = ["evaluator program -> call tree in props/C45.py and module+tape -> execution tree/oracles in "
           "props/C45_kinds.py (cross-checked against CPython's events per case)",
           "every goto to a function's error label happens with an exception set (C-API contract of the called "
           "helpers; the generator error path is conditional on PyErr_Occurred)",
           "CPython 3.12 sys.setprofile/sys.settrace/sys.monitoring as the oracle for the event order",
           "sys.monitoring (3.13+) variant of Profile.c: read, modelled, not executed"]
ASSUMPTIONS = ["hooks are installed before the traced call and removed after it (not from inside a traced function)",
               "single thread, with the GIL (no nogil / prange functions)",
               "CPython 3.12: CYTHON_USE_SYS_MONITORING=0, compiled code reports through c_profilefunc/c_tracefunc"]

FX_RET = os.environ.get("C45_FX_RET", "0") == "1"     # flip default to "1" after the proposed fix lands
FX_WRAP = os.environ.get("C45_FX_WRAP", "0") == "1"   # same for proposed_fixes/C45-cpdef_wrapper_*.diff

# ------------------------------------------------------------------ program generator
# statements: ('call', j) ('trycall', j) ('raise',) ('return',) ('yield',)
#             ('tryfin', body, fin) ('tryexc', body, handler)
#             ('for', j, body) ('part', j, k, how) ('unst', j)


class Gen:
    def __init__(self, rng, early):
        self.rng = rng
        self.early = early            # allow `return` inside try/finally (the finding class)
        self.nf = rng.randint(3, 6)
        self.kinds = ['f'] + [rng.choice('ffg') for _ in range(self.nf - 1)]
        if 'g' not in self.kinds and rng.random() < 0.7:
            self.kinds[-1] = 'g'
        self.funcs = [j for j, k in enumerate(self.kinds) if k == 'f']
        self.gens = [j for j, k in enumerate(self.kinds) if k == 'g']

    def block(self, in_gen, depth, in_fin, in_try, n=None):
        n = n or self.rng.randint(1, 3)
        return [self.stmt(in_gen, depth, in_fin, in_try) for _ in range(n)]

    def stmt(self, in_gen, depth, in_fin, in_try):
        r = self.rng
        opts = ['call'] * 4 + ['trycall'] * 2 + ['raise']
        if in_try == 0 or self.early:
            opts += ['return']
        if in_gen and not in_fin:
            opts += ['yield'] * 4
        if depth < 2:
            opts += ['tryfin', 'tryexc', 'tryexc']
            if self.gens:
                opts += ['for'] * 2
        if self.gens:
            opts += ['part'] * 2 + ['unst']
        k = r.choice(opts)
        if k in ('call', 'trycall'):
            return (k, r.choice(self.funcs))
        if k in ('raise', 'return', 'yield'):
            return (k,)
        if k == 'tryfin':
            return (k, self.block(in_gen, depth + 1, in_fin, in_try + 1),
                    self.block(in_gen, depth + 1, True, in_try, r.randint(1, 2)))
        if k == 'tryexc':
            return (k, self.block(in_gen, depth + 1, in_fin, in_try),
                    self.block(in_gen, depth + 1, in_fin, in_try, r.randint(1, 2)))
        if k == 'for':
            return (k, r.choice(self.gens), self.block(in_gen, depth + 1, in_fin, in_try + 1, r.randint(1, 2)))
        if k == 'part':
            return (k, r.choice(self.gens), r.randint(1, 3), r.choice(['close', 'close', 'throw', 'none']))
        return ('unst', r.choice(self.gens))

    def program(self):
        bodies = []
        for j in range(self.nf):
            g = self.kinds[j] == 'g'
            b = self.block(g, 0, False, 0, self.rng.randint(1, 4))
            if g and not any(s[0] == 'yield' for s in b):
                b.insert(self.rng.randint(0, len(b)), ('yield',))
            bodies.append(b)
        return {"kinds": "".join(self.kinds), "bodies": bodies, "depth": self.rng.randint(2, 4)}


def fixed_programs():
    """hand-written shapes that must always be present"""
    P = []
    # 0: return / raise / catch-and-continue / recursion
    P.append({"kinds": "fff", "depth": 4, "bodies": [
        [('call', 1), ('trycall', 2), ('call', 0), ('return',)],
        [('trycall', 2), ('call', 1)],
        [('call', 1), ('raise',)]]})
    # 1: generators: full, partial+close, throw, unstarted close
    P.append({"kinds": "fgg", "depth": 3, "bodies": [
        [('for', 1, [('call', 0)]), ('part', 1, 1, 'close'), ('part', 2, 2, 'throw'), ('unst', 1),
         ('part', 2, 1, 'none')],
        [('yield',), ('trycall', 0), ('yield',), ('yield',)],
        [('tryexc', [('yield',), ('yield',)], [('yield',)]), ('tryfin', [('yield',)], [('trycall', 0)]), ('raise',)]]})
    # 2: early exits through finally that do NOT involve return
    P.append({"kinds": "ffg", "depth": 3, "bodies": [
        [('tryfin', [('call', 1)], [('trycall', 1)]), ('tryfin', [('raise',)], [('for', 2, [('raise',)])])],
        [('tryexc', [('raise',)], [('call', 0)]), ('raise',)],
        [('yield',), ('tryfin', [('yield',), ('raise',)], [('trycall', 1)])]]})
    return P


def early_programs():
    """the finding family: `return` inside try/finally"""
    P = []
    P.append({"kinds": "ff", "depth": 2, "bodies": [
        [('trycall', 1), ('tryfin', [('return',)], [('trycall', 1)])], [('return',)]]})                      # mis-nested
    P.append({"kinds": "ff", "depth": 2, "bodies": [[('tryfin', [('return',)], [('return',)])], [('return',)]]})  # 2 ends
    P.append({"kinds": "ff", "depth": 2, "bodies": [[('tryfin', [('return',)], [('raise',)])], [('return',)]]})   # 2 ends
    P.append({"kinds": "fg", "depth": 2, "bodies": [[('for', 1, [('return',)])], [('yield',), ('yield',)]]})
    P.append({"kinds": "fg", "depth": 2, "bodies": [
        [('part', 1, 1, 'close')], [('tryfin', [('yield',), ('return',)], [('trycall', 0)])]]})
    return P


def has_early_return(prog):
    def blk(b, in_try):
        return any(st(s, in_try) for s in b)

    def st(s, in_try):
        if s[0] == 'return':
            return in_try
        if s[0] == 'tryfin':
            return blk(s[1], True) or blk(s[2], in_try)
        if s[0] == 'tryexc':
            return blk(s[1], in_try) or blk(s[2], in_try)
        if s[0] == 'for':
            return blk(s[2], True)
        return False
    return any(blk(b, False) for b in prog["bodies"])


def has_unstarted(prog):
    def blk(b):
        return any(s[0] == 'unst' or (s[0] in ('tryfin', 'tryexc') and (blk(s[1]) or blk(s[2]))) or
                   (s[0] == 'for' and blk(s[2])) for s in b)
    return any(blk(b) for b in prog["bodies"])


# ------------------------------------------------------------------ rendering
def render(progs):
    """-> (source text, {func name: (first line, last line)}, [name table per program])"""
    L = ["def mk0():", "    return 0", "def mk1():", "    return 1", ""]
    spans = {"mk0": (1, 2), "mk1": (3, 4)}
    counter = [0]

    def emit(b, ind, pi):
        pad = "    " * ind
        for s in b:
            k = s[0]
            if k == 'call':
                L.append(pad + "p%d_f%d(d - 1)" % (pi, s[1]))
            elif k == 'trycall':
                L.append(pad + "try:")
                L.append(pad + "    p%d_f%d(d - 1)" % (pi, s[1]))
                L.append(pad + "except ValueError:")
                L.append(pad + "    pass")
            elif k == 'raise':
                L.append(pad + "raise ValueError(d)")
            elif k == 'return':
                L.append(pad + "return d")
            elif k == 'yield':
                L.append(pad + "yield d")
            elif k == 'tryfin':
                L.append(pad + "try:"); emit(s[1], ind + 1, pi)
                L.append(pad + "finally:"); emit(s[2], ind + 1, pi)
            elif k == 'tryexc':
                L.append(pad + "try:"); emit(s[1], ind + 1, pi)
                L.append(pad + "except ValueError:"); emit(s[2], ind + 1, pi)
            elif k == 'for':
                counter[0] += 1
                v = "_g%d" % counter[0]
                L.append(pad + "%s = p%d_f%d(d - 1)" % (v, pi, s[1]))
                L.append(pad + "try:")
                L.append(pad + "    for _x in %s:" % v); emit(s[2], ind + 2, pi)
                L.append(pad + "finally:")
                L.append(pad + "    %s.close()" % v)
            elif k == 'part':
                counter[0] += 1
                v = "_g%d" % counter[0]
                L.append(pad + "%s = p%d_f%d(d - 1)" % (v, pi, s[1]))
                for _ in range(s[2]):
                    L.append(pad + "next(%s, None)" % v)
                if s[3] == 'throw':
                    L.append(pad + "try:")
                    L.append(pad + "    %s.throw(ValueError(7))" % v)
                    L.append(pad + "except (ValueError, StopIteration):")
                    L.append(pad + "    pass")
                L.append(pad + "%s.close()" % v)
            elif k == 'unst':
                counter[0] += 1
                v = "_g%d" % counter[0]
                L.append(pad + "%s = p%d_f%d(d - 1)" % (v, pi, s[1]))
                L.append(pad + "mk0()")
                L.append(pad + "%s.close()" % v)
                L.append(pad + "mk1()")
            else:
                raise AssertionError(k)

    for pi, p in enumerate(progs):
        for j, b in enumerate(p["bodies"]):
            name = "p%d_f%d" % (pi, j)
            first = len(L) + 1
            L.append("def %s(d):" % name)
            L.append("    if d <= 0:")
            L.append("        return 0")
            emit(b, 1, pi)
            spans[name] = (first, len(L))
            L.append("")
        name = "p%d_main" % pi
        first = len(L) + 1
        L += ["def %s():" % name, "    try:", "        p%d_f0(%d)" % (pi, p["depth"]),
              "    except ValueError:", "        pass"]
        spans[name] = (first, len(L))
        L.append("")
    return "\n".join(L) + "\n", spans


# ------------------------------------------------------------------ evaluator: program -> call tree
class PRaise(Exception):
    def __init__(self, kind):
        Exception.__init__(self, kind)
        self.kind = kind


class PReturn(Exception):
    def __init__(self, pending):
        Exception.__init__(self)
        self.pending = pending


class Node:
    __slots__ = ("f", "s", "items", "e")

    def __init__(self, f, s):
        self.f, self.s, self.items, self.e = f, s, [], None

    def tokens(self, out):
        out += ["N", str(self.f), self.s, self.e]
        for it in self.items:
            if it == 'R':
                out.append("R")
            else:
                out.append("C")
                it.tokens(out)
        out.append(".")
        return out

    def size(self):
        return 1 + sum(i.size() for i in self.items if i != 'R')


class GenObj:
    def __init__(self, ev, j, d):
        self.ev, self.j, self.d, self.state, self.it, self.pending = ev, j, d, 'new', None, False

    def body(self):
        if self.d <= 0:
            return
        try:
            yield from self.ev.block(self.ev.prog["bodies"][self.j], self.d, 0)
        except PReturn as r:
            self.pending = r.pending

    def resume(self, kind):
        ev = self.ev
        if self.state == 'done':
            if kind == 'throw':
                raise PRaise('V')
            return 'stop'
        if self.state == 'new' and kind == 'close':
            n = Node(self.j, 'u'); n.e = 'x'
            ev.stack[-1].items.append(n)
            self.state = 'done'
            return 'stop'
        assert self.state in ('new', 'susp'), self.state
        assert not (self.state == 'new' and kind == 'throw')
        n = Node(self.j, 'g' if self.state == 'new' else ('r' if kind == 'next' else 't'))
        ev.stack[-1].items.append(n)
        ev.stack.append(n)
        if self.state == 'new':
            self.it = self.body()
        self.state = 'run'
        try:
            if kind == 'next':
                next(self.it)
            else:
                self.it.throw(PRaise('V' if kind == 'throw' else 'G'))
        except StopIteration:
            n.e = 'p' if self.pending else 'r'
            self.state = 'done'
            ev.stack.pop()
            return 'stop'
        except PRaise as e:
            n.e = 'x'
            self.state = 'done'
            ev.stack.pop()
            if kind == 'close' and e.kind == 'G':
                return 'stop'
            raise
        n.e = 'y'
        self.state = 'susp'
        ev.stack.pop()
        assert kind != 'close', "generator ignored GeneratorExit"
        return 'yield'


class Evaluator:
    def __init__(self, prog):
        self.prog = prog
        self.nf = len(prog["bodies"])
        self.stack = []

    def run(self):
        root = Node(self.nf, 'c')
        self.stack = [root]
        try:
            self.call(0, self.prog["depth"])
        except PRaise as e:
            assert e.kind == 'V'
        root.e = 'r'
        return root

    def mark(self, which):
        n = Node(self.nf + 1 + which, 'c'); n.e = 'r'
        self.stack[-1].items.append(n)

    def call(self, j, d):
        assert self.prog["kinds"][j] == 'f'
        n = Node(j, 'c')
        self.stack[-1].items.append(n)
        self.stack.append(n)
        try:
            if d > 0:
                for _ in self.block(self.prog["bodies"][j], d, 0):
                    raise AssertionError("yield in plain function")
            n.e = 'r'
        except PReturn as r:
            n.e = 'p' if r.pending else 'r'
        except PRaise:
            n.e = 'x'
            raise
        finally:
            self.stack.pop()

    def block(self, b, d, fd):
        for s in b:
            yield from self.stmt(s, d, fd)

    def stmt(self, s, d, fd):
        k = s[0]
        if k == 'call':
            self.call(s[1], d - 1)
        elif k == 'trycall':
            try:
                self.call(s[1], d - 1)
            except PRaise as e:
                if e.kind != 'V':
                    raise
        elif k == 'raise':
            raise PRaise('V')
        elif k == 'return':
            if fd > 0:
                self.stack[-1].items.append('R')
                raise PReturn(True)
            raise PReturn(False)
        elif k == 'yield':
            yield None
        elif k == 'tryfin':
            try:
                yield from self.block(s[1], d, fd + 1)
            except (PRaise, PReturn) as e:
                yield from self.block(s[2], d, fd)
                raise e
            else:
                yield from self.block(s[2], d, fd)
        elif k == 'tryexc':
            try:
                yield from self.block(s[1], d, fd)
            except PRaise as e:
                if e.kind != 'V':
                    raise
                yield from self.block(s[2], d, fd)
        elif k == 'for':
            g = GenObj(self, s[1], d - 1)
            try:
                while g.resume('next') == 'yield':
                    yield from self.block(s[2], d, fd + 1)
            except (PRaise, PReturn) as e:
                g.resume('close')
                raise e
            else:
                g.resume('close')
        elif k == 'part':
            g = GenObj(self, s[1], d - 1)
            for _ in range(s[2]):
                g.resume('next')
            if s[3] == 'throw':
                try:
                    g.resume('throw')
                except PRaise as e:
                    if e.kind != 'V':
                        raise
            g.resume('close')
        elif k == 'unst':
            g = GenObj(self, s[1], d - 1)
            self.mark(0)
            g.resume('close')
            self.mark(1)
        else:
            raise AssertionError(k)
        return
        yield


# ------------------------------------------------------------------ running under the hooks
WORKER = r'''
import sys, importlib, types, os
_mods = {}
def _get(modname, mode):
    key = (modname, mode)
    if key not in _mods:
        if mode == 'cy':
            _mods[key] = importlib.import_module(modname)
        else:
            m = types.ModuleType(modname)
            exec(compile(open(modname + '.py').read(), modname + '.py', 'exec'), m.__dict__)
            _mods[key] = m
    return _mods[key]
def _mine(co):
    return os.path.basename(co.co_filename).startswith('c45')
def run_one(modname, mode, entry, hook):
    m = _get(modname, mode)
    f = getattr(m, entry)
    ev = []
    if hook in ('profile', 'trace'):
        def cb(frame, event, arg):
            co = frame.f_code
            if _mine(co):
                ev.append("%s:%s:%d" % (event, co.co_name, frame.f_lineno))
            return cb
        setter = sys.setprofile if hook == 'profile' else sys.settrace
        setter(cb)
        try:
            f()
        finally:
            setter(None)
    else:
        mon = sys.monitoring
        E = mon.events
        tool = 3
        mon.use_tool_id(tool, "c45")
        names = [("PY_START", E.PY_START), ("PY_RESUME", E.PY_RESUME), ("PY_THROW", E.PY_THROW),
                 ("PY_RETURN", E.PY_RETURN), ("PY_YIELD", E.PY_YIELD), ("PY_UNWIND", E.PY_UNWIND)]
        def mk(nm):
            def cb(code, *a):
                if _mine(code):
                    ev.append("%s:%s:0" % (nm, code.co_name))
            return cb
        mask = 0
        for nm, e in names:
            mon.register_callback(tool, e, mk(nm))
            mask |= e
        mon.set_events(tool, mask)
        try:
            f()
        finally:
            mon.set_events(tool, 0)
            for nm, e in names:
                mon.register_callback(tool, e, None)
            mon.free_tool_id(tool)
    return ev
'''

LEG = {"call": "c", "return": "r"}
MON = {"PY_START": "S", "PY_RESUME": "M", "PY_THROW": "T", "PY_RETURN": "R", "PY_YIELD": "Y", "PY_UNWIND": "U"}


def decode(res):
    """worker result -> list of (event, name, line) or None"""
    if "e" in res:
        return None
    out = []
    for x in res["r"]:
        e, n, l = x["r"].strip("'").split(":")
        out.append((e, n, int(l)))
    return out


def fid_of(name, nf):
    if name == "mk0":
        return nf + 1
    if name == "mk1":
        return nf + 2
    tail = name.split("_", 1)[1]
    return nf if tail == "main" else int(tail[1:])


def project(evs, table, nf):
    """keep start/end events only -> model notation"""
    return [table[e] + str(fid_of(n, nf)) for e, n, l in evs if e in table]


def nesting_check(evs, starts, ends):
    """independent Dyck check: returns None if balanced with matching names and every other
    event (line, exception) inside its own activation; else a description"""
    st = []
    for i, (e, n, l) in enumerate(evs):
        if e in starts:
            st.append(n)
        elif e in ends:
            if not st:
                return "end event #%d %s:%s with no open activation" % (i, e, n)
            if st[-1] != n:
                return "end event #%d %s:%s while %s is the innermost open activation" % (i, e, n, st[-1])
            st.pop()
        elif e in ("line", "exception", "opcode"):
            if not st or st[-1] != n:
                return "%s event #%d of %s outside its activation (innermost: %s)" % (e, i, n, st[-1] if st else None)
    if st:
        return "activations never ended: %s" % st
    return None


def erase_marked(seq, nf):
    """drop what the implementation reports between the two marker calls around close() of an
    unstarted generator (documented difference: CPython does not run the frame)"""
    a, b = "r%d" % (nf + 1), "c%d" % (nf + 2)
    out, skipping = [], False
    for x in seq:
        if skipping:
            if x == b:
                skipping = False
                out.append(x)
            continue
        out.append(x)
        if x == a:
            skipping = True
    return out


def classify(prog):
    return "return_inside_try_finally" if has_early_return(prog) else "event_mismatch"


def build_all(ctx, progs, linetrace, tag):
    src, spans = render(progs)
    with open(os.path.join(ctx.workdir, "c45src%s.py" % tag), "w") as f:
        f.write(src)
    specs = [dict(name="c45p" + tag, source=src, workdir=ctx.workdir, cflags=["-O0"],
                  directives={"profile": True, "language_level": 3})]
    if linetrace:
        specs.append(dict(name="c45l" + tag, source=src, workdir=ctx.workdir, cflags=["-O0"], macros=["CYTHON_TRACE=1"],
                          directives={"linetrace": True, "language_level": 3}))
    built = cybuild.build_many(specs, jobs=2)
    for (so, err), sp in zip(built, specs):
        if err is not None:
            ctx.corr_break("build " + sp["name"], sp["name"], str(err)[:1500], "module builds")
            return None
    return src, spans


def check_programs(ctx, progs, linetrace=True, tag=""):
    P, Lm, SRC = "c45p" + tag, "c45l" + tag, "c45src" + tag
    b = build_all(ctx, progs, linetrace, tag)
    if b is None:
        return
    src, spans = b
    with _LOCK:
        model = ctx.model("trace")
    trees = []
    for p in progs:
        t = Evaluator(p).run()
        trees.append(t)
    toks = [" ".join(t.tokens([])) for t in trees]
    fx = "1" if FX_RET else "0"
    m_cy_l = model.batch(["cy l %s 0 %s" % (fx, tk) for tk in toks])
    m_py_l = model.batch(["py l 0 %s" % tk for tk in toks])
    m_py_m = model.batch(["py m 0 %s" % tk for tk in toks])
    m_chk = model.batch(["chk l %s 0 %s" % (fx, tk) for tk in toks])

    variants = [(P, "profile")]
    if linetrace:
        variants += [(Lm, "profile"), (Lm, "trace")]
    cases, meta = [], []
    for pi, p in enumerate(progs):
        entry = "p%d_main" % pi
        for mod, hook in variants:
            cases.append(["run_one", [mod, "cy", entry, hook]]); meta.append((pi, "cy", mod, hook))
        cases.append(["run_one", [P, "cy", entry, "monitoring"]]); meta.append((pi, "cy", P, "monitoring"))
        for hook in ("profile", "trace", "monitoring"):
            cases.append(["run_one", [SRC, "py", entry, hook]]); meta.append((pi, "py", "src", hook))
    res = cybuild.call_cases(ctx.workdir, cases, setup=WORKER, alarm=20)
    with _LOCK:
        compare(ctx, progs, trees, toks, spans, variants, meta, res, (m_cy_l, m_py_l, m_py_m, m_chk), P, Lm)


def compare(ctx, progs, trees, toks, spans, variants, meta, res, mres, P, Lm):
    m_cy_l, m_py_l, m_py_m, m_chk = mres
    by = {}
    for mt, r in zip(meta, res):
        by[mt] = decode(r)
        if by[mt] is None:
            by[mt] = ("ERR", r.get("e"), r.get("m"))

    for pi, p in enumerate(progs):
        nf = len(p["bodies"])
        inp = {"program": p, "tree": toks[pi]}
        klass = classify(p)
        size = trees[pi].size()
        early, unst = has_early_return(p), has_unstarted(p)
        stratum_base = ("early_return" if early else "plain") + ("+unstarted" if unst else "") + \
                       ("+gen" if "g" in p["kinds"] else "")
        mcy = [] if m_cy_l[pi] == "-" else m_cy_l[pi].split(",")
        mpy = [] if m_py_l[pi] == "-" else m_py_l[pi].split(",")
        mpm = [x for x in ([] if m_py_m[pi] == "-" else m_py_m[pi].split(",")) if x[0] != "X"]
        # --- the evaluator/model of CPython against CPython itself (validates program -> tree)
        for hook in ("profile", "trace"):
            o = by[(pi, "py", "src", hook)]
            if isinstance(o, tuple):
                ctx.corr_break("oracle run " + hook, inp, o, "events"); continue
            if project(o, LEG, nf) != mpy:
                ctx.corr_break("evaluator+ev_py vs CPython (%s)" % hook, inp, project(o, LEG, nf), mpy)
            bad = nesting_check(o, ("call",), ("return",))
            if bad:
                ctx.corr_break("CPython events not nested?!", inp, bad, "nested")
        o = by[(pi, "py", "src", "monitoring")]
        if isinstance(o, tuple):
            ctx.corr_break("oracle run monitoring", inp, o, "events")
        elif project(o, MON, nf) != mpm:
            ctx.corr_break("evaluator+ev_py vs CPython (sys.monitoring)", inp, project(o, MON, nf), mpm)
        # --- model self-consistency as claimed by the theorems (cheap, all cases)
        wn, na, sz, ns, ne, cl, stt = m_chk[pi].split()
        if (cl == "1" or FX_RET) and not (wn == "1" and na == "1" and sz == ns == ne):
            ctx.corr_break("model theorem instance", inp, m_chk[pi], "1 1 n n n")
        # --- implementation
        for mod, hook in variants:
            got = by[(pi, "cy", mod, hook)]
            ctx.case("%s/%s/%s" % (stratum_base, mod[:4], hook), inp, sig=(toks[pi], mod, hook), nontrivial=size >= 3)
            if isinstance(got, tuple):
                ctx.fail("crash_or_error" if not early else klass, dict(inp, module=mod, hook=hook), got, "events")
                continue
            oracle = by[(pi, "py", "src", hook)]
            g = project(got, LEG, nf)
            failed = False
            # 1. the property itself: balanced, matching ids, lines/others inside their activation
            bad = nesting_check(got, ("call",), ("return",))
            if bad:
                ctx.fail(klass, dict(inp, module=mod, hook=hook), bad, "balanced and well nested"); failed = True
            # 2. lines belong to the function named by the event
            for e, n, l in got:
                lo, hi = spans[n]
                if not (lo <= l <= hi):
                    ctx.fail("line_outside_function" if not early else klass, dict(inp, module=mod, hook=hook),
                             "%s:%s:%d" % (e, n, l), "line in %d..%d" % (lo, hi)); failed = True
                    break
            # 3. same (kind, function) sequence as CPython, up to the documented differences
            if not isinstance(oracle, tuple):
                o = project(oracle, LEG, nf)
                if erase_marked(g, nf) != o:
                    ctx.fail(klass, dict(inp, module=mod, hook=hook), g, o,
                             note="call/return sequence differs from CPython's"); failed = True
            # 4. tie: model of the generated code
            if g != mcy:
                if failed and early and not FX_RET:
                    pass
                ctx.corr_break("ev_cy vs compiled (%s,%s)" % (mod, hook), inp, g, mcy)
            if hook == "trace" and mod == Lm and not any(e == "line" for e, n, l in got):
                ctx.corr_break("no line events under settrace with linetrace", inp, got[:5], "line events")
        got = by[(pi, "cy", P, "monitoring")]
        ctx.case("%s/c45p/monitoring" % stratum_base, inp, sig=(toks[pi], "c45p", "monitoring"), nontrivial=size >= 3)
        if got != []:
            ctx.corr_break("sys.monitoring callbacks on 3.12 (legacy path reports nothing)", inp, got, [])


def make_programs(ctx, n_plain, n_early):
    progs = fixed_programs() + early_programs()
    for _ in range(n_plain):
        progs.append(Gen(ctx.rng, False).program())
    for _ in range(n_early):
        progs.append(Gen(ctx.rng, True).program())
    return progs


def run_kinds(ctx, idx, seed, quick):
    with _LOCK:
        model = ctx.model("trace")
    if quick:
        C45_kinds.check_kinds(ctx, cybuild, model, seed, "_%d" % idx, 15, FX_RET, FX_WRAP, _LOCK, n_mid=3, n_gen=2)
    else:
        C45_kinds.check_kinds(ctx, cybuild, model, seed, "_%d" % idx, 250, FX_RET, FX_WRAP, _LOCK, n_mid=14, n_gen=6)


def run(ctx):
    quick = ctx.tier == "quick"
    progs = make_programs(ctx, 1 if quick else 110, 1 if quick else 30)
    nchunk = 1 if quick else 8
    chunks = [progs[i::nchunk] for i in range(nchunk)]
    seeds = [ctx.rng.randrange(1 << 30) for _ in range(1 if quick else 4)]
    jobs = [("tree", k, c) for k, c in enumerate(chunks)] + [("kinds", k, sd) for k, sd in enumerate(seeds)]
    jobs.sort(key=lambda j: j[1])

    def one(j):
        if j[0] == "tree":
            check_programs(ctx, j[2], True, "_%d" % j[1])
        else:
            run_kinds(ctx, j[1], j[2], quick)
    import concurrent.futures as cf
    with cf.ThreadPoolExecutor(max_workers=2 if quick else 4) as ex:
        list(ex.map(one, jobs))
    ctx.note("documented differences to CPython: no c_call/c_return, no 'exception' trace events, return/call "
             "line numbers = def line without linetrace, close() of a never-started generator reports one "
             "call/return pair, sys.monitoring tools see nothing on CPython < 3.13; an inlined generator expression "
             "is ONE activation of its code object (CPython: one per item), a yield-from/await delegator is not "
             "re-entered while its delegate runs (CPython re-enters it per item), class bodies are no code objects")


def replay(ctx, obj):
    inp = obj["input"]
    if inp.get("family") == "kinds":
        with _LOCK:
            model = ctx.model("trace")
        C45_kinds.check_kinds(ctx, cybuild, model, inp["module_seed"], "_r", 0, FX_RET, FX_WRAP, _LOCK,
                              n_mid=inp["n_mid"], n_gen=inp["n_gen"], only=[(inp["entry"], inp["tape"])])
        print("replayed module/tape; failures:", json.dumps(ctx.prop_failures)[:2000],
              "breaks:", json.dumps(ctx.corr_breaks)[:2000])
        return
    p = inp["program"]
    def tup_block(b):
        return [tuple(tup_block(x) if isinstance(x, list) else x for x in s) for s in b]
    p["bodies"] = [tup_block(b) for b in p["bodies"]]
    check_programs(ctx, [p], linetrace=True)
    print("replayed program; failures:", json.dumps(ctx.prop_failures)[:2000], "breaks:", json.dumps(ctx.corr_breaks)[:2000])
