"""C22 — Exception handling semantics match CPython (DESIGN 7/C22)."""
import json, os, re
import cybuild

TITLE = "Exception handling semantics match CPython"
EXTRACTS = ["Exc"]
RULE = ("generated functions: nested try/except(typed, bare, as-name)/else/finally, with-blocks "
        "(pass-through, swallowing, raising __exit__), for-loops with return/break/continue, with a "
        "raise (new / from None / from new / from name / of a name / bare) injected at every position of "
        "every shape pair (systematic family, depth 2) and random trees of depth <= 3; every block logs "
        "itself and probes sys.exc_info(); each function is run in three calling contexts (nothing "
        "handled, inside a handler, from a generator frame inside a handler). distinct by (program, "
        "context); non-trivial = at least one exception is raised while the trace has >= 2 events")
EXPLANATION = ("theorems: for ALL programs of the statement language without with-blocks (raise / raise from / "
               "bare raise, try/except typed-bare-as with the implicit deletion, else, finally, loops with "
               "return/break/continue, probes; any nesting) and all calling contexts, the compiler scheme "
               "(ExceptionSave/GetException/ExceptionReset/ExceptionSwap, handler temps, the GetException-skipping "
               "optimisation, the as-name try/finally rewriting) yields the same outcome incl. exception identity, "
               "the same log (blocks, sys.exc_info() probes with snapshots of every __context__/__cause__/"
               "__suppress_context__) and the same sys.exc_info() afterwards as CPython's PUSH_EXC_INFO/POP_EXCEPT "
               "semantics -- unconditionally for the repaired ReraiseStatNode, and for the current code unless the "
               "zeroed-temps state is reached (refuted with a witness); the top exc_info item is restored exactly "
               "when nothing is handled underneath or ExceptionSave is repaired (refuted otherwise); finally runs "
               "once; return in finally swallows. partial: with-blocks (WithTransform) are modelled and run in the "
               "correspondence but not covered by the theorems; except* is differential only (compiled vs CPython, "
               "no model); tracebacks and yield inside try are excluded.")
TRUSTED = ["reference semantics exec_ref written from CPython 3.12 ceval.c/errors.c (validated against the "
           "running CPython on every case)",
           "CPython 3.12 as the property oracle",
           "gcc as a conforming C compiler"]
ASSUMPTIONS = ["CPython 3.12, CYTHON_FAST_THREAD_STATE and CYTHON_USE_EXC_INFO_STACK enabled (default build)",
               "exception classes without custom __init__/__eq__; context managers are ordinary Python objects"]

# flags to flip after the proposed fixes are applied to /repo
FX_RERAISE = os.environ.get("C22_FX_RERAISE", "1") == "1"   # proposed_fixes/C22-bare_reraise_twice.diff
FX_SLOT = os.environ.get("C22_FX_SLOT", "1") == "1"         # proposed_fixes/C22-exc_info_slot.diff

HELPER = r'''
import sys
LOG = []
CNT = [0]
class E3(Exception): pass
class E4(Exception): pass
class E5(Exception): pass
class E9(Exception): pass
CLS = {0: Exception, 3: E3, 4: E4, 5: E5, 9: E9}
def reset():
    del LOG[:]
    CNT[0] = 0
def _new(c):
    e = CLS[c]()
    e.serial = CNT[0]
    CNT[0] += 1
    return e
def D(e, depth=4):
    if e is None:
        return "-"
    if depth == 0:
        return "~"
    return "%s:%s{c=%s;x=%s;s=%d}" % (type(e).__name__, getattr(e, "serial", "i"), D(e.__cause__, depth - 1),
                                     D(e.__context__, depth - 1), 1 if e.__suppress_context__ else 0)
def _b(n):
    LOG.append("B%d" % n)
def _t():
    return True
def _p():
    LOG.append("P[%s]" % D(sys.exc_info()[1]))
class _cm(object):
    def __init__(self, k, mode, c=0):
        self.k, self.mode, self.c = k, mode, c
    def __enter__(self):
        LOG.append("N%d" % self.k)
    def __exit__(self, t, v, tb):
        LOG.append("X%d[%s|%s]" % (self.k, D(v), D(sys.exc_info()[1])))
        if self.mode == 1:
            return True
        if self.mode == 2:
            raise CLS[self.c]()
        return False

def run_case(f, ctx):
    """returns 'trace => outcome after=.. resume=..'"""
    reset()
    res = {}
    def call():
        exc = None
        r = None
        try:
            r = f()
        except BaseException as e:
            exc = e
        after = D(sys.exc_info()[1])
        if exc is not None:
            out = "raise[%s]" % D(exc)
        else:
            out = "ret" if r == 7 else "norm"
        res["out"] = out
        res["after"] = after
        res["log"] = " ".join(LOG)
    if ctx == 0:
        call()
        res["resume"] = "-"
    elif ctx == 1:
        try:
            raise _new(9)
        except E9:
            call()
        res["resume"] = "-"
    else:
        def g():
            call()
            yield 1
            res["resume"] = D(sys.exc_info()[1])
            yield 2
        try:
            raise _new(9)
        except E9:
            it = g()
            next(it)
        o2 = E9()
        o2.serial = "o2"
        try:
            raise o2
        except E9:
            next(it)
    return "%s => %s after=%s resume=%s" % (res["log"], res["out"], res["after"], res["resume"])
'''

RUNNER = r'''
import sys, importlib
import c22h
_PYNS = {}
def load_py(modname):
    if modname not in _PYNS:
        ns = {}
        src = open(modname + ".pyx").read()
        exec(compile(src, modname + "_py", "exec"), ns)
        _PYNS[modname] = ns
    return _PYNS[modname]
def run(modname, fname, ctx, which):
    if which == "cy":
        m = importlib.import_module(modname)
        f = getattr(m, fname)
    else:
        f = load_py(modname)[fname]
    return c22h.run_case(f, ctx)
def run_star(modname, fname, which):
    if which == "cy":
        f = getattr(importlib.import_module(modname), fname)
    else:
        f = load_py(modname)[fname]
    c22h.reset()
    try:
        r = f()
        out = "ret %r" % (r,)
    except BaseException as e:
        out = "raise " + DG(e)
    return " ".join(c22h.LOG) + " => " + out + " after=" + c22h.D(sys.exc_info()[1])
def DG(e, depth=4):
    if e is None:
        return "-"
    if depth == 0:
        return "~"
    s = "%s:%s{c=%s;x=%s;s=%d}" % (type(e).__name__, getattr(e, "serial", "i"), DG(e.__cause__, depth - 1),
                                  DG(e.__context__, depth - 1), 1 if e.__suppress_context__ else 0)
    if isinstance(e, BaseExceptionGroup):
        s += "<" + ",".join(DG(x, depth - 1) for x in e.exceptions) + ">"
    return s
'''

# ----------------------------------------------------------------------------------------------
# programs: nested tuples.  A block is a list of statements.
#   ("log", n) ("probe",) ("raise", what, cause) ("reraise",) ("ret",) ("brk",) ("cont",)
#   ("try", block, [(pat, name, block)], block_or_None) ("fin", block, block)
#   ("with", k, xk, block) ("loop", n, block)
#   what = ("new", c) | ("var", x); cause = ("nocause",) | ("fromnone",) | ("fromnew", c) | ("fromvar", x)
#   pat = None (bare) | 0 (Exception) | c ; name = None | x ; xk = ("xpass",)|("xswallow",)|("xraise", c)

def toks_block(b):
    if not b:
        return ["skip"]
    if len(b) == 1:
        return toks_stmt(b[0])
    return ["seq"] + toks_stmt(b[0]) + toks_block(b[1:])


def toks_stmt(s):
    t = s[0]
    if t in ("probe", "reraise", "ret", "brk", "cont", "skip"):
        return [t]
    if t == "log":
        return ["log", str(s[1])]
    if t == "raise":
        return ["raise"] + [str(x) for x in s[1]] + [str(x) for x in s[2]]
    if t == "try":
        out = ["try"] + toks_block(s[1]) + [str(len(s[2]))]
        for pat, name, body in s[2]:
            out += (["any"] if pat is None else ["p", str(pat)])
            out += (["noname"] if name is None else ["as", str(name)])
            out += toks_block(body)
        return out + toks_block(s[3] or [])
    if t == "fin":
        return ["fin"] + toks_block(s[1]) + toks_block(s[2])
    if t == "with":
        return ["with", str(s[1])] + [str(x) for x in s[2]] + toks_block(s[3])
    if t == "loop":
        return ["loop", str(s[1])] + toks_block(s[2])
    raise ValueError(s)


CLSNAME = {0: "Exception", 3: "E3", 4: "E4", 5: "E5"}


def src_block(b, ind, out):
    if not b:
        out.append(ind + "pass")
    for s in b:
        src_stmt(s, ind, out)


def src_stmt(s, ind, out):
    t = s[0]
    if t == "skip":
        out.append(ind + "pass")
    elif t == "log":
        out.append(ind + "_b(%d)" % s[1])
    elif t == "probe":
        out.append(ind + "_p()")
    elif t == "raise":
        w = "_new(%d)" % s[1][1] if s[1][0] == "new" else "x%d" % s[1][1]
        c = s[2]
        cz = {"nocause": "", "fromnone": " from None"}.get(c[0])
        if cz is None:
            cz = " from _new(%d)" % c[1] if c[0] == "fromnew" else " from x%d" % c[1]
        out.append(ind + "raise " + w + cz)
    elif t == "reraise":
        out.append(ind + "raise")
    elif t == "ret":
        out.append(ind + "return 7")
    elif t == "brk":
        out.append(ind + "break")
    elif t == "cont":
        out.append(ind + "continue")
    elif t == "try":
        out.append(ind + "try:")
        src_block(s[1], ind + "    ", out)
        for pat, name, body in s[2]:
            h = "except" + ("" if pat is None else " " + CLSNAME[pat]) + ("" if name is None else " as x%d" % name) + ":"
            out.append(ind + h)
            src_block(body, ind + "    ", out)
        if s[3] is not None:
            out.append(ind + "else:")
            src_block(s[3], ind + "    ", out)
    elif t == "fin":
        out.append(ind + "try:")
        src_block(s[1], ind + "    ", out)
        out.append(ind + "finally:")
        src_block(s[2], ind + "    ", out)
    elif t == "with":
        xk = s[2]
        mode = {"xpass": "0", "xswallow": "1"}.get(xk[0]) or ("2, %d" % xk[1])
        out.append(ind + "with _cm(%d, %s):" % (s[1], mode))
        src_block(s[3], ind + "    ", out)
    elif t == "loop":
        out.append(ind + "for _i in range(%d):" % s[1])
        src_block(s[2], ind + "    ", out)
    else:
        raise ValueError(s)


def func_source(name, prog):
    out = ["def %s():" % name]
    src_block(prog, "    ", out)
    return "\n".join(out) + "\n"


def names_ok(b, scope=frozenset()):
    """every name use lies inside the handler that binds it and no handler rebinds a name in scope
    (Cython rejects reads of definitely-unbound locals at compile time: outside the property)"""
    for s in b:
        t = s[0]
        if t == "raise":
            if s[1][0] == "var" and s[1][1] not in scope:
                return False
            if s[2][0] == "fromvar" and s[2][1] not in scope:
                return False
        elif t == "try":
            if not names_ok(s[1], scope) or not names_ok(s[3] or [], scope):
                return False
            for pat, name, body in s[2]:
                if name is not None and name in scope:
                    return False
                if not names_ok(body, scope | {name} if name is not None else scope):
                    return False
        elif t == "fin":
            if not names_ok(s[1], scope) or not names_ok(s[2], scope):
                return False
        elif t in ("with", "loop"):
            if not names_ok(s[-1], scope):
                return False
    return True


def size(b):
    n = 0
    for s in b:
        n += 1
        if s[0] == "try":
            n += size(s[1]) + sum(size(h[2]) for h in s[2]) + size(s[3] or [])
        elif s[0] == "fin":
            n += size(s[1]) + size(s[2])
        elif s[0] in ("with", "loop"):
            n += size(s[-1])
    return n


def c_cost(b):
    """rough size of the generated C: finally clauses are copied once per exit kind"""
    n = 0
    for s in b:
        if s[0] == "try":
            n += 3 + c_cost(s[1]) + sum(2 + c_cost(h[2]) * (3 if h[1] is not None else 1) for h in s[2]) + c_cost(s[3] or [])
        elif s[0] == "fin":
            n += 3 + c_cost(s[1]) + 5 * c_cost(s[2])
        elif s[0] == "with":
            n += 8 + c_cost(s[3])
        elif s[0] == "loop":
            n += 1 + c_cost(s[2])
        else:
            n += 1
    return n


class Gen:
    def __init__(self, rng):
        self.rng = rng
        self.n = 0

    def lid(self):
        self.n += 1
        return self.n

    def what(self):
        r = self.rng
        return ("new", r.choice([3, 4, 5])) if r.random() < 0.7 else ("var", r.choice([1, 2, 3]))

    def cause(self):
        r = self.rng
        x = r.random()
        if x < 0.55:
            return ("nocause",)
        if x < 0.7:
            return ("fromnone",)
        if x < 0.87:
            return ("fromnew", r.choice([3, 4, 5]))
        return ("fromvar", r.choice([1, 2, 3]))

    def leaf(self, in_loop):
        r = self.rng
        x = r.random()
        if x < 0.30:
            return ("raise", self.what(), self.cause())
        if x < 0.45:
            return ("reraise",)
        if x < 0.65:
            return ("probe",)
        if x < 0.73:
            return ("ret",)
        if x < 0.83 and in_loop:
            return (r.choice(["brk", "cont"]),)
        return ("log", self.lid())

    def block(self, depth, in_loop, maxlen=3):
        r = self.rng
        b = [("log", self.lid())]
        if r.random() < 0.5:
            b.append(("probe",))
        for _ in range(r.randint(0, maxlen - 1)):
            if depth > 0 and r.random() < 0.55:
                b.append(self.compound(depth - 1, in_loop))
            else:
                s = self.leaf(in_loop)
                b.append(s)
                if s[0] in ("raise", "reraise", "ret", "brk", "cont"):
                    break      # the rest would be dead code
        return b

    def handlers(self, depth, in_loop):
        r = self.rng
        hs = []
        for _ in range(r.choice([1, 1, 1, 2])):
            pat = r.choice([3, 4, 5, 0])
            name = r.choice([None, None, 1, 2, 3])
            body = self.block(depth, in_loop, 2) if r.random() < 0.85 else r.choice([[], [("ret",)]])
            hs.append((pat, name, body))
        if r.random() < 0.35:
            body = self.block(depth, in_loop, 2) if r.random() < 0.8 else []
            hs.append((None, None, body))
        return hs

    def compound(self, depth, in_loop):
        r = self.rng
        k = r.choice(["try", "try", "fin", "fin", "tryfin", "with", "loop"])
        if k == "try":
            return ("try", self.block(depth, in_loop), self.handlers(depth, in_loop),
                    self.block(depth, in_loop, 2) if r.random() < 0.3 else None)
        if k == "fin":
            return ("fin", self.block(depth, in_loop), self.block(depth, in_loop, 2))
        if k == "tryfin":
            t = ("try", self.block(depth, in_loop), self.handlers(depth, in_loop),
                 self.block(depth, in_loop, 2) if r.random() < 0.3 else None)
            return ("fin", [t], self.block(depth, in_loop, 2))
        if k == "with":
            xk = r.choice([("xpass",), ("xpass",), ("xswallow",), ("xraise", r.choice([3, 4]))])
            return ("with", self.lid(), xk, self.block(depth, in_loop))
        return ("loop", r.choice([1, 2, 2, 3]), self.block(depth, True))

    def program(self):
        while True:
            self.n = 0
            p = [self.compound(2, False)]
            if self.rng.random() < 0.4:
                p.append(("probe",))
                p.append(self.compound(1, False))
            p.append(("probe",))
            if 4 <= size(p) <= 40 and c_cost(p) <= 200 and names_ok(p):
                return p


# systematic family: outer shape x position x inner shape x position x injected action
def shapes():
    """each shape: function(holes: dict position -> block) -> statement, and its positions"""
    def s_try(h): return ("try", h["body"], [(3, None, h["h1"]), (None, None, h["h2"])], None)
    def s_tryas(h): return ("try", h["body"], [(0, 1, h["h1"])], None)
    def s_tryelse(h): return ("try", h["body"], [(4, None, h["h1"])], h["else"])
    def s_fin(h): return ("fin", h["body"], h["fin"])
    def s_tef(h): return ("fin", [("try", h["body"], [(0, 2, h["h1"])], None)], h["fin"])
    def s_wpass(h): return ("with", 90, ("xpass",), h["body"])
    def s_wsw(h): return ("with", 91, ("xswallow",), h["body"])
    def s_wr(h): return ("with", 92, ("xraise", 4), h["body"])
    def s_loopfin(h): return ("loop", 2, [("fin", h["body"], h["fin"])])
    return [("try", s_try, ["body", "h1", "h2"]), ("tryas", s_tryas, ["body", "h1"]),
            ("tryelse", s_tryelse, ["body", "h1", "else"]), ("fin", s_fin, ["body", "fin"]),
            ("tef", s_tef, ["body", "h1", "fin"]), ("wpass", s_wpass, ["body"]),
            ("wsw", s_wsw, ["body"]), ("wr", s_wr, ["body"]), ("loopfin", s_loopfin, ["body", "fin"])]


ACTIONS = [("raise", ("new", 3), ("nocause",)), ("raise", ("new", 4), ("fromnone",)),
           ("raise", ("new", 5), ("fromnew", 3)), ("reraise",), ("ret",), ("brk",),
           ("raise", ("var", 1), ("nocause",)), ("raise", ("new", 3), ("fromvar", 1))]


def systematic():
    """yield (tag, program)"""
    sh = shapes()
    for on, of, opos in sh:
        for ip in opos:
            for inn, inf, ipos in sh:
                for ap in ipos:
                    for ai, act in enumerate(ACTIONS):
                        if act[0] == "brk" and "loopfin" not in (on, inn):
                            continue
                        cnt = [0]

                        def blk(extra=None):
                            cnt[0] += 1
                            b = [("log", cnt[0]), ("probe",)]
                            if extra is not None:
                                b.append(extra)
                            return b
                        # a first raise in the inner body so that handlers are reached, then the action
                        ih = {}
                        for p in ipos:
                            ih[p] = blk(act if p == ap else (("raise", ("new", 3), ("nocause",)) if p == "body" else None))
                        inner = inf(ih)
                        oh = {}
                        for p in opos:
                            if p == ip:
                                b = blk()
                                if p != "body" and False:
                                    pass
                                b.append(inner)
                                b.append(("probe",))
                                oh[p] = b
                            else:
                                oh[p] = blk(("raise", ("new", 5), ("nocause",)) if (p == "body" and ip != "body") else None)
                        outer = of(oh)
                        if names_ok([outer]):
                            yield ("%s.%s/%s.%s/a%d" % (on, ip, inn, ap, ai), [outer, ("probe",)])


# hand-written regression programs for the two defect families and the optimised paths
def fixed_programs():
    R = ("raise", ("new", 3), ("nocause",))
    return [
        ("fixed/reraise_twice",
         [("try", [R], [(None, None, [("try", [("reraise",)], [(None, None, [("probe",)])], None),
                                      ("probe",), ("reraise",)])], None)]),
        ("fixed/reraise_in_loop",
         [("try", [R], [(None, None, [("loop", 2, [("try", [("reraise",)], [(0, None, [("log", 1)])], None)])])], None)]),
        ("fixed/finally_caught_reraise",
         [("try", [("fin", [R], [("try", [("reraise",)], [(None, None, [("log", 1)])], None)])],
           [(None, None, [("probe",)])], None)]),
        ("fixed/with_in_handler_reraise",
         [("try", [R], [(None, None, [("try", [("with", 1, ("xpass",), [("reraise",)])], [(0, None, [("probe",)])], None),
                                      ("reraise",)])], None)]),
        ("fixed/trivial_handlers",
         [("try", [R], [(3, None, [])], None), ("probe",),
          ("try", [("raise", ("new", 4), ("nocause",))], [(None, None, [("ret",)])], None)]),
        ("fixed/handler_probe_after_nested",
         [("try", [R], [(3, 1, [("try", [("raise", ("new", 4), ("fromvar", 1))], [(4, 2, [("probe",)])], None),
                                ("probe",), ("raise", ("var", 1), ("fromnone",))])], None)]),
        ("fixed/return_in_finally_swallows",
         [("loop", 2, [("fin", [("log", 1), R], [("probe",), ("cont",)])]), ("probe",),
          ("fin", [R], [("probe",), ("ret",)])]),
        ("fixed/context_cycle",
         [("try", [R], [(3, 1, [("try", [("raise", ("new", 4), ("nocause",))],
                                 [(4, 2, [("try", [("raise", ("var", 1), ("nocause",))], [(3, None, [("probe",)])], None),
                                          ("probe",)])], None), ("probe",)])], None)]),
    ]


STAR = r'''
from c22h import _b, _p, _new, D, E3, E4, E5
def s0():
    try:
        raise ExceptionGroup("g", [_new(3), _new(4)])
    except* E3 as eg:
        _b(1); _p()
    except* E4:
        _b(2); _p()
    _p()
    return 7
def s1():
    try:
        raise ExceptionGroup("g", [_new(3), _new(4), _new(5)])
    except* E3:
        _b(1)
    _b(9)
def s2():
    try:
        raise _new(3)
    except* E3 as eg:
        _b(1); _p()
        n = len(eg.exceptions)
    return n
def s3():
    try:
        try:
            raise ExceptionGroup("g", [_new(3), _new(4)])
        except* E3:
            _b(1)
            raise _new(5)
    except* E5:
        _b(2); _p()
    except* E4:
        _b(3); _p()
    return 7
def s4():
    try:
        try:
            raise ExceptionGroup("g", [_new(3), ExceptionGroup("h", [_new(4), _new(3)])])
        except* E3:
            _b(1)
            raise
        finally:
            _b(2); _p()
    except* E4:
        _b(3)
    except* E3:
        _b(4); _p()
    return 7
def s5():
    try:
        _b(0)
    except* E3:
        _b(1)
    else:
        _b(2)
    finally:
        _b(3)
    _p()
    return 7
def s6():
    for i in range(2):
        try:
            try:
                raise ExceptionGroup("g", [_new(4)])
            except* E3:
                _b(1)
        except* E4 as g:
            _b(2); _p()
    return 7
'''
NSTAR = 7


def parse_model(line):
    m = re.match(r"^(.*) => (\S+) after=(\S+) slot=(\S+) names=(.*)$", line)
    if not m:
        return None
    return {"log": m.group(1).strip(), "out": m.group(2), "after": m.group(3), "slot": m.group(4)}


def parse_run(r):
    if "e" in r:
        return {"crash": r["e"], "msg": r.get("m", "")}
    s = r["r"]
    if s.startswith(("'", '"')):
        s = s[1:-1]
    m = re.match(r"^(.*) => (\S+) after=(\S+) resume=(\S+)$", s)
    if not m:
        return {"crash": "UNPARSED", "msg": s[:300]}
    return {"log": m.group(1).strip(), "out": m.group(2), "after": m.group(3), "resume": m.group(4)}


O2 = "E9:o2{c=-;x=-;s=0}"


def model_view(mm, ctx):
    """what the harness would observe if the implementation behaved like the model result mm"""
    resume = "-"
    if ctx == 2:
        resume = O2 if mm["slot"] == "-" else mm["slot"]
    return {"log": mm["log"], "out": mm["out"], "after": mm["after"], "resume": resume}


def build_modules(ctx, progs, per_module):
    specs, index = [], []
    for i in range(0, len(progs), per_module):
        chunk = progs[i:i + per_module]
        name = "c22m%d" % (i // per_module)
        src = ["# cython: language_level=3", "from c22h import _b, _p, _t, _new, _cm, E3, E4, E5", ""]
        for j, (tag, p) in enumerate(chunk):
            src.append(func_source("f%d" % j, p))
            index.append((name, "f%d" % j, tag, p))
        specs.append(dict(name=name, source="\n".join(src), workdir=ctx.workdir, cflags=["-O0"]))
    return specs, index


def stratum_of(tag, p, ctx_id):
    feats = set()

    def walk(b):
        for s in b:
            feats.add(s[0])
            if s[0] == "try":
                walk(s[1]); [walk(h[2]) for h in s[2]]; walk(s[3] or [])
            elif s[0] == "fin":
                walk(s[1]); walk(s[2])
            elif s[0] in ("with", "loop"):
                walk(s[-1])
    walk(p)
    kind = tag.split("/")[0] if tag.startswith(("fixed", "rand")) else "sys"
    f = "+".join(x for x in ("try", "fin", "with", "loop", "reraise") if x in feats)
    return "%s/ctx%d/%s" % (kind, ctx_id, f)


def run(ctx):
    quick = ctx.tier == "quick"
    with open(os.path.join(ctx.workdir, "c22h.py"), "w") as f:
        f.write(HELPER)
    with open(os.path.join(ctx.workdir, "c22run.py"), "w") as f:
        f.write(RUNNER)
    progs = list(fixed_programs())
    allsys = list(systematic())
    nsys, nrand = (26, 20) if quick else (260, 180)
    if nsys < len(allsys):
        allsys = ctx.rng.sample(allsys, nsys)
    progs += allsys
    g = Gen(ctx.rng)
    for i in range(nrand):
        progs.append(("rand/%d" % i, g.program()))
    specs, index = build_modules(ctx, progs, 6 if quick else 20)
    specs.append(dict(name="c22star", source="# cython: language_level=3\n" + STAR, workdir=ctx.workdir, cflags=["-O0"]))
    built = cybuild.build_many(specs, jobs=12)
    bad_mods = set()
    for (so, err), sp in zip(built, specs):
        if err is not None:
            bad_mods.add(sp["name"])
            ctx.corr_break("build " + sp["name"], sp["name"], str(err)[:1500], "module builds")
    if bad_mods:
        return
    # --- run: compiled and CPython, three calling contexts
    cases, meta = [], []
    for (mod, fn, tag, p) in index:
        for c in (0, 1, 2):
            for which in ("cy", "py"):
                cases.append(["c22run.run", [mod, fn, c, which]])
            meta.append((mod, fn, tag, p, c))
    res = cybuild.call_cases(ctx.workdir, cases, setup="import c22run", alarm=10)
    # --- model
    model = ctx.model("exc")
    mq = []
    for (mod, fn, tag, p, c) in meta:
        tk = " ".join(toks_block(p))
        mq.append("ref %d %s" % (c, tk))
        mq.append("sch %d %d %d %s" % (1 if FX_RERAISE else 0, 1 if FX_SLOT else 0, c, tk))
        mq.append("sch 1 %d %d %s" % (1 if FX_SLOT else 0, c, tk))
    mres = model.batch(mq)
    nviol = 0
    for i, (mod, fn, tag, p, c) in enumerate(meta):
        cy, py = parse_run(res[2 * i]), parse_run(res[2 * i + 1])
        mref, msch, mfix = [parse_model(x) for x in mres[3 * i:3 * i + 3]]
        src = func_source(fn, p)
        inp = {"tag": tag, "ctx": c, "tokens": " ".join(toks_block(p)), "source": src}
        ctx.case(stratum_of(tag, p, c), inp, sig=(inp["tokens"], c))
        if mref is None or msch is None or "crash" in py:
            ctx.corr_break("exc:harness", inp, str(py)[:300], str(mres[3 * i:3 * i + 2])[:300])
            continue
        # reference model vs CPython itself
        if model_view(mref, c) != py:
            ctx.corr_break("exc:ref-vs-cpython", inp, py, model_view(mref, c))
        klass = classify(msch, mfix, mref, c)
        if msch["out"] == "crash":
            # the scheme reaches the zeroed temps: behaviour of the C code is undefined
            if cy == py:
                ctx.corr_break("exc:sch-crash-not-observed", inp, cy, "crash")
            else:
                ctx.fail(klass, inp, cy, py, note="model: scheme reaches zeroed handler temps")
            continue
        if "crash" in cy or model_view(msch, c) != cy:
            ctx.corr_break("exc:sch-vs-compiled", inp, cy, model_view(msch, c))
        if cy != py:
            nviol += 1
            if nviol <= 40:
                ctx.fail(klass, inp, cy, py)
    # --- except*: differential only
    sc = []
    for j in range(NSTAR):
        for which in ("cy", "py"):
            sc.append(["c22run.run_star", ["c22star", "s%d" % j, which]])
    sres = cybuild.call_cases(ctx.workdir, sc, setup="import c22run", alarm=10)
    for j in range(NSTAR):
        a, b = sres[2 * j], sres[2 * j + 1]
        inp = {"star": "s%d" % j}
        ctx.case("exceptstar/differential", inp, sig=("star", j))
        if a != b and (a.get("r"), a.get("e")) != (b.get("r"), b.get("e")):
            ctx.fail("except_star_differs", inp, a, b)


def classify(msch, mfix, mref, c):
    if msch["out"] == "crash" and mfix["out"] != "crash":
        return "bare_reraise_after_caught_reraise"
    if c == 2 and msch["slot"] != mref["slot"]:
        return "exc_info_slot_not_restored_in_generator_frame"
    return "wrong_exception_semantics"


def replay(ctx, obj):
    inp = obj["input"]
    with open(os.path.join(ctx.workdir, "c22h.py"), "w") as f:
        f.write(HELPER)
    with open(os.path.join(ctx.workdir, "c22run.py"), "w") as f:
        f.write(RUNNER)
    if "star" in inp:
        cybuild.build("c22star", "# cython: language_level=3\n" + STAR, ctx.workdir)
        r = cybuild.call_cases(ctx.workdir, [["c22run.run_star", ["c22star", inp["star"], w]] for w in ("cy", "py")],
                               setup="import c22run")
    else:
        fn = re.match(r"def (\w+)", inp["source"]).group(1)
        src = "# cython: language_level=3\nfrom c22h import _b, _p, _t, _new, _cm, E3, E4, E5\n\n" + inp["source"]
        cybuild.build("c22rp", src, ctx.workdir)
        r = cybuild.call_cases(ctx.workdir, [["c22run.run", ["c22rp", fn, inp["ctx"], w]] for w in ("cy", "py")],
                               setup="import c22run")
    print("replayed:", json.dumps(inp)[:400], "\n compiled:", r[0], "\n cpython :", r[1], "\n expected", obj.get("expected"))
