"""C22 — Exception handling semantics match CPython (DESIGN 7/C22)."""
import json, os, re
import cybuild

TITLE = "Exception handling semantics match CPython"
EXTRACTS = ["Exc"]
RULE = ("generated functions: nested try/except(typed, bare, as-name)/else/finally, with-blocks "
        "(pass-through, swallowing, raising __exit__), for-loops with return/break/continue. Families: "
        "(a) hit-point templates: every statement shape (5 handler lists x else x finally, try/finally, 3 kinds "
        "of with) alone and nested at every clause position (body, each handler, else, finally, with body) of "
        "every outer shape, with a raise point in EVERY clause of both statements; one compiled function is run "
        "under all plans 'the clauses in set P (|P| <= 2, all singles, all/sampled pairs) raise classes c(p) in "
        "{E3,E4,E5}' so that every position raises classes its own / the outer handlers match and do not match, "
        "incl. bodies that cannot raise; the same shapes as the body of a 2-iteration loop where a point can "
        "also break / continue / return (loop-label and return-label interceptors); every raise point can also do a "
        "BARE raise (plan value R): all singles, pairs, and the chain plans 'one point does a bare raise, up to two "
        "other points raise E3/E5 (thorough: E4 too, and a second bare raise)' in which every planned point fires "
        "(decided by the CPython run) -- every <= 3-step path ending in or passing through a bare raise at every "
        "clause position (which handler's / which finally's exception is current there); the nested templates of the "
        "quick tier cover (outer clause kind: body, handler, else, finally) x (inner family: try/except, "
        "finally-bearing, with); (b) a raise (new / from None / from new / from name / of a name / bare) "
        "or return/break injected at every position of every shape pair, else clauses reached; (c) random trees "
        "of depth <= 3; (d) hand-written regressions. Every block logs itself and probes sys.exc_info(); each "
        "function is run in three calling contexts (nothing handled, inside a handler, from a generator frame "
        "inside a handler). distinct by (program after plan specialisation, context); non-trivial = at least one "
        "exception is raised while the trace has >= 2 events")
EXPLANATION = ("theorems: for ALL programs of the statement language (raise / raise from / bare raise, try/except "
               "typed-bare-as with the implicit deletion, else, finally, with-blocks with pass-through / swallowing / "
               "raising __exit__ (WithTransform), loops with return/break/continue, probes; any nesting) and all calling "
               "contexts, the compiler scheme (ExceptionSave/GetException/ExceptionReset/ExceptionSwap, handler temps, the "
               "GetException-skipping optimisation, the as-name try/finally rewriting, the with rewriting and its exit_var "
               "flag) yields the same outcome incl. exception identity, the same log (blocks, sys.exc_info() probes and "
               "__exit__ calls with snapshots of every __context__/__cause__/__suppress_context__) and the same "
               "sys.exc_info() afterwards as CPython's PUSH_EXC_INFO/POP_EXCEPT/WITH_EXCEPT_START semantics -- "
               "unconditionally for the repaired ReraiseStatNode (the code as it is now), and for the unrepaired one unless "
               "the zeroed-temps state is reached (refuted with a witness); the top exc_info item is restored exactly when "
               "nothing is handled underneath or ExceptionSave is repaired (refuted otherwise); finally runs once; return "
               "in finally swallows. Label level (M_ExcLab): gen mirrors the label allocations and assignments of "
               "TryExcept/ExceptClause/TryFinally/With/loop code generation over the mutable label state (error, return, "
               "break, continue label, counter); exec_lab dispatches on the LABEL an exit jumps to; proved for ALL "
               "statements, all label states and machine states: the label code leaves by exactly the label standing for "
               "the scheme's outcome (so the handler set active at each clause position is the structural one), labels are "
               "restored after each statement, whole functions run_lab = run_sch, hence = CPython; exits of an else clause "
               "bypass the statement's own handlers; refuted for the variant that switches the error label after the else "
               "clause. The running compiler is tied to it dynamically (compiled vs run_lab vs CPython on every case) and "
               "statically (the error label of every block marker in the generated C equals the model's up to an "
               "order-preserving, kind-preserving renaming). Temp level (M_ExcVars): annot mirrors the assignments of "
               "code.funcstate.exc_vars (ExceptClauseNode: the GetException temps when the body may need the exception; "
               "TryFinallyStatNode: its own temps for the exception copy of the finally clause only) and resolves every "
               "bare raise / with-handler at generation time; exec_a runs over a store of temps; proved for ALL "
               "statements, exc_vars values and states: simulates the scheme (cur = content of the temps exc_vars names, "
               "a statement writes only its own constructs' temps), whole functions run_tmp = run_sch hence = CPython "
               "(propagating exception, chain fields, every probe); a bare raise as finally clause re-raises the "
               "propagating exception under any enclosing handler; refuted for the variant that keeps an enclosing "
               "handler's exc_vars in the exception copy. Tied dynamically (compiled vs run_tmp vs CPython) and "
               "statically: for every __Pyx_ErrRestoreWithState / __Pyx_ReraiseException of the generated C, the "
               "construct whose __Pyx_GetException filled the temps it reads (handler line / finally clause / dynamic) "
               "and the exception copies it lies in must be a resolution of M_ExcVars.resolve for that source line. "
               "partial: except* is differential only (compiled vs CPython, "
               "no model); label_used / is_terminator driven omission of dead copies and of the Save/Reset pair is not "
               "modelled (exercised by the generators: bodies without error exit); tracebacks and yield inside try are "
               "excluded.")
TRUSTED = ["temp model: one variable per allocating construct (Cython reuses released temps for sibling constructs; "
           "temps are always written at clause entry before they are read); the return/break/continue copies of a "
           "finally clause are resolved like the normal copy; the static tie is one-directional (every reader in the C "
           "is a resolution of the model; dead copies are absent from the C)",
           "label model simplifications: break/continue labels always allocated, every finally copy generated, "
           "can_raise=False specialisation (no Save/Reset when the try body has no error exit) not modelled",
           "plan specialisation: a call _h(k) that raises class c == an inline 'raise _new(c)' at that position",
           "reference semantics exec_ref written from CPython 3.12 ceval.c/errors.c (validated against the "
           "running CPython on every case)",
           "CPython 3.12 as the property oracle",
           "gcc as a conforming C compiler"]
ASSUMPTIONS = ["CPython 3.12, CYTHON_FAST_THREAD_STATE and CYTHON_USE_EXC_INFO_STACK enabled (default build)",
               "exception classes without custom __init__/__eq__; context managers are ordinary Python objects"]

# flags to flip after the proposed fixes are applied to /repo
FX_RERAISE = os.environ.get("C22_FX_RERAISE", "1") == "1"   # proposed_fixes/C22-bare_reraise_twice.diff
FX_SLOT = os.environ.get("C22_FX_SLOT", "1") == "1"         # proposed_fixes/C22-exc_info_slot.diff

HELPER = r'''
import sys, os
LOG = []
CNT = [0]
TICKS = [0]
def _tick():
    # a mis-compiled function can loop forever in C; every block is instrumented, so bound the events
    TICKS[0] += 1
    if TICKS[0] > 5000:
        os._exit(77)
class E3(Exception): pass
class E4(Exception): pass
class E5(Exception): pass
class E9(Exception): pass
CLS = {0: Exception, 3: E3, 4: E4, 5: E5, 9: E9}
def reset():
    del LOG[:]
    del HITS[:]
    CNT[0] = 0
    TICKS[0] = 0
def _new(c):
    e = CLS[c]()
    e.serial = CNT[0]
    CNT[0] += 1
    return e
def D(e, depth=4):
    if e is None:
        return "-"
    if depth == 0:
        return "~"
    return "%s:%s{c=%s;x=%s;s=%d}" % (type(e).__name__, getattr(e, "serial", "i"), D(e.__cause__, depth - 1),
                                     D(e.__context__, depth - 1), 1 if e.__suppress_context__ else 0)
def _b(n):
    _tick()
    LOG.append("B%d" % n)
PLAN = {}
HITS = []
def _h(k):
    # raise point / exit point: PLAN[k] = exception class number, or 'b' / 'c' / 'r' / 'R' (the caller
    # then executes break / continue / return / a bare raise)
    _tick()
    c = PLAN.get(k)
    if c is None:
        return 0
    HITS.append(k)
    if isinstance(c, int):
        raise _new(c)
    return {"b": 1, "c": 2, "r": 3, "R": 4}[c]
def _t():
    return True
def _p():
    _tick()
    LOG.append("P[%s]" % D(sys.exc_info()[1]))
class _cm(object):
    def __init__(self, k, mode, c=0):
        self.k, self.mode, self.c = k, mode, c
    def __enter__(self):
        _tick()
        LOG.append("N%d" % self.k)
    def __exit__(self, t, v, tb):
        LOG.append("X%d[%s|%s]" % (self.k, D(v), D(sys.exc_info()[1])))
        if self.mode == 1:
            return True
        if self.mode == 2:
            raise CLS[self.c]()
        return False

def run_case(f, ctx, plan=()):
    """returns 'trace => outcome after=.. resume=..'"""
    reset()
    PLAN.clear()
    PLAN.update(plan)
    res = {}
    def call():
        exc = None
        r = None
        try:
            r = f()
        except BaseException as e:
            exc = e
        after = D(sys.exc_info()[1])
        if exc is not None:
            out = "raise[%s]" % D(exc)
        else:
            out = "ret" if r == 7 else "norm"
        res["out"] = out
        res["after"] = after
        res["log"] = " ".join(LOG)
    if ctx == 0:
        call()
        res["resume"] = "-"
    elif ctx == 1:
        try:
            raise _new(9)
        except E9:
            call()
        res["resume"] = "-"
    else:
        def g():
            call()
            yield 1
            res["resume"] = D(sys.exc_info()[1])
            yield 2
        try:
            raise _new(9)
        except E9:
            it = g()
            next(it)
        o2 = E9()
        o2.serial = "o2"
        try:
            raise o2
        except E9:
            next(it)
    return "%s => %s after=%s resume=%s" % (res["log"], res["out"], res["after"], res["resume"])
'''

RUNNER = r'''
import sys, importlib, json
import c22h
_PYNS = {}
def load_py(modname):
    if modname not in _PYNS:
        ns = {}
        src = open(modname + ".pyx").read()
        exec(compile(src, modname + "_py", "exec"), ns)
        _PYNS[modname] = ns
    return _PYNS[modname]
def run(modname, fname, ctx, which):
    if which == "cy":
        m = importlib.import_module(modname)
        f = getattr(m, fname)
    else:
        f = load_py(modname)[fname]
    return c22h.run_case(f, ctx)
_EFF = {}
def effective(modname, fname, cands):
    """indices of the candidate plans in which every planned point fires (CPython run, nothing handled)"""
    key = (modname, fname)
    if key not in _EFF:
        f = load_py(modname)[fname]
        keep = []
        for i, pl in enumerate(cands):
            c22h.run_case(f, 0, [tuple(x) for x in pl])
            if len(set(c22h.HITS)) == len(pl):
                keep.append(i)
        _EFF[key] = keep
    return _EFF[key]
def run_plans(modname, fname, which, ctxs, plans, cands=None):
    if which == "cy":
        f = getattr(importlib.import_module(modname), fname)
    else:
        f = load_py(modname)[fname]
    out = []
    if cands is not None:
        eff = effective(modname, fname, cands)
        out.append(list(eff))
        plans = list(plans) + [cands[i] for i in eff]
    return out + [c22h.run_case(f, c, [tuple(x) for x in pl]) for pl in plans for c in ctxs]
def run_star(modname, fname, which):
    if which == "cy":
        f = getattr(importlib.import_module(modname), fname)
    else:
        f = load_py(modname)[fname]
    c22h.reset()
    try:
        r = f()
        out = "ret %r" % (r,)
    except BaseException as e:
        out = "raise " + DG(e)
    return " ".join(c22h.LOG) + " => " + out + " after=" + c22h.D(sys.exc_info()[1])
def DG(e, depth=4):
    if e is None:
        return "-"
    if depth == 0:
        return "~"
    s = "%s:%s{c=%s;x=%s;s=%d}" % (type(e).__name__, getattr(e, "serial", "i"), DG(e.__cause__, depth - 1),
                                  DG(e.__context__, depth - 1), 1 if e.__suppress_context__ else 0)
    if isinstance(e, BaseExceptionGroup):
        s += "<" + ",".join(DG(x, depth - 1) for x in e.exceptions) + ">"
    return s
'''

# ----------------------------------------------------------------------------------------------
# programs: nested tuples.  A block is a list of statements.
#   ("log", n) ("probe",) ("raise", what, cause) ("reraise",) ("ret",) ("brk",) ("cont",)
#   ("try", block, [(pat, name, block)], block_or_None) ("fin", block, block)
#   ("with", k, xk, block) ("loop", n, block)
#   what = ("new", c) | ("var", x); cause = ("nocause",) | ("fromnone",) | ("fromnew", c) | ("fromvar", x)
#   pat = None (bare) | 0 (Exception) | c ; name = None | x ; xk = ("xpass",)|("xswallow",)|("xraise", c)

def toks_block(b):
    if not b:
        return ["skip"]
    if len(b) == 1:
        return toks_stmt(b[0])
    return ["seq"] + toks_stmt(b[0]) + toks_block(b[1:])


def toks_stmt(s):
    t = s[0]
    if t in ("probe", "reraise", "ret", "brk", "cont", "skip"):
        return [t]
    if t == "log":
        return ["log", str(s[1])]
    if t in ("hit", "hitx"):  # static view of a raise point: a call with an error exit, then a bare raise
        return ["seq", "log", str(1000 + s[1]), "reraise"]
    if t == "raise":
        return ["raise"] + [str(x) for x in s[1]] + [str(x) for x in s[2]]
    if t == "try":
        out = ["try"] + toks_block(s[1]) + [str(len(s[2]))]
        for pat, name, body in s[2]:
            out += (["any"] if pat is None else ["p", str(pat)])
            out += (["noname"] if name is None else ["as", str(name)])
            out += toks_block(body)
        return out + toks_block(s[3] or [])
    if t == "fin":
        return ["fin"] + toks_block(s[1]) + toks_block(s[2])
    if t == "with":
        return ["with", str(s[1])] + [str(x) for x in s[2]] + toks_block(s[3])
    if t == "loop":
        return ["loop", str(s[1])] + toks_block(s[2])
    raise ValueError(s)


CLSNAME = {0: "Exception", 3: "E3", 4: "E4", 5: "E5"}


def src_block(b, ind, out):
    if not b:
        out.append(ind + "pass")
    return [src_stmt(s, ind, out) for s in b]


def src_stmt(s, ind, out):
    """appends the source lines of s to out; returns the layout node of s: kind, line (1 = the def
    line) and the nodes of the sub-blocks -- what the static exc_vars tie needs"""
    t = s[0]
    node = {"t": t, "line": len(out) + 1}
    if t == "skip":
        out.append(ind + "pass")
    elif t == "log":
        out.append(ind + "_b(%d)" % s[1])
    elif t == "probe":
        out.append(ind + "_p()")
    elif t == "hit":          # the point can raise a new exception (inside _h) or do a bare raise
        out.append(ind + "_a = _h(%d)" % s[1])
        out.append(ind + "if _a == 4:")
        node["rline"] = len(out) + 1
        out.append(ind + "    raise")
    elif t == "hitx":         # inside a loop: the point can also break / continue / return
        out.append(ind + "_a = _h(%d)" % s[1])
        out.append(ind + "if _a == 1:")
        out.append(ind + "    break")
        out.append(ind + "elif _a == 2:")
        out.append(ind + "    continue")
        out.append(ind + "elif _a == 3:")
        out.append(ind + "    return 7")
        out.append(ind + "elif _a == 4:")
        node["rline"] = len(out) + 1
        out.append(ind + "    raise")
    elif t == "raise":
        w = "_new(%d)" % s[1][1] if s[1][0] == "new" else "x%d" % s[1][1]
        c = s[2]
        cz = {"nocause": "", "fromnone": " from None"}.get(c[0])
        if cz is None:
            cz = " from _new(%d)" % c[1] if c[0] == "fromnew" else " from x%d" % c[1]
        out.append(ind + "raise " + w + cz)
    elif t == "reraise":
        node["rline"] = len(out) + 1
        out.append(ind + "raise")
    elif t == "ret":
        out.append(ind + "return 7")
    elif t == "brk":
        out.append(ind + "break")
    elif t == "cont":
        out.append(ind + "continue")
    elif t == "try":
        out.append(ind + "try:")
        node["body"] = src_block(s[1], ind + "    ", out)
        node["hs"] = []
        for pat, name, body in s[2]:
            h = "except" + ("" if pat is None else " " + CLSNAME[pat]) + ("" if name is None else " as x%d" % name) + ":"
            hl = len(out) + 1
            out.append(ind + h)
            node["hs"].append({"line": hl, "name": name, "src": body, "body": src_block(body, ind + "    ", out)})
        node["else"] = []
        if s[3] is not None:
            out.append(ind + "else:")
            node["else"] = src_block(s[3], ind + "    ", out)
    elif t == "fin":
        out.append(ind + "try:")
        node["body"] = src_block(s[1], ind + "    ", out)
        out.append(ind + "finally:")
        node["finline"] = len(out) + 1          # first statement of the clause
        node["fin"] = src_block(s[2], ind + "    ", out)
        node["finend"] = len(out)
    elif t == "with":
        xk = s[2]
        mode = {"xpass": "0", "xswallow": "1"}.get(xk[0]) or ("2, %d" % xk[1])
        out.append(ind + "with _cm(%d, %s):" % (s[1], mode))
        node["body"] = src_block(s[3], ind + "    ", out)
    elif t == "loop":
        out.append(ind + "for _i in range(%d):" % s[1])
        node["body"] = src_block(s[2], ind + "    ", out)
    else:
        raise ValueError(s)
    return node


def func_source(name, prog):
    out = ["def %s():" % name]
    src_block(prog, "    ", out)
    return "\n".join(out) + "\n"


def func_layout(prog):
    return src_block(prog, "    ", ["def"])


def fin_ranges(layout):
    out = []

    def block(nodes):
        for nd in nodes:
            for k in ("body", "else", "fin"):
                if k in nd:
                    block(nd[k])
            for h in nd.get("hs", ()):
                block(h["body"])
            if nd["t"] == "fin":
                out.append((nd["finline"], nd["finend"]))
    block(layout)
    return out


def fin_of_line(ranges, ln):
    """first line of the innermost finally clause whose lines contain ln (None: none does)"""
    c = [a for a, b in ranges if a <= ln <= b]
    return max(c) if c else None


def trivial_block(b):
    """HasNoExceptionHandlingVisitor (M_Exc.trivial): pass / return only"""
    return all(s[0] in ("skip", "ret") for s in b)


def expected_readers(layout):
    """the readers of exception temps of a function in the emission order of M_ExcVars.readers, each as
    (kind, source line, stack of enclosing exception copies of finally clauses), and the table
    construct number -> (kind of provider, its line), numbered as M_ExcVars.annot numbers them:
    try: body, else, handlers (handler n, an as-name handler's implicit try/finally n+1);
    try/finally: the statement n, body from n+1, then the clause (both copies the same numbers);
    with: the try/finally of WithTransform n, body from n+1, then its except clause"""
    prov = {}
    readers = []
    cnt = [0]

    def block(nodes, stack):
        for nd in nodes:
            stmt(nd, stack)

    def stmt(nd, stack):
        t = nd["t"]
        if t in ("reraise", "hit", "hitx"):
            readers.append(("b", nd["rline"], stack))
        elif t == "try":
            block(nd["body"], stack)
            block(nd["else"], stack)
            for h in nd["hs"]:
                n = cnt[0]
                cnt[0] += 1
                prov[n] = ("h", h["line"])
                if h["name"] is not None:
                    cnt[0] += 1            # try: body finally: del name
                block(h["body"], stack)
        elif t == "fin":
            n = cnt[0]
            cnt[0] += 1
            prov[n] = ("f", nd["finline"])
            block(nd["body"], stack)
            c0 = cnt[0]
            block(nd["fin"], stack)
            c1 = cnt[0]
            cnt[0] = c0
            block(nd["fin"], stack + (nd["finline"],))
            assert cnt[0] == c1
        elif t == "with":
            cnt[0] += 1
            block(nd["body"], stack)
            n = cnt[0]
            cnt[0] += 1
            prov[n] = ("h", nd["line"])
            readers.append(("w", nd["line"], stack))
        elif t == "loop":
            block(nd["body"], stack)
    block(layout, ())
    return readers, prov


def names_ok(b, scope=frozenset()):
    """every name use lies inside the handler that binds it and no handler rebinds a name in scope
    (Cython rejects reads of definitely-unbound locals at compile time: outside the property)"""
    for s in b:
        t = s[0]
        if t == "raise":
            if s[1][0] == "var" and s[1][1] not in scope:
                return False
            if s[2][0] == "fromvar" and s[2][1] not in scope:
                return False
        elif t == "try":
            if not names_ok(s[1], scope) or not names_ok(s[3] or [], scope):
                return False
            for pat, name, body in s[2]:
                if name is not None and name in scope:
                    return False
                if not names_ok(body, scope | {name} if name is not None else scope):
                    return False
        elif t == "fin":
            if not names_ok(s[1], scope) or not names_ok(s[2], scope):
                return False
        elif t in ("with", "loop"):
            if not names_ok(s[-1], scope):
                return False
    return True


def size(b):
    n = 0
    for s in b:
        n += 1
        if s[0] == "try":
            n += size(s[1]) + sum(size(h[2]) for h in s[2]) + size(s[3] or [])
        elif s[0] == "fin":
            n += size(s[1]) + size(s[2])
        elif s[0] in ("with", "loop"):
            n += size(s[-1])
    return n


def c_cost(b):
    """rough size of the generated C: finally clauses are copied once per exit kind"""
    n = 0
    for s in b:
        if s[0] == "try":
            n += 3 + c_cost(s[1]) + sum(2 + c_cost(h[2]) * (3 if h[1] is not None else 1) for h in s[2]) + c_cost(s[3] or [])
        elif s[0] == "fin":
            n += 3 + c_cost(s[1]) + 5 * c_cost(s[2])
        elif s[0] == "with":
            n += 8 + c_cost(s[3])
        elif s[0] == "loop":
            n += 1 + c_cost(s[2])
        else:
            n += 1
    return n


class Gen:
    def __init__(self, rng):
        self.rng = rng
        self.n = 0

    def lid(self):
        self.n += 1
        return self.n

    def what(self):
        r = self.rng
        return ("new", r.choice([3, 4, 5])) if r.random() < 0.7 else ("var", r.choice([1, 2, 3]))

    def cause(self):
        r = self.rng
        x = r.random()
        if x < 0.55:
            return ("nocause",)
        if x < 0.7:
            return ("fromnone",)
        if x < 0.87:
            return ("fromnew", r.choice([3, 4, 5]))
        return ("fromvar", r.choice([1, 2, 3]))

    def leaf(self, in_loop):
        r = self.rng
        x = r.random()
        if x < 0.30:
            return ("raise", self.what(), self.cause())
        if x < 0.45:
            return ("reraise",)
        if x < 0.65:
            return ("probe",)
        if x < 0.73:
            return ("ret",)
        if x < 0.83 and in_loop:
            return (r.choice(["brk", "cont"]),)
        return ("log", self.lid())

    def block(self, depth, in_loop, maxlen=3):
        r = self.rng
        b = [("log", self.lid())]
        if r.random() < 0.5:
            b.append(("probe",))
        for _ in range(r.randint(0, maxlen - 1)):
            if depth > 0 and r.random() < 0.55:
                b.append(self.compound(depth - 1, in_loop))
            else:
                s = self.leaf(in_loop)
                b.append(s)
                if s[0] in ("raise", "reraise", "ret", "brk", "cont"):
                    break      # the rest would be dead code
        return b

    def handlers(self, depth, in_loop):
        r = self.rng
        hs = []
        for _ in range(r.choice([1, 1, 1, 2])):
            pat = r.choice([3, 4, 5, 0])
            name = r.choice([None, None, 1, 2, 3])
            body = self.block(depth, in_loop, 2) if r.random() < 0.85 else r.choice([[], [("ret",)]])
            hs.append((pat, name, body))
        if r.random() < 0.35:
            body = self.block(depth, in_loop, 2) if r.random() < 0.8 else []
            hs.append((None, None, body))
        return hs

    def compound(self, depth, in_loop):
        r = self.rng
        k = r.choice(["try", "try", "fin", "fin", "tryfin", "with", "loop"])
        if k == "try":
            return ("try", self.block(depth, in_loop), self.handlers(depth, in_loop),
                    self.block(depth, in_loop, 2) if r.random() < 0.3 else None)
        if k == "fin":
            return ("fin", self.block(depth, in_loop), self.block(depth, in_loop, 2))
        if k == "tryfin":
            t = ("try", self.block(depth, in_loop), self.handlers(depth, in_loop),
                 self.block(depth, in_loop, 2) if r.random() < 0.3 else None)
            return ("fin", [t], self.block(depth, in_loop, 2))
        if k == "with":
            xk = r.choice([("xpass",), ("xpass",), ("xswallow",), ("xraise", r.choice([3, 4]))])
            return ("with", self.lid(), xk, self.block(depth, in_loop))
        return ("loop", r.choice([1, 2, 2, 3]), self.block(depth, True))

    def program(self):
        while True:
            self.n = 0
            p = [self.compound(2, False)]
            if self.rng.random() < 0.4:
                p.append(("probe",))
                p.append(self.compound(1, False))
            p.append(("probe",))
            if 4 <= size(p) <= 40 and c_cost(p) <= 200 and names_ok(p):
                return p


# systematic family: outer shape x position x inner shape x position x injected action
def shapes():
    """each shape: function(holes: dict position -> block) -> statement, and its positions"""
    def s_try(h): return ("try", h["body"], [(3, None, h["h1"]), (None, None, h["h2"])], None)
    def s_tryas(h): return ("try", h["body"], [(0, 1, h["h1"])], None)
    def s_tryelse(h): return ("try", h["body"], [(3, None, h["h1"])], h["else"])
    def s_fin(h): return ("fin", h["body"], h["fin"])
    def s_tef(h): return ("fin", [("try", h["body"], [(0, 2, h["h1"])], None)], h["fin"])
    def s_wpass(h): return ("with", 90, ("xpass",), h["body"])
    def s_wsw(h): return ("with", 91, ("xswallow",), h["body"])
    def s_wr(h): return ("with", 92, ("xraise", 4), h["body"])
    def s_loopfin(h): return ("loop", 2, [("fin", h["body"], h["fin"])])
    return [("try", s_try, ["body", "h1", "h2"]), ("tryas", s_tryas, ["body", "h1"]),
            ("tryelse", s_tryelse, ["body", "h1", "else"]), ("fin", s_fin, ["body", "fin"]),
            ("tef", s_tef, ["body", "h1", "fin"]), ("wpass", s_wpass, ["body"]),
            ("wsw", s_wsw, ["body"]), ("wr", s_wr, ["body"]), ("loopfin", s_loopfin, ["body", "fin"])]


ACTIONS = [("raise", ("new", 3), ("nocause",)), ("raise", ("new", 4), ("fromnone",)),
           ("raise", ("new", 5), ("fromnew", 3)), ("reraise",), ("ret",), ("brk",),
           ("raise", ("var", 1), ("nocause",)), ("raise", ("new", 3), ("fromvar", 1))]


def systematic():
    """yield (tag, program)"""
    sh = shapes()
    for on, of, opos in sh:
        for ip in opos:
            for inn, inf, ipos in sh:
                for ap in ipos:
                    for ai, act in enumerate(ACTIONS):
                        if act[0] == "brk" and "loopfin" not in (on, inn):
                            continue
                        cnt = [0]

                        def blk(extra=None):
                            cnt[0] += 1
                            b = [("log", cnt[0]), ("probe",)]
                            if extra is not None:
                                b.append(extra)
                            return b
                        # a first raise in the inner body so that handlers are reached (not when the
                        # action sits in the else clause: the body must complete), then the action
                        ih = {}
                        for p in ipos:
                            ih[p] = blk(act if p == ap else
                                        (("raise", ("new", 3), ("nocause",)) if (p == "body" and ap != "else") else None))
                        inner = inf(ih)
                        oh = {}
                        for p in opos:
                            if p == ip:
                                b = blk()
                                if p != "body" and False:
                                    pass
                                b.append(inner)
                                b.append(("probe",))
                                oh[p] = b
                            else:
                                oh[p] = blk(("raise", ("new", 5), ("nocause",))
                                            if (p == "body" and ip not in ("body", "else")) else None)
                        outer = of(oh)
                        if names_ok([outer]):
                            yield ("%s.%s/%s.%s/a%d" % (on, ip, inn, ap, ai), [outer, ("probe",)])


# ----------------------------------------------------------------------------------------------
# hit-point templates: a raise point _h(k) in every clause; which points raise which class is chosen
# at run time (PLAN), so one compiled function covers position x class x handler-set exhaustively
HANDLER_LISTS = {
    "t": [(3, None)],                    # one typed clause
    "at": [(3, 1), (4, None)],           # as-name + typed
    "tb": [(3, None), (None, None)],     # typed + bare
    "b": [(None, None)],                 # bare only
    "ea": [(0, 2)],                      # except Exception as x
}


class Tmpl:
    """builds one template program; hits/logs are numbered in source order"""
    def __init__(self, in_loop=False):
        self.nlog = 0
        self.nhit = 0
        self.in_loop = in_loop
        self.points = []        # (hit id, position name)

    def blk(self, pos, inner=None, can_raise=True):
        self.nlog += 1
        b = [("log", self.nlog), ("probe",)]
        if inner is not None:
            b.append(inner(self))
        if can_raise:
            self.nhit += 1
            self.points.append((self.nhit, pos))
            b.append(("hitx" if self.in_loop else "hit", self.nhit))
        return b


def shape_try(hl, has_else, has_fin, quiet_body=False):
    """returns (name, positions, build(t, prefix, inner_at, inner))"""
    name = "try_%s%s%s%s" % (hl, "_e" if has_else else "", "_f" if has_fin else "", "_q" if quiet_body else "")
    positions = ["body"] + ["h%d" % i for i in range(len(HANDLER_LISTS[hl]))] + (["else"] if has_else else []) + \
                (["fin"] if has_fin else [])

    def build(t, prefix, inner_at=None, inner=None):
        def blk(pos, **kw):
            return t.blk(prefix + pos, inner if pos == inner_at else None, **kw)
        if quiet_body:
            body = []                  # 'pass': the try body has no error exit (can_raise = False)
        else:
            body = blk("body")
        hs = [(pat, nm, blk("h%d" % i)) for i, (pat, nm) in enumerate(HANDLER_LISTS[hl])]
        st = ("try", body, hs, blk("else") if has_else else None)
        if has_fin:
            st = ("fin", [st], blk("fin"))
        return st
    return name, positions, build


def shape_fin():
    def build(t, prefix, inner_at=None, inner=None):
        def blk(pos):
            return t.blk(prefix + pos, inner if pos == inner_at else None)
        return ("fin", blk("body"), blk("fin"))
    return "fin", ["body", "fin"], build


def shape_with(kind):
    xk = {"wpass": ("xpass",), "wsw": ("xswallow",), "wr": ("xraise", 4)}[kind]
    k = {"wpass": 90, "wsw": 91, "wr": 92}[kind]

    def build(t, prefix, inner_at=None, inner=None):
        return ("with", k + (5 if prefix == "i." else 0), xk, t.blk(prefix + "body", inner if inner_at == "body" else None))
    return kind, ["body"], build


def template_shapes():
    sh = [shape_try("t", True, False), shape_try("at", True, True), shape_try("tb", True, False),
          shape_try("b", True, True), shape_try("ea", True, False), shape_try("t", False, True),
          shape_fin(), shape_with("wpass"), shape_with("wsw"), shape_with("wr"),
          shape_try("t", True, False, quiet_body=True), shape_try("b", True, True, quiet_body=True)]
    return sh


def templates():
    """yield (tag, program, points): all single shapes, then every shape nested at every position of
    every outer shape"""
    sh = template_shapes()
    for name, pos, build in sh:
        t = Tmpl()
        st = build(t, "o.")
        yield ("tmpl/%s" % name, [st, ("probe",)], t.points)
    outer = [x for x in sh if not x[0].endswith("_q") and x[0] != "wr"]
    inner = [x for x in sh if x[0] not in ("wpass",)]
    for on, opos, obuild in outer:
        for ip in opos:
            for inn, ipos, ibuild in inner:
                t = Tmpl()
                st = obuild(t, "o.", ip, lambda tt: ibuild(tt, "i."))
                prog = [st, ("probe",)]
                if names_ok(prog):
                    yield ("tmpl/%s.%s/%s" % (on, ip, inn), prog, t.points)


def loop_templates():
    """the same shapes as the body of a two-iteration loop: every raise point can also break, continue
    or return (interceptors of the try/except and try/finally statements for the loop labels)"""
    sh = [x for x in template_shapes() if not x[0].endswith("_q")]
    for name, pos, build in sh:
        t = Tmpl(in_loop=True)
        st = build(t, "o.")
        yield ("tmpl/loop/%s" % name, [("loop", 2, [st, ("log", 99)]), ("probe",)], t.points)
    outer = [x for x in sh if x[0] in ("try_t_e", "try_tb_e", "try_b_e_f", "fin", "wsw")]
    inner = [x for x in sh if x[0] in ("try_t_e", "try_at_e_f", "fin", "wpass")]
    for on, opos, obuild in outer:
        for ip in opos:
            for inn, ipos, ibuild in inner:
                t = Tmpl(in_loop=True)
                st = obuild(t, "o.", ip, lambda tt: ibuild(tt, "i."))
                prog = [("loop", 2, [st, ("log", 99)]), ("probe",)]
                if names_ok(prog):
                    yield ("tmpl/loop/%s.%s/%s" % (on, ip, inn), prog, t.points)


def plans_for(points, rng, npairs, ntriples=0, exits=False):
    """the empty plan, every single raise point x class, pairs (all of them when npairs is None)"""
    ids = [k for k, _ in points]
    vals = (3, 4, 5, "R", "b", "c", "r") if exits else (3, 4, 5, "R")
    out = [()]
    for k in ids:
        for c in vals:
            out.append(((k, c),))
    pairs = [((a, ca), (b, cb)) for i, a in enumerate(ids) for b in ids[i + 1:] for ca in vals for cb in vals]
    if npairs is not None and len(pairs) > npairs:
        pairs = rng.sample(pairs, npairs)
    out += pairs
    for _ in range(ntriples):
        if len(ids) >= 3:
            tr = sorted(rng.sample(ids, 3))
            out.append(tuple((k, rng.choice(vals)) for k in tr))
    return out


def chain_candidates(points, classes, two_r=False):
    """plans for the exception STATE at a bare raise: one point does a bare raise, up to two other points
    raise a class of `classes` (which handler runs, what propagates through which finally); the runner
    keeps those in which every planned point fires, i.e. all <= 3-step paths that end in, or pass
    through, a bare raise.  two_r: also a second bare-raise point."""
    ids = [k for k, _ in points]
    out = []
    for r in ids:
        others = [k for k in ids if k != r]
        for i, a in enumerate(others):
            for ca in classes:
                for b in others[i + 1:]:
                    for cb in classes:
                        out.append(tuple(sorted(((r, "R"), (a, ca), (b, cb)))))
                    if two_r and r < b:
                        out.append(tuple(sorted(((r, "R"), (a, ca), (b, "R")))))
    return out


def specialise(b, plan):
    """the program the function behaves as under a plan: a raising point is an inline raise, the others vanish"""
    d = dict(plan)
    out = []
    for s in b:
        t = s[0]
        if t in ("hit", "hitx"):
            v = d.get(s[1])
            if isinstance(v, int):
                out.append(("raise", ("new", v), ("nocause",)))
            elif v is not None:
                out.append(({"b": "brk", "c": "cont", "r": "ret", "R": "reraise"}[v],))
        elif t == "try":
            out.append(("try", specialise(s[1], plan), [(pt, nm, specialise(hb, plan)) for pt, nm, hb in s[2]],
                        None if s[3] is None else specialise(s[3], plan)))
        elif t == "fin":
            out.append(("fin", specialise(s[1], plan), specialise(s[2], plan)))
        elif t == "with":
            out.append(("with", s[1], s[2], specialise(s[3], plan)))
        elif t == "loop":
            out.append(("loop", s[1], specialise(s[2], plan)))
        else:
            out.append(s)
    return out


# hand-written regression programs for the two defect families and the optimised paths
def fixed_programs():
    R = ("raise", ("new", 3), ("nocause",))
    return [
        ("fixed/reraise_twice",
         [("try", [R], [(None, None, [("try", [("reraise",)], [(None, None, [("probe",)])], None),
                                      ("probe",), ("reraise",)])], None)]),
        ("fixed/reraise_in_loop",
         [("try", [R], [(None, None, [("loop", 2, [("try", [("reraise",)], [(0, None, [("log", 1)])], None)])])], None)]),
        ("fixed/finally_caught_reraise",
         [("try", [("fin", [R], [("try", [("reraise",)], [(None, None, [("log", 1)])], None)])],
           [(None, None, [("probe",)])], None)]),
        ("fixed/with_in_handler_reraise",
         [("try", [R], [(None, None, [("try", [("with", 1, ("xpass",), [("reraise",)])], [(0, None, [("probe",)])], None),
                                      ("reraise",)])], None)]),
        ("fixed/trivial_handlers",
         [("try", [R], [(3, None, [])], None), ("probe",),
          ("try", [("raise", ("new", 4), ("nocause",))], [(None, None, [("ret",)])], None)]),
        ("fixed/handler_probe_after_nested",
         [("try", [R], [(3, 1, [("try", [("raise", ("new", 4), ("fromvar", 1))], [(4, 2, [("probe",)])], None),
                                ("probe",), ("raise", ("var", 1), ("fromnone",))])], None)]),
        ("fixed/return_in_finally_swallows",
         [("loop", 2, [("fin", [("log", 1), R], [("probe",), ("cont",)])]), ("probe",),
          ("fin", [R], [("probe",), ("ret",)])]),
        ("fixed/reraise_in_finally_in_handler",
         [("try", [R], [(None, None, [("fin", [("raise", ("new", 4), ("nocause",))], [("probe",), ("reraise",)])])], None)]),
        ("fixed/reraise_in_with_in_finally_in_handler",
         [("try", [("try", [R], [(3, 1, [("fin", [("raise", ("new", 4), ("fromvar", 1))],
                                           [("with", 1, ("xpass",), [("probe",), ("reraise",)])])])], None)],
           [(0, None, [("probe",)])], None)]),
        ("fixed/context_cycle",
         [("try", [R], [(3, 1, [("try", [("raise", ("new", 4), ("nocause",))],
                                 [(4, 2, [("try", [("raise", ("var", 1), ("nocause",))], [(3, None, [("probe",)])], None),
                                          ("probe",)])], None), ("probe",)])], None)]),
    ]


STAR = r'''
from c22h import _b, _p, _new, D, E3, E4, E5
def s0():
    try:
        raise ExceptionGroup("g", [_new(3), _new(4)])
    except* E3 as eg:
        _b(1); _p()
    except* E4:
        _b(2); _p()
    _p()
    return 7
def s1():
    try:
        raise ExceptionGroup("g", [_new(3), _new(4), _new(5)])
    except* E3:
        _b(1)
    _b(9)
def s2():
    try:
        raise _new(3)
    except* E3 as eg:
        _b(1); _p()
        n = len(eg.exceptions)
    return n
def s3():
    try:
        try:
            raise ExceptionGroup("g", [_new(3), _new(4)])
        except* E3:
            _b(1)
            raise _new(5)
    except* E5:
        _b(2); _p()
    except* E4:
        _b(3); _p()
    return 7
def s4():
    try:
        try:
            raise ExceptionGroup("g", [_new(3), ExceptionGroup("h", [_new(4), _new(3)])])
        except* E3:
            _b(1)
            raise
        finally:
            _b(2); _p()
    except* E4:
        _b(3)
    except* E3:
        _b(4); _p()
    return 7
def s5():
    try:
        _b(0)
    except* E3:
        _b(1)
    else:
        _b(2)
    finally:
        _b(3)
    _p()
    return 7
def s6():
    for i in range(2):
        try:
            try:
                raise ExceptionGroup("g", [_new(4)])
            except* E3:
                _b(1)
        except* E4 as g:
            _b(2); _p()
    return 7
'''
NSTAR = 7


# anchored regions outside the model's language, differential only (compiled vs CPython):
#   x0/x7 tuple patterns (__Pyx_PyErr_ExceptionMatches2), x1/x2 non-literal pattern expressions
#   (ExceptClauseNode has_non_literals: __Pyx_ErrFetch / __Pyx_ErrRestore around their evaluation),
#   x3 raising classes (instantiation in __Pyx_Raise, cause given as a class), x4 return values through
#   finally clauses (ret temp, return/continue in finally), x5 bare raise in a function without handler
#   called from a finally clause (__Pyx_ReraiseException), x6 raising a non-exception
EXTRA = r'''
from c22h import _b, _p, _new, D, E3, E4, E5, CLS
def x0():
    try:
        try:
            raise _new(4)
        except (E3, E4):
            _b(1); _p()
            raise
    except E4:
        _b(2); _p()
    _p()
    return 7
def x1():
    def pat(c):
        _b(10); _p()
        return CLS[c]
    try:
        try:
            raise _new(5)
        except pat(3):
            _b(1)
        except pat(5) as e:
            _b(2); _p()
            raise _new(3) from e
    except E3:
        _b(3); _p()
    return 7
def x2():
    def bad():
        _p()
        raise _new(4)
    try:
        try:
            raise _new(3)
        except bad():
            _b(1)
    except E4:
        _b(2); _p()
    _p()
    return 7
def x3():
    try:
        try:
            raise E3
        except E3:
            _p()
            raise E4 from E5
    except E4:
        _b(1); _p()
    return 7
def x4():
    def a():
        try:
            return 1
        finally:
            _b(1); _p()
    def b():
        try:
            raise _new(3)
        finally:
            _p()
            return 2
    def c():
        for i in range(3):
            try:
                return 10 + i
            finally:
                if i < 2:
                    continue
    r = (a(), b(), c())
    _p()
    return r
def _inner():
    _p()
    raise
def x5():
    try:
        try:
            raise _new(3)
        except E3:
            try:
                raise _new(4)
            finally:
                _inner()
    except E4:
        _b(1); _p()
    return 7
def x6():
    try:
        try:
            raise _new(3)
        except E3:
            raise 5
    except TypeError:
        _b(1); _p()
    return 7
def x7():
    try:
        try:
            raise _new(3)
        except E3 as x:
            try:
                raise _new(4)
            except (E5, E4) as y:
                _p()
                raise y from x
    except E4:
        _b(1); _p()
    _p()
    return 7
'''
EXTRA_CLASS = {"x1": "nonliteral_except_pattern_evaluated_without_current_exception",
               "x2": "raising_except_pattern_loses_context"}
NEXTRA = 8


def parse_model(line):
    m = re.match(r"^(.*) => (\S+) after=(\S+) slot=(\S+) names=(.*)$", line)
    if not m:
        return None
    return {"log": m.group(1).strip(), "out": m.group(2), "after": m.group(3), "slot": m.group(4)}


def parse_run(r):
    if "e" in r:
        return {"crash": r["e"], "msg": r.get("m", "")}
    s = r["r"]
    if s.startswith(("'", '"')):
        s = s[1:-1]
    m = re.match(r"^(.*) => (\S+) after=(\S+) resume=(\S+)$", s)
    if not m:
        return {"crash": "UNPARSED", "msg": s[:300]}
    return {"log": m.group(1).strip(), "out": m.group(2), "after": m.group(3), "resume": m.group(4)}


O2 = "E9:o2{c=-;x=-;s=0}"


def model_view(mm, ctx):
    """what the harness would observe if the implementation behaved like the model result mm"""
    resume = "-"
    if ctx == 2:
        resume = O2 if mm["slot"] == "-" else mm["slot"]
    return {"log": mm["log"], "out": mm["out"], "after": mm["after"], "resume": resume}


def build_modules(ctx, progs, per_module, prefix="c22m"):
    specs, index = [], []
    for i in range(0, len(progs), per_module):
        chunk = progs[i:i + per_module]
        name = "%s%d" % (prefix, i // per_module)
        src = [MODHEAD]
        for j, item in enumerate(chunk):
            src.append(func_source("f%d" % j, item[1]))
            index.append((name, "f%d" % j) + tuple(item))
        specs.append(dict(name=name, source="\n".join(src), workdir=ctx.workdir, cflags=["-O0"]))
    return specs, index


MODHEAD = "# cython: language_level=3\nfrom c22h import _b, _p, _t, _h, _new, _cm, E3, E4, E5\n"


DEFERRED = []          # failures reported after the behavioural ones (a run-time witness is more telling)


def build_all(ctx, specs, index):
    """build; a module that does not build is split into one module per function so that the
    failing programs are identified (ctx.fail) and the others still run.  Returns the usable index."""
    built = cybuild.build_many(specs, jobs=12)
    bad = {sp["name"]: err for (so, err), sp in zip(built, specs) if err is not None}
    if not bad:
        return index
    single, where = [], []
    for k, ent in enumerate(index):
        if ent[0] in bad:
            name = "%s_%s" % (ent[0], ent[1])
            single.append(dict(name=name, source=MODHEAD + "\n" + func_source(ent[1], ent[3]),
                               workdir=ctx.workdir, cflags=["-O0"]))
            where.append(k)
    rebuilt = cybuild.build_many(single, jobs=12)
    out = list(index)
    nfail = 0
    for (so, err), sp, k in zip(rebuilt, single, where):
        ent = index[k]
        if err is None:
            out[k] = (sp["name"],) + tuple(ent[1:])
        else:
            out[k] = None
            nfail += 1
            inp = {"tag": ent[2], "tokens": " ".join(toks_block(ent[3])), "source": func_source(ent[1], ent[3])}
            DEFERRED.append(("valid_program_does_not_build", inp, str(err)[-1200:], "the function compiles (CPython runs it)"))
    if nfail == 0:
        for name, err in bad.items():
            ctx.corr_break("build " + name, name, str(err)[-1500:], "module builds")
    return [e for e in out if e is not None]


# ---------------- static tie: error label of every block marker in the generated C ----------------
C_FUNC = re.compile(r"^static PyObject \*__pyx_pf_\w+?_\d*(f\d+)\([^;{]*\) \{\n", re.M)
C_ERR = re.compile(r"__PYX_ERR\(\d+, (\d+), (__pyx_L(\d+)(?:_(\w+))?)\)")


def c_sites(workdir, modname):
    """{function: {marker id: set of (label number, kind)}} from <mod>.c / <mod>.pyx"""
    with open(os.path.join(workdir, modname + ".pyx")) as f:
        lines = f.read().split("\n")
    marker = {}
    for ln, text in enumerate(lines, 1):
        m = re.match(r"^\s+_b\((\d+)\)\s*$", text)
        if m:
            marker[ln] = int(m.group(1))
        m = re.match(r"^\s+(?:_a = )?_h\((\d+)\)\s*$", text)
        if m:
            marker[ln] = 1000 + int(m.group(1))
    with open(os.path.join(workdir, modname + ".c")) as f:
        ctext = f.read()
    out = {}
    for m in C_FUNC.finditer(ctext):
        end = ctext.index("\n}\n", m.end())
        d = out.setdefault(m.group(1), {})
        for e in C_ERR.finditer(ctext, m.end(), end):
            mk = marker.get(int(e.group(1)))
            if mk is not None:
                d.setdefault(mk, set()).add((int(e.group(3)), e.group(4) or ""))
    return out


def match_labels(real, model):
    """is there a strictly increasing, kind-preserving injection phi from the labels of the real code
    into the labels of the model with phi(real[id]) <= model[id] for every marker id?  (the model
    generates every copy of a finally clause, the compiler only the used ones, both number labels
    in generation order).  Returns None if so, else a description of the first obstruction."""
    for mk in real:
        if mk not in model:
            return "marker %d not in the model" % mk
    rl = sorted({l for v in real.values() for l in v})
    cand = []
    for (n, kind) in rl:
        c = None
        for mk, v in real.items():
            if (n, kind) in v:
                ms = {l for (l, k) in model[mk] if k == kind}
                c = ms if c is None else (c & ms)
        if not c:
            mks = sorted(mk for mk, v in real.items() if (n, kind) in v)
            return "label L%d_%s used at markers %s: model labels there %s" % (
                n, kind, mks, {mk: sorted(model[mk]) for mk in mks[:4]})
        cand.append(sorted(c))

    def dfs(i, last):
        if i == len(cand):
            return True
        for x in cand[i]:
            if x > last and dfs(i + 1, x):
                return True
        return False
    if not dfs(0, -1):
        return "no order-preserving assignment: real %s candidates %s" % (rl, cand)
    return None


# ---------------- static tie: which temps every bare raise of the generated C reads ----------------
C_TOK = re.compile(
    r"(?P<exc>/\*exception exit:\*/\{)|(?P<open>\{)|(?P<close>\})"
    r"|/\* \"[^\"]*\":(?P<pos>\d+)\n"
    r"|__Pyx_GetException\(&(?P<g1>\w+), &(?P<g2>\w+), &(?P<g3>\w+)\)(?: < 0\) __PYX_ERR\(\d+, (?P<gl>\d+),)?"
    r"|__Pyx_ErrRestoreWithState\((?P<r1>\w+), (?P<r2>\w+), (?P<r3>\w+)\);"
    r"|(?P<dyn>__Pyx_ReraiseException\(\);)"
    r"|__PYX_ERR\(\d+, (?P<el>\d+),")


def c_readers(workdir, modname):
    """{function: (def line, set of (source line of the raise / with, provider, stack of enclosing
    exception copies))}; provider = ('h', line of the except clause / with statement) | ('f', line of the
    exception copy of a finally clause) | '-' (__Pyx_ReraiseException); a provider is the nearest
    preceding __Pyx_GetException that fills the temps the reader passes to __Pyx_ErrRestoreWithState;
    an exception copy is named by the smallest source line generated inside its block (fin_of_line maps
    it to the finally clause: the innermost clause whose line range contains it -- the body of a
    try/finally nested in the clause precedes that statement's own clause)"""
    with open(os.path.join(workdir, modname + ".pyx")) as f:
        lines = f.read().split("\n")
    deflines = {}
    for ln, text in enumerate(lines, 1):
        m = re.match(r"^def (f\d+)\(\):", text)
        if m:
            deflines[m.group(1)] = ln
    with open(os.path.join(workdir, modname + ".c")) as f:
        ctext = f.read()
    out = {}
    for m in C_FUNC.finditer(ctext):
        end = ctext.index("\n}\n", m.end())
        depth = 0
        exc = []              # [depth of the block, [smallest source line generated inside]]
        filled = {}           # frozenset of temps -> provider
        pending = None        # reader waiting for its __PYX_ERR line
        raw = []

        def seen(ln):
            for e in exc:
                if e[1][0] is None or ln < e[1][0]:
                    e[1][0] = ln
        for t in C_TOK.finditer(ctext, m.end(), end):
            if t.group("exc"):
                depth += 1
                exc.append([depth, [None]])
            elif t.group("open"):
                depth += 1
            elif t.group("close"):
                if exc and exc[-1][0] == depth:
                    exc.pop()
                depth -= 1
            elif t.group("pos"):
                seen(int(t.group("pos")))
            elif t.group("g1"):
                key = frozenset((t.group("g1"), t.group("g2"), t.group("g3")))
                if t.group("gl"):
                    seen(int(t.group("gl")))
                    filled[key] = ("h", [int(t.group("gl"))])
                else:
                    filled[key] = ("f", exc[-1][1] if exc else [None])
            elif t.group("r1"):
                key = frozenset((t.group("r1"), t.group("r2"), t.group("r3")))
                pending = (filled.get(key, ("?", [None])), tuple(e[1] for e in exc))
            elif t.group("dyn"):
                pending = (("-", [None]), tuple(e[1] for e in exc))
            elif t.group("el"):
                seen(int(t.group("el")))
                if pending is not None:
                    raw.append((int(t.group("el")),) + pending)
                    pending = None
        res = set()
        for ln, (pk, pl), st in raw:
            res.add((ln, pk if pk == "-" else (pk, pl[0]), tuple(x[0] for x in st)))
        out[m.group(1)] = (deflines.get(m.group(1)), res)
    return out


def parse_sites(line):
    d = {}
    for tok in line.split():
        n, l, k = tok.split(":")
        d.setdefault(int(n), set()).add((int(l), k))
    return d


def stratum_of(tag, p, ctx_id):
    feats = set()

    def walk(b):
        for s in b:
            feats.add(s[0])
            if s[0] == "try":
                walk(s[1]); [walk(h[2]) for h in s[2]]; walk(s[3] or [])
            elif s[0] == "fin":
                walk(s[1]); walk(s[2])
            elif s[0] in ("with", "loop"):
                walk(s[-1])
    walk(p)
    kind = tag.split("/")[0] if tag.startswith(("fixed", "rand", "tmpl")) else "sys"
    f = "+".join(x for x in ("try", "fin", "with", "loop", "reraise") if x in feats)
    return "%s/ctx%d/%s" % (kind, ctx_id, f)


def run(ctx):
    import time
    _T0 = [time.time()]
    def lap(what):
        if os.environ.get("C22_DEBUG"):
            print("  [c22] %-12s %.1fs" % (what, time.time() - _T0[0]))
        _T0[0] = time.time()
    quick = ctx.tier == "quick"
    with open(os.path.join(ctx.workdir, "c22h.py"), "w") as f:
        f.write(HELPER)
    with open(os.path.join(ctx.workdir, "c22run.py"), "w") as f:
        f.write(RUNNER)
    fx_r, fx_s = (1 if FX_RERAISE else 0), (1 if FX_SLOT else 0)
    # ---------------- programs ----------------
    progs = list(fixed_programs())
    allsys = list(systematic())
    nsys, nrand = (26, 20) if quick else (300, 180)
    if nsys < len(allsys):
        # stratified: a third of the sample has the action or the inner statement in an else clause
        grp_e = [x for x in allsys if ".else/" in x[0]]
        grp_o = [x for x in allsys if ".else/" not in x[0]]
        ne = min(len(grp_e), nsys // 3)
        allsys = ctx.rng.sample(grp_e, ne) + ctx.rng.sample(grp_o, nsys - ne)
    progs += allsys
    g = Gen(ctx.rng)
    for i in range(nrand):
        progs.append(("rand/%d" % i, g.program()))
    tmpl = list(templates())
    ltmpl = list(loop_templates())
    if quick:
        lsingle = [t for t in ltmpl if "/" not in t[0][10:]]
        ltmpl = [t for t in lsingle if t[0][10:] in ("try_at_e_f", "try_tb_e", "fin")] + \
            ctx.rng.sample([t for t in ltmpl if "/" in t[0][10:]], 2)
        single = [t for t in tmpl if "/" not in t[0][5:]]
        nested = [t for t in tmpl if "/" in t[0][5:]]
        # one nested template per (kind of outer position, family of the inner shape): every clause kind
        # (body, handler, else, finally) encloses a try/except, a finally-bearing statement and a with-block
        def family(inn):
            return "w" if inn.startswith("w") else ("f" if (inn == "fin" or "_f" in inn) else "t")
        by = {}
        for t in nested:
            o, inn = t[0][5:].split("/")
            posk = o.split(".")[1]
            posk = "h" if posk.startswith("h") else posk
            by.setdefault((posk, family(inn)), []).append(t)
        pick = [ctx.rng.choice(by[k]) for k in sorted(by)]
        tmpl = single + pick
    tmpl = tmpl + ltmpl
    if os.environ.get("C22_DEV"):          # development aid: a small run
        want = os.environ["C22_DEV"].split(",")
        progs = [x for x in progs if x[0].startswith("fixed/") and "nofixed" not in want]
        tmpl = [t for t in list(templates()) + list(loop_templates()) if any(w in t[0] for w in want)][:8]
    # templates and programs share modules: the fixed cost of a module (Cython start-up, 380 kB of
    # boilerplate C) dominates the build
    everything = []
    a, b = list(progs), list(tmpl)
    while a or b:                      # interleave so that every module gets both kinds
        if a:
            everything.append(a.pop(0))
        if a:
            everything.append(a.pop(0))
        if b:
            everything.append(b.pop(0))
    specs_all, index_all = build_modules(ctx, everything, 9 if quick else 20)
    specs_all.append(dict(name="c22star", source="# cython: language_level=3\n" + STAR, workdir=ctx.workdir, cflags=["-O0"]))
    specs_all.append(dict(name="c22extra", source="# cython: language_level=3\n" + EXTRA, workdir=ctx.workdir, cflags=["-O0"]))
    usable = build_all(ctx, specs_all, index_all)
    index = [e for e in usable if not e[2].startswith("tmpl/")]
    tindex = [e for e in usable if e[2].startswith("tmpl/")]
    lap("build")
    model = ctx.model("exc")
    # ---------------- static tie: label selection at every block marker ----------------
    csites = {}
    sq = []
    for ent in index + tindex:
        mod = ent[0]
        if mod not in csites:
            try:
                csites[mod] = c_sites(ctx.workdir, mod)
            except Exception as e:          # noqa
                csites[mod] = {}
                ctx.corr_break("exc:c-parse", mod, repr(e)[:300], "generated C parses")
        sq.append("sites " + " ".join(toks_block(ent[3])))
    sres = model.batch(sq)
    nstatic = nbad = 0
    for ent, line in zip(index + tindex, sres):
        mod, fn, tag, p = ent[:4]
        real = csites.get(mod, {}).get(fn)
        if real is None:
            ctx.corr_break("exc:c-parse", {"tag": tag, "module": mod, "fn": fn}, "function not found in C", "found")
            continue
        if line.startswith("!"):
            ctx.corr_break("exc:harness", {"tag": tag}, line[:200], "sites")
            continue
        bad = match_labels(real, parse_sites(line))
        nstatic += len(real)
        if bad is not None:
            nbad += 1
            ctx.corr_break("exc:error-label-of-block", {"tag": tag, "source": func_source(fn, p)}, bad[:600],
                           "the label selection of M_ExcLab.gen")
    ctx.count("static/error-label-of-block-marker", nstatic)
    lap("static (%d functions with a label mismatch)" % nbad)
    # ---------------- static tie: the temps every bare raise reads (funcstate.exc_vars) ----------------
    creaders = {}
    eres = model.batch(["evres 0 " + " ".join(toks_block(ent[3])) for ent in index + tindex])
    nread = nrbad = 0
    for ent, line in zip(index + tindex, eres):
        mod, fn, tag, p = ent[:4]
        if mod not in creaders:
            try:
                creaders[mod] = c_readers(ctx.workdir, mod)
            except Exception as e:          # noqa
                creaders[mod] = {}
                ctx.corr_break("exc:c-parse", mod, repr(e)[:300], "generated C parses (readers)")
        got = creaders[mod].get(fn)
        if got is None or got[0] is None:
            continue
        defline, real = got
        exp, prov = expected_readers(func_layout(p))
        toks = line.split()
        if line.startswith("!") or len(toks) != len(exp) or any(t[0] != e[0] for t, e in zip(toks, exp)):
            ctx.corr_break("exc:harness", {"tag": tag}, line[:200], "readers %s" % (exp[:6],))
            continue
        allowed = set()
        for (kind, rl, stack), tok in zip(exp, toks):
            pid = tok.split(":")[1]
            pr = "-" if pid == "-" else (prov[int(pid)][0], prov[int(pid)][1] + defline - 1)
            allowed.add((rl + defline - 1, pr, tuple(x + defline - 1 for x in stack)))
        nread += len(real)
        ranges = fin_ranges(func_layout(p))

        def fin_abs(ln):
            if ln is None:
                return None
            r = fin_of_line(ranges, ln - defline + 1)
            return None if r is None else r + defline - 1
        real = {(a, b if b == "-" or b[0] != "f" else ("f", fin_abs(b[1])), tuple(fin_abs(x) for x in c))
                for a, b, c in real}
        bad = sorted((x for x in real if x not in allowed), key=repr)
        if bad:
            nrbad += 1

            def rel(x):
                return None if x is None else x - defline + 1
            lines_ = {a for a, _, _ in bad}
            show = lambda S: [(rel(a), b if b == "-" else (b[0], rel(b[1])), tuple(rel(x) for x in c)) for a, b, c in S]
            ctx.corr_break("exc:exc-vars-of-bare-raise", {"tag": tag, "source": func_source(fn, p)},
                           "(raise line, temps of, inside exception copies of) %s" % (show(bad)[:6],),
                           "M_ExcVars.resolve: %s" % (show(sorted((x for x in allowed if x[0] in lines_), key=repr))[:8],))
    ctx.count("static/temps-read-by-bare-raise", nread)
    lap("static exc_vars (%d functions with a mismatch)" % nrbad)
    # ---------------- run: compiled and CPython, three calling contexts ----------------
    cases, meta = [], []
    for (mod, fn, tag, p) in index:
        for c in (0, 1, 2):
            for which in ("cy", "py"):
                cases.append(["c22run.run", [mod, fn, c, which]])
            meta.append((mod, fn, tag, p, c, ()))
    tplans, tcands = [], []
    for (mod, fn, tag, p, points) in tindex:
        ex = tag.startswith("tmpl/loop/")
        nested = "/" in tag[len("tmpl/loop/") if ex else len("tmpl/"):]
        if quick:
            pl = plans_for(points, ctx.rng, 60 if ex else 36, exits=ex)
            cands = chain_candidates(points, (3, 5))
        else:
            pl = plans_for(points, ctx.rng, 300 if ex else 160, ntriples=20, exits=ex)
            cands = chain_candidates(points, (3, 5) if nested else (3, 4, 5), two_r=True)
        tplans.append(pl)
        tcands.append(cands)
        for which in ("cy", "py"):
            cases.append(["c22run.run_plans", [mod, fn, which, [0, 1, 2], [[list(x) for x in q] for q in pl],
                                               [[list(x) for x in q] for q in cands]]])
    res = cybuild.call_cases(ctx.workdir, cases, setup="import c22run", alarm=60, timeout=600)
    lap("run")
    runs = []                      # (cy, py) per meta entry
    for i in range(len(meta)):
        runs.append((parse_run(res[2 * i]), parse_run(res[2 * i + 1])))
    base = 2 * len(meta)
    nchain = 0
    for ti, (mod, fn, tag, p, points) in enumerate(tindex):
        rc, rp = res[base + 2 * ti], res[base + 2 * ti + 1]
        if "e" in rp:
            ctx.corr_break("exc:harness", {"tag": tag}, str(rp)[:300], "CPython runs the template")
            tplans[ti] = []
            continue
        # the chain plans in which every planned point fires (decided by the CPython run)
        eff = [int(x["r"]) for x in rp["r"][0]["r"]]
        nchain += len(eff)
        pl = tplans[ti] = tplans[ti] + [tcands[ti][i] for i in eff]
        rp = {"r": rp["r"][1:]}
        if "e" not in rc:
            rc = {"r": rc["r"][1:]}
        if "e" in rc:
            # the compiled function killed the worker (or raised out of the harness) under some plan:
            # run the plans one by one to find it
            one = cybuild.call_cases(ctx.workdir, [["c22run.run_plans", [mod, fn, "cy", [c], [[list(x) for x in q]]]]
                                                   for q in pl for c in (0, 1, 2)], setup="import c22run", alarm=10, timeout=300,
                                     max_crashes=4)
            rcl = [(r["r"][0] if "r" in r else r) for r in one]
        else:
            rcl = rc["r"]
        k = 0
        for q in pl:
            for c in (0, 1, 2):
                if isinstance(rcl[k], dict) and rcl[k].get("e") == "WORKER":
                    k += 1          # not run: the worker was given up after several crashes
                    continue
                meta.append((mod, fn, tag, specialise(p, q), c, q))
                runs.append((parse_run(rcl[k]), parse_run(rp["r"][k])))
                k += 1
    # ---------------- model ----------------
    mq = []
    for (mod, fn, tag, p, c, q) in meta:
        tk = " ".join(toks_block(p))
        mq.append("ref %d %s" % (c, tk))
        mq.append("sch %d %d %d %s" % (fx_r, fx_s, c, tk))
        mq.append("lab 0 %d %d %d %s" % (fx_r, fx_s, c, tk))
        mq.append("tmp 0 %d %d %d %s" % (fx_r, fx_s, c, tk))
        mq.append("sch 1 %d %d %s" % (fx_s, c, tk) if not fx_r else "")
    lap("collect")
    mres = model.batch([x for x in mq if x])
    lap("model")
    if not fx_r:
        mres4 = mres
    else:
        mres4 = []
        for i in range(0, len(mres), 4):
            mres4 += [mres[i], mres[i + 1], mres[i + 2], mres[i + 3], mres[i + 1]]
    nviol = 0
    for i, (mod, fn, tag, p, c, q) in enumerate(meta):
        cy, py = runs[i]
        mref, msch, mlab, mtmp, mfix = [parse_model(x) for x in mres4[5 * i:5 * i + 5]]
        inp = {"tag": tag, "ctx": c, "tokens": " ".join(toks_block(p))}
        if q or tag.startswith("tmpl/"):
            tp = [e for e in tindex if e[0] == mod and e[1] == fn][0][3]
            inp["plan"] = [list(x) for x in q]
            inp["source"] = func_source(fn, tp)
            inp["behaves_as"] = func_source(fn, p)
        else:
            inp["source"] = func_source(fn, p)
        ctx.case(stratum_of(tag, p, c), inp, sig=(inp["tokens"], c))
        if mref is None or msch is None or mlab is None or mtmp is None or "crash" in py:
            ctx.corr_break("exc:harness", inp, str(py)[:300], str(mres4[5 * i:5 * i + 4])[:300])
            continue
        # reference model vs CPython itself
        if model_view(mref, c) != py:
            ctx.corr_break("exc:ref-vs-cpython", inp, py, model_view(mref, c))
        # label level vs structural scheme (proved equal: run_lab_eq_run_sch)
        if mlab != msch:
            ctx.corr_break("exc:lab-vs-sch", inp, mlab, msch)
        # temp level vs structural scheme (proved equal: run_tmp_eq_run_sch)
        if mtmp != msch:
            ctx.corr_break("exc:tmp-vs-sch", inp, mtmp, msch)
        klass = classify(msch, mfix, mref, c)
        if msch["out"] == "crash":
            # the scheme reaches the zeroed temps: behaviour of the C code is undefined
            if cy == py:
                ctx.corr_break("exc:sch-crash-not-observed", inp, cy, "crash")
            else:
                ctx.fail(klass, inp, cy, py, note="model: scheme reaches zeroed handler temps")
            continue
        if "crash" in cy or model_view(mlab, c) != cy:
            ctx.corr_break("exc:lab-vs-compiled", inp, cy, model_view(mlab, c))
        if cy != py:
            nviol += 1
            if nviol <= 40:
                ctx.fail(klass, inp, cy, py)
    lap("compare")
    for f in DEFERRED:
        ctx.fail(*f)
    del DEFERRED[:]
    ctx.extra["templates"] = len(tindex)
    ctx.extra["template_plan_cases"] = sum(3 * len(x) for x in tplans)
    ctx.extra["bare_raise_chain_plans"] = nchain
    # --- except*: differential only
    sc = []
    for j in range(NSTAR):
        for which in ("cy", "py"):
            sc.append(["c22run.run_star", ["c22star", "s%d" % j, which]])
    sres = cybuild.call_cases(ctx.workdir, sc, setup="import c22run", alarm=10)
    for j in range(NSTAR):
        a, b = sres[2 * j], sres[2 * j + 1]
        inp = {"star": "s%d" % j}
        ctx.case("exceptstar/differential", inp, sig=("star", j))
        if a != b and (a.get("r"), a.get("e")) != (b.get("r"), b.get("e")):
            ctx.fail("except_star_differs", inp, a, b)
    run_extra(ctx)


def run_extra(ctx):
    sc = []
    for j in range(NEXTRA):
        for which in ("cy", "py"):
            sc.append(["c22run.run_star", ["c22extra", "x%d" % j, which]])
    sres = cybuild.call_cases(ctx.workdir, sc, setup="import c22run", alarm=10)
    for j in range(NEXTRA):
        a, b = sres[2 * j], sres[2 * j + 1]
        inp = {"extra": "x%d" % j}
        ctx.case("extra/differential", inp, sig=("extra", j))
        if a != b and (a.get("r"), a.get("e")) != (b.get("r"), b.get("e")):
            ctx.fail(EXTRA_CLASS.get("x%d" % j, "extra_program_differs"), inp, a, b)


def classify(msch, mfix, mref, c):
    if msch["out"] == "crash" and mfix["out"] != "crash":
        return "bare_reraise_after_caught_reraise"
    if c == 2 and msch["slot"] != mref["slot"]:
        return "exc_info_slot_not_restored_in_generator_frame"
    return "wrong_exception_semantics"


def replay(ctx, obj):
    inp = obj["input"]
    with open(os.path.join(ctx.workdir, "c22h.py"), "w") as f:
        f.write(HELPER)
    with open(os.path.join(ctx.workdir, "c22run.py"), "w") as f:
        f.write(RUNNER)
    if "extra" in inp:
        cybuild.build("c22extra", "# cython: language_level=3\n" + EXTRA, ctx.workdir)
        r = cybuild.call_cases(ctx.workdir, [["c22run.run_star", ["c22extra", inp["extra"], w]] for w in ("cy", "py")],
                               setup="import c22run")
    elif "star" in inp:
        cybuild.build("c22star", "# cython: language_level=3\n" + STAR, ctx.workdir)
        r = cybuild.call_cases(ctx.workdir, [["c22run.run_star", ["c22star", inp["star"], w]] for w in ("cy", "py")],
                               setup="import c22run")
    else:
        fn = re.match(r"def (\w+)", inp["source"]).group(1)
        cybuild.build("c22rp", MODHEAD + "\n" + inp["source"], ctx.workdir)
        r = cybuild.call_cases(ctx.workdir, [["c22run.run_plans", ["c22rp", fn, w, [inp["ctx"]], [inp.get("plan", [])]]]
                                             for w in ("cy", "py")], setup="import c22run")
    print("replayed:", json.dumps(inp)[:400], "\n compiled:", r[0], "\n cpython :", r[1], "\n expected", obj.get("expected"))
