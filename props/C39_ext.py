"""Helper of props/C39.py (not a property): the extension-type life cycle corpus (module c39z).

cdef classes with C attributes of every kind, with and without __cinit__ / __init__ / __dealloc__ / __del__,
@cython.freelist(N), @cython.final, no_gc, no_gc_clear, vtables, __weakref__ / __dict__ slots, cdef and Python
subclasses, pickling - driven by PROGRAMS: lists of steps (create through one of four construction paths,
modify, observe, release, collect, pickle, copy ...) interpreted by `z_run` inside the compiled module.
Three things are compared for every observation:

  * the same program in every configuration cell against the base cell (the property),
  * the observation against `expected()` below: what the language promises (C attributes of a new
    instance are 0 / NULL, object attributes None, then whatever __cinit__ / __init__ / poke() stored) -
    computed here from the class table, independent of the compiler and of the Coq model,
  * the C words of the freelist classes against the extracted model M_Freelist.trace run with the
    configuration of the cell (freelists on / off, type specs, freelist size) and the memset flag READ
    FROM THE GENERATED tp_new (tie).
"""
import re

ZSRC = r'''# cython: language_level=3
cimport cython
import gc, pickle, copy, weakref

cdef struct ZS:
    int a
    double b
    void *p
    char buf[3]

cdef union ZU:
    int i
    float f

cdef enum ZE:
    ZE_A, ZE_B, ZE_C

cdef int zfun(int x) noexcept: return x + 1

DLOG = []

cdef class ZNoFl:
    cdef long a
    cdef int b
    cdef double c
    cdef object o
    def poke(self, long k):
        self.a = k + 11; self.b = <int>k + 12; self.c = k + 0.125; self.o = ("o", k)
    def state(self): return (self.a, self.b, self.c, self.o)

@cython.freelist(4)
cdef class ZAll:
    cdef signed char c8
    cdef short s16
    cdef int i32
    cdef long l64
    cdef long long ll
    cdef unsigned int u32
    cdef size_t usz
    cdef Py_ssize_t ssz
    cdef bint flag
    cdef Py_UCS4 uc
    cdef float f32
    cdef double f64
    cdef double complex zc
    cdef void *vp
    cdef int *ip
    cdef int (*fp)(int) noexcept
    cdef ZS st
    cdef ZU un
    cdef int arr[3]
    cdef ZE en
    cdef object o
    cdef list lst
    cdef dict dct
    cdef str txt
    cdef tuple tup
    cdef ZNoFl other
    def poke(self, long k):
        self.c8 = <signed char>(k % 100 + 1); self.s16 = <short>(k + 1000); self.i32 = <int>(k + 100000)
        self.l64 = k + 1099511627776; self.ll = -(k + 2199023255552); self.u32 = <unsigned int>(4000000000 + k)
        self.usz = k + 5; self.ssz = -k - 7; self.flag = True; self.uc = <Py_UCS4>(0x20ac + k)
        self.f32 = k + 0.5; self.f64 = k * 0.25 + 1; self.zc = complex(k, -k)
        self.vp = <void*>(<size_t>(8 * k + 8)); self.ip = <int*>(<size_t>(4 * k + 4)); self.fp = zfun
        self.st.a = <int>k + 1; self.st.b = k + 1.5; self.st.p = <void*>(<size_t>(16 * k + 16))
        self.st.buf[0] = <char>(k % 100 + 1); self.st.buf[2] = <char>(k % 50 + 2)
        self.un.i = <int>k + 77
        self.arr[0] = <int>k + 1; self.arr[1] = <int>k + 2; self.arr[2] = <int>k + 3
        self.en = ZE_C
        self.o = ("o", k); self.lst = [k]; self.dct = {"k": k}; self.txt = "t%d" % k; self.tup = (k,)
        self.other = ZNoFl()
    def state(self):
        return (self.c8, self.s16, self.i32, self.l64, self.ll, self.u32, self.usz, self.ssz, self.flag, <long>self.uc,
                self.f32, self.f64, self.zc, <size_t>self.vp, <size_t>self.ip, self.fp != NULL,
                (self.st.a, self.st.b, <size_t>self.st.p, self.st.buf[0], self.st.buf[1], self.st.buf[2]), self.un.i,
                [self.arr[0], self.arr[1], self.arr[2]], <int>self.en,
                self.o, self.lst, self.dct, self.txt, self.tup, self.other is None)

@cython.freelist(3)
cdef class ZInit:
    cdef public long a
    cdef readonly double d
    cdef public object tag
    cdef int by_init
    def __init__(self, tag=None, int by_init=7):
        self.tag = tag; self.by_init = by_init
    def poke(self, long k):
        self.a = k + 21; self.d = k + 0.75
    def state(self): return (self.a, self.d, self.tag, self.by_init)

@cython.freelist(2)
cdef class ZCinit:
    cdef long a
    cdef void *p
    cdef object seen
    cdef object tag
    def __cinit__(self, *args, **kw):
        # what __cinit__ finds: C attributes zero, object attributes None
        self.seen = (self.a, <size_t>self.p, self.tag is None, len(args), sorted(kw))
        self.a = 3
    def __dealloc__(self):
        DLOG.append(("dealloc ZCinit", self.a))
    def poke(self, long k):
        self.a = k + 31; self.p = <void*>(<size_t>(8 * k + 64)); self.tag = ["tag", k]
    def state(self): return (self.a, <size_t>self.p, self.seen, self.tag)

@cython.final
@cython.freelist(2)
cdef class ZFinal:
    cdef int a
    cdef double d
    cdef ZS st
    def poke(self, long k):
        self.a = <int>k + 41; self.d = k + 0.25; self.st.a = <int>k + 42; self.st.b = k + 2.5
    def state(self): return (self.a, self.d, self.st.a, self.st.b, <size_t>self.st.p)

@cython.no_gc
@cython.freelist(2)
cdef class ZNoGc:
    cdef long a
    cdef object o
    def poke(self, long k):
        self.a = k + 51; self.o = "s%d" % k
    def state(self): return (self.a, self.o)

@cython.no_gc_clear
@cython.freelist(2)
cdef class ZNoGcClear:
    cdef long a
    cdef public object o
    cdef list l
    def poke(self, long k):
        self.a = k + 61; self.o = ("o", k); self.l = [k, k]
    def state(self): return (self.a, None if self.o is None else (type(self.o).__name__ if isinstance(self.o, ZNoGcClear) else self.o), self.l)

@cython.freelist(2)
cdef class ZObjOnly:
    cdef public object o
    cdef list l
    cdef dict d
    def poke(self, long k):
        self.o = ("o", k); self.l = [k]; self.d = {k: k}
    def state(self): return (None if self.o is None else (type(self.o).__name__ if isinstance(self.o, ZObjOnly) else self.o), self.l, self.d)

@cython.freelist(5)
cdef class ZCOnly:
    cdef long a
    cdef int b
    cdef double c
    def poke(self, long k):
        self.a = k + 71; self.b = <int>k + 72; self.c = k + 0.375
    def state(self): return (self.a, self.b, self.c)

cdef class ZSubSame(ZCOnly):
    # no new attributes: same basicsize, statically allocated -> shares the freelist of ZCOnly without type specs
    def kind(self): return "subsame"

cdef class ZSubMore(ZCOnly):
    cdef int extra
    cdef object xo
    def poke(self, long k):
        ZCOnly.poke(self, k); self.extra = <int>k + 73; self.xo = [k]
    def state(self): return ZCOnly.state(self) + (self.extra, self.xo)

@cython.freelist(2)
cdef class ZSubFl(ZCOnly):
    # the freelist directive on a subclass
    cdef long extra2
    def poke(self, long k):
        ZCOnly.poke(self, k); self.extra2 = k + 74
    def state(self): return ZCOnly.state(self) + (self.extra2,)

@cython.freelist(2)
cdef class ZVtab:
    cdef long a
    cdef int b
    cdef long get(self): return self.a * 2
    cpdef long twice(self): return self.get() + self.b
    def poke(self, long k):
        self.a = k + 81; self.b = <int>k + 82
    def state(self): return (self.a, self.b, self.get(), self.twice())

cdef class ZVtabSub(ZVtab):
    cdef long get(self): return self.a * 3
    cpdef long twice(self): return self.get() - self.b

@cython.freelist(2)
cdef class ZWeak:
    cdef long a
    cdef object __weakref__
    def poke(self, long k): self.a = k + 91
    def state(self): return (self.a,)

@cython.freelist(2)
cdef class ZDict:
    cdef long a
    cdef dict __dict__
    def poke(self, long k):
        self.a = k + 101; self.dyn = k
    def state(self): return (self.a, sorted(vars(self).items()))

@cython.freelist(2)
cdef class ZPick:
    cdef public long a
    cdef public double d
    cdef public object o
    cdef list l
    cdef long hidden
    def poke(self, long k):
        self.a = k + 111; self.d = k + 0.625; self.o = ("o", k); self.l = [k]
    def state(self): return (self.a, self.d, self.o, self.l, self.hidden)
    def hide(self, long k): self.hidden = k

@cython.freelist(2)
cdef class ZDel:
    cdef long a
    def __del__(self):
        DLOG.append(("__del__ ZDel", self.a))
    def poke(self, long k): self.a = k + 121
    def state(self): return (self.a,)

@cython.freelist(1)
cdef class ZOne:
    cdef long a
    cdef char c
    def poke(self, long k): self.a = k + 131; self.c = <char>(k % 100 + 1)
    def state(self): return (self.a, self.c)

@cython.freelist(8)
cdef class ZBig:
    cdef unsigned long long a
    cdef float f
    def poke(self, long k): self.a = <unsigned long long>k + 141; self.f = k + 0.5
    def state(self): return (self.a, self.f)

class PZAll(ZAll): pass
class PZSlots0(ZCOnly): __slots__ = ()
class PZSlots(ZCOnly):
    __slots__ = ("x",)
class PZInit(ZInit):
    def __init__(self, *a, **k): self.pyattr = a      # does not call the base __init__
class PZCinit(ZCinit): pass
class PZDel(ZDel):
    def __del__(self): DLOG.append(("__del__ PZDel", self.state()))
import abc
class PZAbs(ZCOnly, metaclass=abc.ABCMeta):
    @abc.abstractmethod
    def absm(self): pass

CLASSES = {c.__name__: c for c in (ZNoFl, ZAll, ZInit, ZCinit, ZFinal, ZNoGc, ZNoGcClear, ZObjOnly, ZCOnly, ZSubSame, ZSubMore,
                                   ZSubFl, ZVtab, ZVtabSub, ZWeak, ZDict, ZPick, ZDel, ZOne, ZBig, PZAll, PZSlots0, PZSlots, PZInit,
                                   PZCinit, PZDel, PZAbs)}

cdef object new_typed(str name, tuple args, dict kw):
    # construction from compiled code with the type known at compile time, with arguments
    if name == "ZInit": return ZInit(*args, **kw)
    if name == "ZCinit": return ZCinit(*args, **kw)
    return CLASSES[name](*args, **kw)

cdef object new_typed_noargs(str name):
    if name == "ZNoFl": return ZNoFl()
    if name == "ZAll": return ZAll()
    if name == "ZInit": return ZInit()
    if name == "ZCinit": return ZCinit()
    if name == "ZFinal": return ZFinal()
    if name == "ZNoGc": return ZNoGc()
    if name == "ZNoGcClear": return ZNoGcClear()
    if name == "ZObjOnly": return ZObjOnly()
    if name == "ZCOnly": return ZCOnly()
    if name == "ZSubSame": return ZSubSame()
    if name == "ZSubMore": return ZSubMore()
    if name == "ZSubFl": return ZSubFl()
    if name == "ZVtab": return ZVtab()
    if name == "ZVtabSub": return ZVtabSub()
    if name == "ZWeak": return ZWeak()
    if name == "ZDict": return ZDict()
    if name == "ZPick": return ZPick()
    if name == "ZDel": return ZDel()
    if name == "ZOne": return ZOne()
    if name == "ZBig": return ZBig()
    return CLASSES[name]()

cdef object new_tpnew(str name):
    # T.__new__(T) with the type known at compile time: a direct call of the tp_new slot function
    if name == "ZNoFl": return ZNoFl.__new__(ZNoFl)
    if name == "ZAll": return ZAll.__new__(ZAll)
    if name == "ZInit": return ZInit.__new__(ZInit)
    if name == "ZCinit": return ZCinit.__new__(ZCinit)
    if name == "ZFinal": return ZFinal.__new__(ZFinal)
    if name == "ZNoGc": return ZNoGc.__new__(ZNoGc)
    if name == "ZNoGcClear": return ZNoGcClear.__new__(ZNoGcClear)
    if name == "ZObjOnly": return ZObjOnly.__new__(ZObjOnly)
    if name == "ZCOnly": return ZCOnly.__new__(ZCOnly)
    if name == "ZSubSame": return ZSubSame.__new__(ZSubSame)
    if name == "ZSubMore": return ZSubMore.__new__(ZSubMore)
    if name == "ZSubFl": return ZSubFl.__new__(ZSubFl)
    if name == "ZVtab": return ZVtab.__new__(ZVtab)
    if name == "ZVtabSub": return ZVtabSub.__new__(ZVtabSub)
    if name == "ZWeak": return ZWeak.__new__(ZWeak)
    if name == "ZDict": return ZDict.__new__(ZDict)
    if name == "ZPick": return ZPick.__new__(ZPick)
    if name == "ZDel": return ZDel.__new__(ZDel)
    if name == "ZOne": return ZOne.__new__(ZOne)
    if name == "ZBig": return ZBig.__new__(ZBig)
    cls = CLASSES[name]
    return cls.__new__(cls)

def z_new(name, path, args=(), kw=None):
    """the four construction paths: 'py' generic call of the type object, 'c' typed constructor call from compiled
    code, 'new' generic T.__new__(T) (no __init__), 'cnew' typed T.__new__(T) (direct tp_new call)"""
    kw = kw or {}
    if path == "py":
        cls = CLASSES[name]
        return cls(*args, **kw)
    if path == "c":
        if not args and not kw:
            return new_typed_noargs(name)
        return new_typed(name, tuple(args), dict(kw))
    if path == "new":
        cls = CLASSES[name]
        return cls.__new__(cls)
    return new_tpnew(name)

def z_run(prog):
    """interpret one program; -> list of observations"""
    # start from an empty destructor log: objects of EARLIER programs that are only collected now must not show
    # up in this program's 'dlog' observation (their __del__ / __dealloc__ events belong to those programs)
    import gc as _gc
    _gc.collect()
    del DLOG[:]
    v = {}
    out = []
    wr = {}
    hold = []
    for step in prog:
        op = step[0]
        try:
            if op == "drain":        # empty the freelist of a class for the duration of the program
                cls = CLASSES[step[1]]
                for _ in range(step[2]):
                    hold.append(cls.__new__(cls))
            elif op == "new":          # ["new", slot, class, path, args, kwargs]
                v[step[1]] = z_new(step[2], step[3], step[4] if len(step) > 4 else (), step[5] if len(step) > 5 else None)
            elif op == "poke":
                v[step[1]].poke(step[2])
            elif op == "get":
                o = v.get(step[1])
                out.append(None if o is None else (type(o).__name__, o.state()))
            elif op == "free":
                v.pop(step[1], None)
            elif op == "gc":
                gc.collect()
            elif op == "link":       # v[a].o = v[b]  (reference cycles through an object attribute)
                v[step[1]].o = v[step[2]]
            elif op == "pickle":     # v[dst] = loads(dumps(v[src], protocol))
                v[step[2]] = pickle.loads(pickle.dumps(v[step[1]], step[3]))
            elif op == "copy":
                v[step[2]] = copy.copy(v[step[1]])
            elif op == "weakref":
                wr[step[1]] = weakref.ref(v[step[1]])
            elif op == "wrget":
                r = wr[step[1]]()
                out.append(("wr", None if r is None else r.state()))
            elif op == "attr":
                out.append(("attr", getattr(v[step[1]], step[2])))
            elif op == "setattr":
                setattr(v[step[1]], step[2], step[3])
            elif op == "hide":
                v[step[1]].hide(step[2])
            elif op == "tracked":
                out.append(("tracked", gc.is_tracked(v[step[1]])))
            elif op == "dlog":
                out.append(("dlog", list(DLOG))); del DLOG[:]
            elif op == "isinst":
                out.append(("isinst", [n for n in sorted(CLASSES) if isinstance(v[step[1]], CLASSES[n])]))
            else:
                out.append(("bad op", op))
        except BaseException as e:
            out.append(("exc", op, type(e).__name__))
    v.clear()
    wr.clear()
    del hold[:]
    gc.collect()
    del DLOG[:]
    return out
'''


# ---------------------------------------------------------------------------------------------------------
# the class table: what the language promises.  For every class: freelist size (of the class that owns the
# freelist the instances of this class can come from, or 0), the owner of that freelist, relation to it
# (e exact / s same-size static subtype / o other), and state(args, k): the tuple state() must return for an
# instance created with ctor arguments `args`/`kw` through `path`, last poked with k (None = never).
# ---------------------------------------------------------------------------------------------------------
def _zall(k):
    if k is None:
        return (0, 0, 0, 0, 0, 0, 0, 0, False, 0, 0.0, 0.0, 0j, 0, 0, False, (0, 0.0, 0, 0, 0, 0), 0, [0, 0, 0], 0,
                None, None, None, None, None, True)
    return (k % 100 + 1, k + 1000, k + 100000, k + 1099511627776, -(k + 2199023255552), 4000000000 + k, k + 5, -k - 7, True,
            0x20ac + k, k + 0.5, k * 0.25 + 1, complex(k, -k), 8 * k + 8, 4 * k + 4, True,
            (k + 1, k + 1.5, 16 * k + 16, k % 100 + 1, 0, k % 50 + 2), k + 77, [k + 1, k + 2, k + 3], 2,
            ("o", k), [k], {"k": k}, "t%d" % k, (k,), False)


def _conly(k):
    return (0, 0, 0.0) if k is None else (k + 71, k + 72, k + 0.375)


def _init_args(path, args, kw, defaults):
    """(tag, by_init) as seen by ZInit.__init__; the __new__ paths do not run __init__"""
    if path in ("new", "cnew"):
        return None
    vals = list(defaults)
    for i, a in enumerate(args):
        vals[i] = a
    for k2, v in (kw or {}).items():
        vals[("tag", "by_init").index(k2)] = v
    return vals


def expected_state(cls, path, args, kw, k, extra):
    """state() of an instance; extra: dict of later changes (setattr / hide / link)"""
    if cls in ("ZAll", "PZAll"):
        return _zall(k)
    if cls == "ZNoFl":
        return (0, 0, 0.0, None) if k is None else (k + 11, k + 12, k + 0.125, ("o", k))
    if cls in ("ZInit", "PZInit"):
        ia = _init_args(path, args, kw, (None, 7)) if cls == "ZInit" else None
        tag, by_init = (ia if ia is not None else (None, 0))
        a, d = (0, 0.0) if k is None else (k + 21, k + 0.75)
        return (extra.get("a", a), d, extra.get("tag", tag), by_init)
    if cls in ("ZCinit", "PZCinit"):
        seen = (0, 0, True, len(args) if path in ("py", "c") else 0, sorted(kw or {}) if path in ("py", "c") else [])
        return (3, 0, seen, None) if k is None else (k + 31, 8 * k + 64, seen, ["tag", k])
    if cls == "ZFinal":
        return (0, 0.0, 0, 0.0, 0) if k is None else (k + 41, k + 0.25, k + 42, k + 2.5, 0)
    if cls == "ZNoGc":
        return (0, None) if k is None else (k + 51, "s%d" % k)
    if cls == "ZNoGcClear":
        o = extra.get("o", None if k is None else ("o", k))
        return (0, o, None) if k is None else (k + 61, o, [k, k])
    if cls == "ZObjOnly":
        o = extra.get("o", None if k is None else ("o", k))
        return (o, None, None) if k is None else (o, [k], {k: k})
    if cls in ("ZCOnly", "ZSubSame", "PZSlots0", "PZSlots"):
        return _conly(k)
    if cls == "ZSubMore":
        return _conly(k) + ((0, None) if k is None else (k + 73, [k]))
    if cls == "ZSubFl":
        return _conly(k) + ((0,) if k is None else (k + 74,))
    if cls in ("ZVtab", "ZVtabSub"):
        a, b = (0, 0) if k is None else (k + 81, k + 82)
        return (a, b, a * 2, a * 2 + b) if cls == "ZVtab" else (a, b, a * 3, a * 3 - b)
    if cls == "ZWeak":
        return (0,) if k is None else (k + 91,)
    if cls == "ZDict":
        return (0, []) if k is None else (k + 101, [("dyn", k)])
    if cls == "ZPick":
        base = (0, 0.0, None, None) if k is None else (k + 111, k + 0.625, ("o", k), [k])
        return (extra.get("a", base[0]), base[1], base[2], base[3], extra.get("hidden", 0))
    if cls in ("ZDel", "PZDel"):
        return (0,) if k is None else (k + 121,)
    if cls == "ZOne":
        return (0, 0) if k is None else (k + 131, k % 100 + 1)
    if cls == "ZBig":
        return (0, 0.0) if k is None else (k + 141, k + 0.5)
    raise KeyError(cls)


# freelists: owner class -> (N, number of C words observed by the model, index list of those words in state())
FREELISTS = {"ZAll": 4, "ZInit": 3, "ZCinit": 2, "ZFinal": 2, "ZNoGc": 2, "ZNoGcClear": 2, "ZObjOnly": 2, "ZCOnly": 5,
             "ZVtab": 2, "ZWeak": 2, "ZDict": 2, "ZPick": 2, "ZDel": 2, "ZOne": 1, "ZBig": 8}
# class -> (freelist owner, relation): which freelist an instance of the class may be taken from / returned to
FL_REL = {"ZAll": ("ZAll", "e"), "PZAll": ("ZAll", "o"), "ZInit": ("ZInit", "e"), "PZInit": ("ZInit", "o"), "ZCinit": ("ZCinit", "e"),
          "PZCinit": ("ZCinit", "o"), "ZFinal": ("ZFinal", "e"), "ZNoGc": ("ZNoGc", "e"), "ZNoGcClear": ("ZNoGcClear", "e"),
          "ZObjOnly": ("ZObjOnly", "e"), "ZCOnly": ("ZCOnly", "e"), "ZSubSame": ("ZCOnly", "s"), "ZSubMore": ("ZCOnly", "o"),
          "ZSubFl": ("ZCOnly", "o"), "PZSlots0": ("ZCOnly", "o"), "PZSlots": ("ZCOnly", "o"), "PZAbs": ("ZCOnly", "o"),
          "ZVtab": ("ZVtab", "e"), "ZVtabSub": ("ZVtab", "s"), "ZWeak": ("ZWeak", "e"), "ZDict": ("ZDict", "e"), "ZPick": ("ZPick", "e"),
          "ZDel": ("ZDel", "e"), "PZDel": ("ZDel", "o"), "ZOne": ("ZOne", "e"), "ZBig": ("ZBig", "e")}
FINAL_CLASSES = ("ZFinal",)          # exact-type check only (__PYX_CHECK_FINAL_TYPE_FOR_FREELISTS)
GC_CLASSES = ("ZAll", "ZInit", "ZCinit", "ZNoGcClear", "ZObjOnly", "ZDict", "ZPick")     # object attributes and not no_gc: recycled blocks are re-tracked
ALL_CLASSES = sorted(set(FL_REL) | {"ZNoFl"})
# classes whose whole C state the model carries as integer words: class -> [(index in state(), scale)] (a double
# attribute poked with k + j/scale is the word scale*k + j); MODEL_OBJ: index of the one object attribute, if any
MODEL_WORDS = {"ZCOnly": [(0, 1), (1, 1), (2, 8)], "ZSubSame": [(0, 1), (1, 1), (2, 8)], "ZOne": [(0, 1), (1, 1)], "ZBig": [(0, 1), (1, 2)],
               "ZWeak": [(0, 1)], "ZDel": [(0, 1)], "ZVtab": [(0, 1), (1, 1)], "ZVtabSub": [(0, 1), (1, 1)],
               "ZFinal": [(0, 1), (1, 4), (2, 1), (3, 2), (4, 1)], "ZNoGc": [(0, 1)]}
MODEL_OBJ = {"ZNoGc": 1}


def to_words(cls, state):
    cw = [int(round(state[i] * sc)) for i, sc in MODEL_WORDS[cls]]
    ow = []
    if cls in MODEL_OBJ:
        o = state[MODEL_OBJ[cls]]
        ow = [1 if o is None else 2 + int(o[1:])]
    return cw, ow


def from_words(cls, cw, ow):
    """state() of an instance whose C words / object words are cw / ow"""
    vals = [(w if sc == 1 else w / sc) for w, (_i, sc) in zip(cw, MODEL_WORDS[cls])]
    if cls in ("ZVtab", "ZVtabSub"):
        a, b = vals
        return (a, b, a * 2, a * 2 + b) if cls == "ZVtab" else (a, b, a * 3, a * 3 - b)
    if cls == "ZNoGc":
        return (vals[0], None if ow[0] == 1 else ("<NULL>" if ow[0] == 0 else "s%d" % (ow[0] - 2)))
    return tuple(vals)


PATHS = ("py", "c", "new", "cnew")


# ---------------------------------------------------------------------------------------------------------
# programs
# ---------------------------------------------------------------------------------------------------------
def _churn(cls, n, m, order, paths, k0, rounds=2, other=None, drain=True):
    """create n, observe, poke, observe, release in `order`, create m (optionally of a related class), observe ..."""
    p = [["drain", FL_REL[cls][0], FREELISTS[FL_REL[cls][0]]]] if drain else []
    for r in range(rounds):
        made = []
        cnt = n if r == 0 else m
        for i in range(cnt):
            c = cls if (other is None or (i + r) % 2 == 0) else other
            p.append(["new", i, c, paths[(i + r) % len(paths)]])
            made.append(i)
        for i in made:
            p.append(["get", i])
        for i in made:
            p.append(["poke", i, k0 + 10 * r + i])
        for i in made:
            p.append(["get", i])
        seq = {"lifo": made[::-1], "fifo": made, "mix": made[::2] + made[1::2][::-1]}[order]
        for i in seq:
            p.append(["free", i])
    for i in range(m):
        p.append(["new", i, cls, paths[i % len(paths)]])
    for i in range(m):
        p.append(["get", i])
    return p


def programs(rng, quick):
    """-> list of (stratum, program).  Every freelist class: instance counts around the freelist size, three release
    orders, every construction path; then the class-specific features."""
    out = []
    for cls, N in sorted(FREELISTS.items()):
        counts = sorted({1, max(1, N - 1), N, N + 1, N + 2})
        if quick:
            counts = sorted({1, N, N + 1})
        for ci, n in enumerate(counts):
            orders = ("lifo", "fifo", "mix")
            if quick:
                orders = (orders[ci % 3],)
            for oi, order in enumerate(orders):
                paths = PATHS[(ci + oi) % 4:] + PATHS[:(ci + oi) % 4]
                m = n + 1 if (ci + oi) % 2 == 0 else n
                out.append(("churn/%s" % cls, _churn(cls, n, m, order, paths, rng.randrange(1, 90))))
        # one path only, so that every path meets a non-empty freelist
        for path in PATHS:
            out.append(("path/%s/%s" % (cls, path), _churn(cls, min(N, 2), min(N, 2), "lifo", (path,), rng.randrange(1, 90), rounds=1)))
    # freelists shared with / hidden from related classes: subclasses (same size, bigger, Python), abstract
    rel = [("ZCOnly", o) for o in ("ZSubSame", "ZSubMore", "ZSubFl", "PZSlots0", "PZSlots")] + [("ZVtab", "ZVtabSub"), ("ZAll", "PZAll"),
           ("ZInit", "PZInit"), ("ZCinit", "PZCinit"), ("ZDel", "PZDel")]
    for cls, other in rel:
        for order in (("lifo",) if quick else ("lifo", "fifo", "mix")):
            n = FREELISTS[cls]
            out.append(("related/%s+%s" % (cls, other), _churn(cls, n + 1, n + 1, order, ("py", "c"), rng.randrange(1, 90), other=other)))
            out.append(("related/%s+%s" % (other, cls), _churn(other, 2, 3, order, ("c", "py"), rng.randrange(1, 90), rounds=1) +
                        _churn(cls, 2, 2, order, ("py", "cnew"), rng.randrange(1, 90), rounds=1, drain=False)))
    # the same without emptying the freelist first: blocks released by EARLIER programs are handed out
    for cls, N in sorted(FREELISTS.items()):
        out.append(("history/%s" % cls, _churn(cls, N + 1, N + 1, "fifo", PATHS, rng.randrange(1, 90), rounds=1, drain=False)))
    out.append(("abstract", [["new", 0, "PZAbs", "py"], ["get", 0], ["new", 1, "PZAbs", "new"], ["get", 1], ["new", 2, "ZCOnly", "py"], ["get", 2]]))
    # several classes interleaved: no freelist hands out a block of another class
    names = sorted(FREELISTS)
    for t in range(2 if quick else 12):
        p = []
        live = {}
        for s in range(60 if quick else 200):
            i = rng.randrange(8)
            r = rng.random()
            if i not in live or r < 0.35:
                c = rng.choice(names + ["ZSubSame", "ZVtabSub", "ZNoFl", "PZSlots0", "ZSubMore"])
                p.append(["new", i, c, rng.choice(PATHS)]); live[i] = c
                p.append(["get", i])
            elif r < 0.65:
                p.append(["poke", i, rng.randrange(1, 90)]); p.append(["get", i])
            else:
                p.append(["free", i]); del live[i]
        out.append(("interleaved", p))
    # constructor arguments (ZInit: __init__ sets some attributes, the rest stays default; ZCinit: what __cinit__ sees)
    for path in ("py", "c"):
        p = []
        for r in range(3):
            p += [["new", 0, "ZInit", path, ["t%d" % r]], ["new", 1, "ZInit", path, [], {"by_init": 9}], ["new", 2, "ZInit", path, [None, r]],
                  ["new", 3, "ZCinit", path, [1, 2], {"x": 1}], ["new", 4, "ZCinit", path], ["new", 5, "PZInit", path, [5]],
                  ["new", 6, "PZCinit", path, [1]]]
            p += [["get", i] for i in range(7)] + [["poke", i, 20 + r + i] for i in range(7)] + [["get", i] for i in range(7)]
            p += [["attr", 0, "a"], ["attr", 0, "d"], ["attr", 0, "tag"], ["setattr", 0, "a", 5], ["setattr", 0, "d", 1.0], ["attr", 5, "pyattr"],
                  ["setattr", 0, "tag", "x"], ["get", 0]]
            p += [["free", i] for i in (3, 4, 0, 1, 2, 5, 6)] + [["dlog"]]
        out.append(("ctor-args/" + path, p))
    # garbage collection: cycles through object attributes are collected, the blocks go to the freelist
    for cls in ("ZObjOnly", "ZNoGcClear"):
        p = []
        for r in range(3):
            p += [["new", 0, cls, "py"], ["new", 1, cls, "c"], ["new", 2, cls, "cnew"], ["poke", 0, 3 + r], ["poke", 1, 4 + r], ["tracked", 0],
                  ["link", 0, 1], ["link", 1, 0], ["link", 2, 2], ["get", 0], ["free", 0], ["free", 1], ["free", 2], ["gc"], ["new", 3, cls, "py"],
                  ["new", 4, cls, "c"], ["new", 5, cls, "new"], ["get", 3], ["get", 4], ["get", 5], ["tracked", 3], ["free", 3], ["free", 4], ["free", 5]]
        out.append(("gc-cycles/" + cls, p))
    out.append(("gc-tracked", [s for c in ("ZCOnly", "ZNoGc", "ZAll", "ZFinal", "ZWeak", "ZDict", "PZSlots0") for s in
                               (["new", 0, c, "py"], ["tracked", 0], ["free", 0], ["new", 0, c, "c"], ["tracked", 0], ["free", 0])]))
    # deallocation hooks
    p = []
    for r in range(2):
        p += [["new", 0, "ZCinit", "py"], ["new", 1, "ZDel", "c"], ["new", 2, "PZDel", "py"], ["new", 3, "PZCinit", "py"], ["new", 4, "ZDel", "cnew"],
              ["poke", 0, 5], ["poke", 1, 6], ["poke", 2, 7], ["poke", 4, 8], ["free", 0], ["dlog"], ["free", 1], ["dlog"], ["free", 2], ["dlog"], ["free", 3], ["dlog"],
              ["free", 4], ["dlog"], ["new", 0, "ZCinit", "c"], ["new", 1, "ZDel", "py"], ["get", 0], ["get", 1], ["free", 0], ["free", 1], ["dlog"]]
    out.append(("dealloc-hooks", p))
    # weak references and instance dicts
    p = []
    for r in range(3):
        p += [["new", 0, "ZWeak", PATHS[r]], ["poke", 0, 9 + r], ["weakref", 0], ["wrget", 0], ["free", 0], ["wrget", 0], ["new", 1, "ZWeak", "c"], ["get", 1], ["wrget", 0],
              ["weakref", 1], ["free", 1], ["wrget", 1],
              ["new", 2, "ZDict", PATHS[r]], ["poke", 2, 4 + r], ["setattr", 2, "other", r], ["get", 2], ["free", 2], ["new", 3, "ZDict", "c"], ["get", 3], ["attr", 3, "dyn"],
              ["free", 3], ["new", 4, "ZCOnly", "py"], ["weakref", 4], ["setattr", 4, "zz", 1], ["free", 4]]
    out.append(("weakref-dict", p))
    # pickling and copying: the unpickler creates the instance through tp_new and then sets the state
    for proto in ((2,) if quick else (0, 2, 5)):
        p = []
        for r in range(3):
            p += [["new", 0, "ZPick", "py"], ["new", 1, "ZPick", "c"], ["poke", 0, 30 + r], ["hide", 0, 77], ["poke", 1, 40 + r], ["free", 1], ["pickle", 0, 2, proto], ["get", 2],
                  ["copy", 0, 3], ["get", 3], ["free", 0], ["free", 2], ["new", 4, "ZPick", "cnew"], ["get", 4], ["pickle", 4, 5, proto], ["get", 5], ["free", 3], ["free", 4], ["free", 5],
                  ["new", 6, "ZCOnly", "py"], ["pickle", 6, 7, proto], ["get", 7], ["new", 8, "ZAll", "py"], ["pickle", 8, 9, proto], ["new", 9, "ZInit", "py", ["tg"]], ["poke", 9, 3],
                  ["pickle", 9, 10, proto], ["get", 10], ["copy", 9, 11], ["get", 11], ["free", 9], ["free", 10], ["free", 11]]
        out.append(("pickle/%d" % proto, p))
    out.append(("isinstance", [s for i, c in enumerate(ALL_CLASSES) if c != "PZAbs" for s in (["new", i, c, "py"], ["isinst", i])]))
    return out


def expected_trace(prog):
    """the observations z_run must make, from the class table alone; entries that are not predicted are None"""
    v = {}
    out = []
    for step in prog:
        op = step[0]
        if op == "new":
            cls, path = step[2], step[3]
            if cls == "PZAbs":
                out.append(("exc", "new", "TypeError"))
                continue
            v[step[1]] = dict(cls=cls, path=path, args=list(step[4]) if len(step) > 4 else [], kw=(step[5] if len(step) > 5 else None) or {}, k=None, extra={})
        elif op == "poke":
            if step[1] in v:
                v[step[1]]["k"] = step[2]
                v[step[1]]["extra"].pop("a", None); v[step[1]]["extra"].pop("o", None)
            else:
                out.append(("exc", "poke", "KeyError"))
        elif op == "get":
            o = v.get(step[1])
            out.append(None if o is None else (o["cls"], expected_state(o["cls"], o["path"], o["args"], o["kw"], o["k"], o["extra"])))
        elif op == "free":
            v.pop(step[1], None)
        elif op == "drain":
            pass
        else:
            # (only create / poke / get / free are predicted; programs using other steps are compared across cells only)
            return None
    return out


def uses_only_core_ops(prog):
    return all(s[0] in ("new", "poke", "get", "free", "drain") for s in prog)


# ---------------------------------------------------------------------------------------------------------
# tie: the generated tp_new / tp_dealloc of the freelist classes
# ---------------------------------------------------------------------------------------------------------
def parse_generated(c_text, modname="c39z"):
    """-> {class: {"cap": N, "memset": bool, "pop": bool, "init": bool, "track": bool, "push": bool, "shape_ok": bool, "why": str}}
    read from the text of __pyx_tp_new_<mod>_<cls> and __pyx_tp_dealloc_<mod>_<cls>"""
    res = {}
    for cls in FREELISTS:
        info = {"cap": None, "memset": False, "shape_ok": False, "why": ""}
        m = re.search(r"^static PyObject \*__pyx_tp_new(?:_vectorcall)?_\d*%s_%s\(PyTypeObject \*t,[^;{]*\) \{\n(.*?)^\}\n" % (modname, cls), c_text, re.M | re.S)
        d = re.search(r"^static void __pyx_tp_dealloc_\d*%s_%s\(PyObject \*o\) \{\n(.*?)^\}\n" % (modname, cls), c_text, re.M | re.S)
        if not m or not d:
            info["why"] = "tp_new / tp_dealloc not found"
            res[cls] = info
            continue
        body, dbody = m.group(1), d.group(1)
        fl = re.search(r"#if CYTHON_USE_FREELISTS\n(.*?)\} else\n\s*#endif\n(.*)", body, re.S)
        if not fl:
            info["why"] = "no CYTHON_USE_FREELISTS region in tp_new"
            res[cls] = info
            continue
        region, rest = fl.group(1), fl.group(2)
        struct = "struct __pyx_obj_\\d*%s_%s" % (modname, cls)
        cond = re.search(r"if \(likely\(\(int\)\((\S*freecount\S*) > 0\) & __PYX_CHECK_(FINAL_)?TYPE_FOR_FREELISTS\(t, \S+, sizeof\(%s\)\)\)\)" % struct, region)
        pop = re.search(r"o = \(PyObject\*\)\S*freelist\S*\[--\S*freecount\S*\];", region)
        mset = re.search(r"memset\(o, 0, sizeof\(%s\)\);" % struct, region)
        init = re.search(r"PyObject_INIT\(o, t\);", region)
        order_ok = bool(cond and pop and init) and cond.start() < pop.start() < init.start()
        if mset:
            order_ok = order_ok and pop.start() < mset.start() < init.start()
        anymemset = "memset" in region
        fresh = "__Pyx_AllocateExtensionType(t," in rest
        dfl = re.search(r"#if CYTHON_USE_FREELISTS\n(.*?)\} else\n\s*#endif", dbody, re.S)
        push = cap = dc = None
        if dfl:
            dc = re.search(r"if \(likely\(\(int\)\(\S*freecount\S* < (\d+)\) & __PYX_CHECK_(FINAL_)?TYPE_FOR_FREELISTS\(Py_TYPE\(o\), \S+, sizeof\(%s\)\)\)\)" % struct, dfl.group(1))
            push = re.search(r"\S*freelist\S*\[\S*freecount\S*\+\+\] = \(\(%s \*\)o\);" % struct, dfl.group(1))
            cap = int(dc.group(1)) if dc else None
        track = "PyObject_GC_Track(o);" in region
        final_ok = bool(cond) and (cond.group(2) == "FINAL_") == (cls in FINAL_CLASSES) and bool(dfl and dc) and (dc.group(2) == "FINAL_") == (cls in FINAL_CLASSES)
        info.update(cap=cap, memset=bool(mset), track=track,
                    shape_ok=bool(order_ok and fresh and push and cap is not None and (bool(mset) or not anymemset) and final_ok
                                  and track == (cls in GC_CLASSES)))
        if not info["shape_ok"]:
            info["why"] = "cond=%s pop=%s memset=%s(any %s) init=%s fresh=%s push=%s cap=%s final-check-ok=%s gc-track=%s(expected %s)" % (
                bool(cond), bool(pop), bool(mset), anymemset, bool(init), fresh, bool(push), cap, final_ok, track, cls in GC_CLASSES)
        res[cls] = info
    return res


def model_line(prog, cell_cfg, caps, memsets):
    """core-op program over model classes of ONE freelist owner that empties the freelist first
    -> (owner, driver line, classes of the observed variables in order) or None"""
    if not prog or prog[0][0] != "drain" or not uses_only_core_ops(prog):
        return None
    owner = prog[0][1]
    classes = {s[2] for s in prog if s[0] == "new"}
    if not classes <= set(MODEL_WORDS) or any(FL_REL[c][0] != owner for c in classes) or sum(1 for s in prog if s[0] == "drain") != 1:
        return None
    nc = len(MODEL_WORDS[owner])
    no = 1 if owner in MODEL_OBJ else 0
    toks = []
    v = {}
    gets = []
    for s in prog[1:]:
        if s[0] == "new":
            toks.append("N%d:%s" % (s[1], FL_REL[s[2]][1])); v[s[1]] = s[2]
        elif s[0] == "poke":
            if s[1] not in v:
                return None
            cw, ow = to_words(v[s[1]], expected_state(v[s[1]], "py", [], {}, s[2], {}))
            toks += ["C%d:%d:%d" % (s[1], f, w) for f, w in enumerate(cw)] + ["O%d:%d:%d" % (s[1], f, w) for f, w in enumerate(ow)]
        elif s[0] == "get":
            toks.append("G%d" % s[1]); gets.append(v.get(s[1]))
        elif s[0] == "free":
            toks.append("F%d" % s[1]); v.pop(s[1], None)
    use_fl, specs = cell_cfg
    return owner, "run %d %d %d %d %d %d %s" % (use_fl, specs, 1 if memsets[owner] else 0, caps[owner], nc, no, " ".join(toks)), gets


def model_trace(line_result, gets):
    """driver output -> the observation list z_run should return"""
    tr = line_result.split()[0]
    obs = [] if tr == "." else tr.split(";")
    out = []
    for o, cls in zip(obs, gets):
        if o == "-":
            out.append(None)
            continue
        c, w = o.split("|")
        cw = [] if c == "-" else [int(x) for x in c.split(",")]
        ow = [] if w == "-" else [int(x) for x in w.split(",")]
        out.append((cls, from_words(cls, cw, ow)))
    return out


# the worker's result encoding (props/C39_corpus.py WORKER.enc), for values built here
def enc(r, depth=0):
    import math
    t = type(r)
    if r is None: return "N"
    if r is True: return "T"
    if r is False: return "F"
    if t is int: return str(r)
    if t is float: return "f" + (repr(r) if r != r or r in (math.inf, -math.inf) else r.hex())
    if t is str: return "s" + ascii(r)
    if t in (list, tuple) and depth < 6:
        return ("[" if t is list else "(") + ",".join(enc(x, depth + 1) for x in r) + ("]" if t is list else ")")
    if t is dict and depth < 6:
        return "{" + ",".join(enc(k, depth + 1) + ":" + enc(v, depth + 1) for k, v in r.items()) + "}"
    return t.__name__ + ":" + ascii(r)


def first_difference(a, b):
    """position and context of the first difference of two encoded results"""
    n = min(len(a), len(b))
    i = next((k for k in range(n) if a[k] != b[k]), n)
    lo = max(0, i - 60)
    return "at char %d: ...%s <> ...%s" % (i, a[lo:i + 80], b[lo:i + 80])
