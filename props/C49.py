"""C49 — Generated code is assembled in insertion-point order (DESIGN 7/C49).

Three parties per history of buffer operations:
  * the real class Cython/StringIOTree.py (sources forced by pyload), driven directly and through
    Cython/Compiler/Code.py CCodeWriter.write/insertion_point/insert,
  * the extracted Gallina model (M_IOTree.step/getvalue/allmarkers/is_empty/copyto) and the extracted
    Gallina reference (spec_step/svalue/smarkers) the theorems speak about,
  * the property oracle: class Holes below, a "list of holes" written here in Python, independent of both.
"""
import json, os
import cybuild

TITLE = "Generated code is assembled in insertion-point order"
EXTRACTS = ["IOTree"]
RULE = ("histories of operations N(ew buffer) / P(oint: insertion_point) / W(rite text+markers) / I(nsert) / "
        "C(ommit) / R(eset) over client handles; exhaustive: every operation sequence of length <= 5 (quick) / "
        "<= 6 (thorough) over <= 3 buffers, each W in two payload variants (no newline; one newline + one marker), "
        "observed at the end (all prefixes are themselves enumerated); random: well-formed histories of 20-80 "
        "operations over <= 8 buffers with empty/multi-line payloads, observed after every step, plus short "
        "arbitrary (ill-formed: double insertion, cycles) histories for the model tie only; distinct by operation "
        "sequence; non-trivial = at least one write")
EXPLANATION = ("theorems: for every well-formed history of any length over any number of buffers the heap model of "
               "StringIOTree refines the list-of-holes reference: getvalue/copyto of every buffer = the texts of the "
               "reference inside that buffer's hole, allmarkers = the markers of the same fragments in the same order, "
               "empty() = (text is empty), recursion always terminates (fuel = number of objects suffices); without reset "
               "the reference holds every written fragment exactly once (permutation of the writes) and keeps "
               "the per-buffer chronological order. Correspondence: real class vs extracted model (tie) vs Python list of "
               "holes (oracle), also through CCodeWriter. reset() is covered in full generality (insertion points inside a "
               "reset buffer become detached roots).")
TRUSTED = ["io.StringIO modelled as an append-only list of code points with tell() = length",
           "Python object identity modelled as heap index; handles = creation order of client-visible buffers",
           "the Python list-of-holes oracle in props/C49.py (class Holes)"]
ASSUMPTIONS = ["well-formed histories: an inserted buffer is a root and not the tree its target lives in; markers are "
               "only appended together with non-empty text (CCodeWriter appends one marker per newline of the text)",
               "nesting depth of buffers below the Python recursion limit (getvalue/allmarkers/empty recurse per level)"]

MAXBUF = 3


# ----------------------------------------------------------------------------- oracle
class Holes:
    """One global ordered list: ('O', b) / ('C', b) hole marks and ('T', text, markers) fragments.
    Roots lie side by side at depth 0."""
    def __init__(self):
        self.L = []
        self.n = 0

    def _open(self, b):
        return self.L.index(("O", b))

    def _close(self, b):
        return self.L.index(("C", b))

    def _depth_at(self, i):
        d = 0
        for it in self.L[:i]:
            d += 1 if it[0] == "O" else (-1 if it[0] == "C" else 0)
        return d

    def wf(self, op):
        k = op[0]
        if k == "N":
            return True
        if op[1] >= self.n:
            return False
        if k == "W":
            return bool(op[2]) or not op[3]
        if k == "I":
            b, t = op[1], op[2]
            if t >= self.n or b == t:
                return False
            i, j = self._open(t), self._close(t)
            return self._depth_at(i) == 0 and not (i < self._close(b) < j)
        return True

    def reset_is_flat(self, b):
        return all(it[0] == "T" for it in self.L[self._open(b) + 1:self._close(b)])

    def apply(self, op):
        k = op[0]
        if k == "N":
            self.L += [("O", self.n), ("C", self.n)]
            self.n += 1
        elif k == "P":
            i = self._close(op[1])
            self.L[i:i] = [("O", self.n), ("C", self.n)]
            self.n += 1
        elif k == "W":
            if op[2]:
                i = self._close(op[1])
                self.L[i:i] = [("T", op[2], tuple(op[3]))]
        elif k == "I":
            i, j = self._open(op[2]), self._close(op[2])
            seg = self.L[i:j + 1]
            del self.L[i:j + 1]
            p = self._close(op[1])
            self.L[p:p] = seg
        elif k == "R":
            i, j = self._open(op[1]), self._close(op[1])
            body = self.L[i + 1:j]
            del self.L[i + 1:j]
            d = 0
            for it in body:                      # holes directly inside become detached roots
                if it[0] == "O":
                    d += 1
                if d > 0:
                    self.L.append(it)
                if it[0] == "C":
                    d -= 1
        # 'C' (commit): no logical effect

    def frags(self, b):
        return [it for it in self.L[self._open(b) + 1:self._close(b)] if it[0] == "T"]

    def value(self, b):
        return "".join(f[1] for f in self.frags(b))

    def markers(self, b):
        return [m for f in self.frags(b) for m in f[2]]


# ----------------------------------------------------------------------------- encoding
def enc_nums(xs):
    return ".".join(str(x) for x in xs) if xs else "-"


def enc_op(op):
    k = op[0]
    if k == "N":
        return "N"
    if k == "W":
        return "W%d:%s:%s" % (op[1], enc_nums([ord(c) for c in op[2]]), enc_nums(op[3]))
    if k == "I":
        return "I%d,%d" % (op[1], op[2])
    return "%s%d" % (k, op[1])


def dec_op(tok):
    k = tok[0]
    if k == "N":
        return ("N",)
    if k == "W":
        b, s, m = tok[1:].split(":")
        return ("W", int(b), "".join(chr(int(x)) for x in s.split(".")) if s != "-" else "",
                [int(x) for x in m.split(".")] if m != "-" else [])
    if k == "I":
        b, t = tok[1:].split(",")
        return ("I", int(b), int(t))
    return (k, int(tok[1:]))


def gen_exhaustive(maxlen):
    """every operation sequence up to maxlen over <= MAXBUF handles (first op is necessarily N)."""
    out = []

    def rec(prefix, n):
        if prefix:
            out.append(" ".join(prefix))
        if len(prefix) == maxlen:
            return
        k = len(prefix)
        ch = chr(97 + k)
        if n < MAXBUF:
            rec(prefix + ["N"], n + 1)
        for b in range(n):
            if n < MAXBUF:
                rec(prefix + ["P%d" % b], n + 1)
            rec(prefix + ["W%d:%d:-" % (b, ord(ch))], n)
            rec(prefix + ["W%d:%d.10:%d" % (b, ord(ch), k + 1)], n)
            rec(prefix + ["C%d" % b], n)
            rec(prefix + ["R%d" % b], n)
            for t in range(n):
                rec(prefix + ["I%d,%d" % (b, t)], n)
    rec([], 0)
    return out


PAYLOADS = ["", "x", "x\n", "\n", "ab\ncd\n", "x\ny", "\n\n\n", "tail"]


def gen_random_wf(rng, length, maxbuf, with_reset):
    o = Holes()
    ops = [("N",)]
    o.apply(ops[0])
    tries = 0
    while len(ops) < length and tries < length * 20:
        tries += 1
        r = rng.random()
        b = rng.randrange(o.n)
        if r < 0.42:
            s = rng.choice(PAYLOADS).replace("x", chr(97 + len(ops) % 26))
            op = ("W", b, s, [len(ops)] * s.count("\n"))
        elif r < 0.62:
            op = ("P", b) if o.n < maxbuf else ("C", b)
        elif r < 0.72:
            op = ("N",) if o.n < maxbuf else ("C", b)
        elif r < 0.90:
            op = ("I", b, rng.randrange(o.n))
        elif r < 0.96 or not with_reset:
            op = ("C", b)
        else:
            op = ("R", b)
        if not o.wf(op):
            continue
        o.apply(op)
        ops.append(op)
    return " ".join(enc_op(x) for x in ops)


def gen_random_any(rng, length, maxbuf):
    ops, n = [("N",)], 1
    while len(ops) < length:
        r = rng.random()
        b = rng.randrange(n)
        if r < 0.3:
            s = rng.choice(PAYLOADS)
            ms = [len(ops)] * (s.count("\n") if rng.random() < 0.7 else rng.randrange(3))
            ops.append(("W", b, s, ms))
        elif r < 0.5 and n < maxbuf:
            ops.append(("P", b)); n += 1
        elif r < 0.6 and n < maxbuf:
            ops.append(("N",)); n += 1
        elif r < 0.85:
            ops.append(("I", b, rng.randrange(n)))
        elif r < 0.93:
            ops.append(("C", b))
        else:
            ops.append(("R", b))
    return " ".join(enc_op(x) for x in ops)


# ----------------------------------------------------------------------------- the implementation side
IMPL_SCRIPT = r'''
import pyload; pyload.install()
import sys, io
sys.setrecursionlimit(3000)
from Cython.StringIOTree import StringIOTree
from Cython.Compiler.Code import CCodeWriter
pyload.assert_sources()
assert StringIOTree.__module__ == "Cython.StringIOTree" and sys.modules["Cython.StringIOTree"].__file__.endswith(".py")

class Stub:            # stands for GlobalState: CCodeWriter only reads .code_config from it here
    code_config = None
class Desc:            # source descriptor stand-in
    filename = "f.pyx"
DESC = Desc()

def enc(xs):
    return ".".join(str(x) for x in xs) if xs else "-"

def dec_op(tok):
    k = tok[0]
    if k == "N": return ("N",)
    if k == "W":
        b, s, m = tok[1:].split(":")
        return ("W", int(b), "".join(chr(int(x)) for x in s.split(".")) if s != "-" else "",
                [int(x) for x in m.split(".")] if m != "-" else [])
    if k == "I":
        b, t = tok[1:].split(",")
        return ("I", int(b), int(t))
    return (k, int(tok[1:]))

class Target:
    def __init__(self): self.chunks = []
    def write(self, s): self.chunks.append(s)

def shape(t):
    """reachable graph from t: (cyclic, branching_cycle)"""
    state = {}; cyc = [False]; deg = [0]
    def go(x):
        if state.get(id(x)) == 1: cyc[0] = True; return
        if state.get(id(x)) == 2: return
        state[id(x)] = 1
        deg[0] = max(deg[0], len(x.prepended_children))
        for c in x.prepended_children: go(c)
        state[id(x)] = 2
    go(t)
    return cyc[0], deg[0]

def obs1(f):
    try:
        return f()
    except RecursionError:
        return None

def observe(trees, cw):
    out = []
    for t in trees:
        buf = t.buffer if cw else t
        cyc, deg = shape(buf)
        if cyc and deg > 1:
            out.append("~/~/~/~")        # unbounded recursion with fan-out: not executed (would not return)
            continue
        if cyc:
            old = sys.getrecursionlimit(); sys.setrecursionlimit(120)
        v = obs1(t.getvalue)
        m = obs1(buf.allmarkers)
        e = obs1(buf.empty)
        tg = Target()
        k = obs1(lambda: (t.copyto(tg), tg.chunks)[1])
        if cyc:
            sys.setrecursionlimit(old)
        if cw and m is not None:
            m = [x[1] for x in m]
        out.append("/".join([
            "!" if v is None else enc([ord(c) for c in v]),
            "!" if m is None else enc(m),
            "!" if e is None else ("1" if e else "0"),
            "!" if k is None else ("-" if not k else ",".join(enc([ord(c) for c in ch]) for ch in k))]))
    return ";".join(out)

def run_hist(tokens, every, cw):
    trees = []; blocks = []; root = None
    for tok in tokens:
        op = dec_op(tok)
        k = op[0]
        if k == "N":
            if cw:
                if root is None:
                    root = CCodeWriter(); root.set_global_state(Stub); trees.append(root)
                else:
                    trees.append(root.new_writer())
            else:
                trees.append(StringIOTree())
        elif k == "P":
            trees.append(trees[op[1]].insertion_point())
        elif k == "W":
            t = trees[op[1]]
            if cw:
                t.last_marked_pos = (DESC, op[3][0], 0) if op[3] else None
                t.write(op[2])
            else:
                t.markers.extend(op[3])
                t.write(op[2])
        elif k == "I":
            trees[op[1]].insert(trees[op[2]])
        elif k == "C":
            (trees[op[1]].buffer if cw else trees[op[1]]).commit()
        elif k == "R":
            (trees[op[1]].buffer if cw else trees[op[1]]).reset()
        if every:
            blocks.append(observe(trees, cw))
    if not every:
        blocks.append(observe(trees, cw))
    return "|".join(blocks)

def main():
    inp, outp = sys.argv[1], sys.argv[2]
    with open(inp) as f, open(outp, "w") as g:
        for line in f:
            w = line.split()
            if not w: continue
            try:
                g.write(run_hist(w[2:], w[1] == "all", w[0] == "cw") + "\n")
            except Exception as e:
                g.write("EXC %s %s\n" % (type(e).__name__, str(e)[:200].replace("\n", " ")))
    print('{"ok": true}')
main()
'''


def run_impl(ctx, lines, tag):
    """lines: '<raw|cw> <all|end> ops...' -> list of result lines from the real code."""
    inp = os.path.join(ctx.workdir, "hist_%s.txt" % tag)
    outp = os.path.join(ctx.workdir, "impl_%s.txt" % tag)
    with open(inp, "w") as f:
        f.write("\n".join(lines) + "\n")
    r = cybuild.run_script(IMPL_SCRIPT, ctx.workdir, name="c49_impl.py", args=[inp, outp], timeout=3000)
    if r["rc"] != 0 or not os.path.exists(outp):
        raise RuntimeError("implementation runner failed: rc=%s %s" % (r["rc"], r["err"][-1500:]))
    res = open(outp).read().split("\n")
    if res and res[-1] == "":
        res.pop()
    if len(res) != len(lines):
        raise RuntimeError("implementation runner: %d lines in, %d out" % (len(lines), len(res)))
    return res


# ----------------------------------------------------------------------------- comparison
def dec_txt(s):
    return "" if s == "-" else "".join(chr(int(x)) for x in s.split("."))


def classify(ops, what):
    kinds = set(o[0] for o in ops)
    if what == "markers":
        return "markers_misaligned"
    if what == "empty":
        return "empty_wrong"
    if what == "copyto":
        return "copyto_differs_from_getvalue"
    if "R" in kinds:
        return "text_wrong_with_reset"
    if "I" in kinds:
        return "text_wrong_with_insert"
    return "text_wrong_insertion_points"


def oracle_blocks(ops, every):
    """per observation point: None if the history so far is ill-formed, else list of (value, markers) per handle;
    also whether every reset so far hit a hole-free buffer."""
    o = Holes()
    ok, strict = True, True
    out = []
    for i, op in enumerate(ops):
        if ok and not o.wf(op):
            ok = False
        if ok:
            if op[0] == "R" and not o.reset_is_flat(op[1]):
                strict = False
            o.apply(op)
        if every or i == len(ops) - 1:
            out.append((ok, strict, [(o.value(b), o.markers(b)) for b in range(o.n)] if ok else None))
    return out


def compare(ctx, layer, mode, hist, impl_line, model_line, stratum_prefix):
    toks = hist.split()
    ops = [dec_op(t) for t in toks]
    inp = {"layer": layer, "mode": mode, "history": hist}
    every = mode == "all"
    orc = oracle_blocks(ops, every)
    wf_all = orc[-1][0]
    kinds = "".join(sorted(set(o[0] for o in ops)))
    ctx.case("%s/%s/%s/%s" % (stratum_prefix, layer, "wf" if wf_all else "illformed", kinds), inp, sig=(layer, hist),
             nontrivial=any(o[0] == "W" for o in ops))
    if impl_line.startswith("EXC"):
        ctx.fail("exception", inp, impl_line, "no exception") if wf_all else None
        if not wf_all:
            ctx.corr_break("iotree:exception", inp, impl_line, model_line)
        return
    ib, mb = impl_line.split("|"), model_line.split("|")
    if len(ib) != len(mb) or len(ib) != len(orc):
        ctx.corr_break("iotree:blocks", inp, impl_line[:300], model_line[:300])
        return
    for step, (ibk, mbk, (ok, strict, ov)) in enumerate(zip(ib, mb, orc)):
        mparts = mbk.split(";")
        flags, mh = mparts[0], mparts[1:]
        ih = ibk.split(";") if ibk else []
        at = dict(inp, step=(step if every else len(ops) - 1))
        if (flags[0] == "1") != ok:
            ctx.corr_break("iotree:wf (Gallina wf_op vs oracle wf)", at, "oracle wf=%s strict=%s" % (ok, strict), flags)
            return
        if len(ih) != len(mh):
            ctx.corr_break("iotree:handles", at, ibk[:300], mbk[:300])
            return
        for b, (iv, mv) in enumerate(zip(ih, mh)):
            mf = mv.split("/")
            if iv == "~/~/~/~" and not ok:
                continue            # cyclic structure with fan-out (ill-formed history): real call not executed
            if iv != "/".join(mf[:4]):
                # tie: real class vs extracted heap model
                ctx.corr_break("iotree:getvalue/allmarkers/empty/copyto handle %d" % b, at, iv, "/".join(mf[:4]))
                if not ok:
                    return
            if not ok:
                continue
            f = iv.split("/")
            exp_v, exp_m = ov[b]
            exp_ms = enc_nums(exp_m)
            # Gallina reference vs Python oracle (both are specifications; a difference is a check defect)
            if mf[4] == "!" or dec_txt(mf[4]) != exp_v or mf[5] != exp_ms:
                ctx.corr_break("iotree:reference (Gallina spec vs Python list of holes) handle %d" % b, at,
                               "oracle %r %s" % (exp_v, exp_ms), "/".join(mf[4:]))
            # property: real class vs oracle
            if f[0] == "!" or dec_txt(f[0]) != exp_v:
                ctx.fail(classify(ops, "text"), at, {"handle": b, "getvalue": None if f[0] == "!" else dec_txt(f[0])},
                         {"handle": b, "getvalue": exp_v}, note="model says %s" % mf[0])
                return
            if f[1] != exp_ms:
                ctx.fail(classify(ops, "markers"), at, {"handle": b, "allmarkers": f[1]}, {"handle": b, "allmarkers": exp_ms},
                         note="model says %s" % mf[1])
                return
            if f[2] != ("1" if exp_v == "" else "0"):
                ctx.fail(classify(ops, "empty"), at, {"handle": b, "empty": f[2]}, {"handle": b, "empty": exp_v == ""})
                return
            chunks = [] if f[3] in ("-", "!") else [dec_txt(c) for c in f[3].split(",")]
            if f[3] == "!" or "".join(chunks) != exp_v or any(c == "" for c in chunks):
                ctx.fail(classify(ops, "copyto"), at, {"handle": b, "copyto": chunks}, {"handle": b, "text": exp_v})
                return
            # alignment proper: one marker per line of the assembled text, marker k = marker of the
            # fragment that ended line k (CCodeWriter discipline of the generated histories)
            if all(o[0] != "W" or len(o[3]) == o[2].count("\n") for o in ops) and len(exp_m) != exp_v.count("\n"):
                ctx.fail("markers_misaligned", at, {"handle": b, "markers": len(exp_m)}, {"lines": exp_v.count("\n")})
                return


def run_batch(ctx, model, layer, mode, hists, tag, stratum):
    if not hists:
        return
    impl = run_impl(ctx, ["%s %s %s" % (layer, mode, h) for h in hists], tag)
    mres = model.batch(["hist %s %s" % (mode, h) for h in hists])
    for h, il, ml in zip(hists, impl, mres):
        compare(ctx, layer, mode, h, il, ml, stratum)


def run(ctx):
    quick = ctx.tier == "quick"
    rng = ctx.rng
    model = ctx.model("iotree")
    L = 5 if quick else 6
    ex = gen_exhaustive(L)
    run_batch(ctx, model, "raw", "end", ex, "ex_raw", "exhaustive<=%d" % L)
    ctx.extra.setdefault("exhaustive_domains", []).append(
        "all %d operation sequences of length <= %d over <= %d buffers on StringIOTree" % (len(ex), L, MAXBUF))
    # the same through CCodeWriter.write / insertion_point / insert (markers come from last_marked_pos)
    Lc = 4 if quick else 5
    exc = [h for h in ex if len(h.split()) <= Lc]
    run_batch(ctx, model, "cw", "end", exc, "ex_cw", "exhaustive<=%d" % Lc)
    ctx.extra["exhaustive_domains"].append(
        "all %d operation sequences of length <= %d over <= %d buffers through CCodeWriter" % (len(exc), Lc, MAXBUF))
    if quick:       # a sample of the length-5 sequences through CCodeWriter (all of them in the thorough tier)
        l5 = [h for h in ex if len(h.split()) == 5]
        run_batch(ctx, model, "cw", "end", rng.sample(l5, 1500), "ex_cw5", "sampled-len5")
    nr = 250 if quick else 2500
    rnd = [gen_random_wf(rng, rng.randrange(20, 81), 8, with_reset=(i % 3 == 0)) for i in range(nr)]
    run_batch(ctx, model, "raw", "all", rnd, "rnd_raw", "random-long")
    run_batch(ctx, model, "cw", "all", rnd[: nr // 2], "rnd_cw", "random-long")
    anyh = [gen_random_any(rng, rng.randrange(4, 11), 4) for _ in range(nr)]
    run_batch(ctx, model, "raw", "all", anyh, "rnd_any", "random-arbitrary")
    # boundary of the marker assumption (not reachable through CCodeWriter): markers without text
    bnd = "N W0:-:7 P0 W1:120.10:9"
    il = run_impl(ctx, ["raw end " + bnd], "bnd")[0]
    ml = model.batch(["hist end " + bnd])[0]
    if il.split(";")[0].split("/")[:4] != ml.split(";")[1].split("/")[:4]:
        ctx.corr_break("iotree:boundary markers-without-text", bnd, il, ml)
    ctx.note("boundary (outside the property: CCodeWriter never appends markers without text): history '%s' gives "
             "allmarkers(root) = %s on the real class and on the model (P_IOTree.markers_without_text_boundary)"
             % (bnd, il.split(";")[0].split("/")[1]))


def replay(ctx, obj):
    inp = obj["input"]
    model = ctx.model("iotree")
    h, layer, mode = inp["history"], inp.get("layer", "raw"), inp.get("mode", "end")
    il = run_impl(ctx, ["%s %s %s" % (layer, mode, h)], "replay")[0]
    ml = model.batch(["hist %s %s" % (mode, h)])[0]
    print("history:", h)
    print("implementation (%s):" % layer, il)
    print("model+reference:", ml)
    compare(ctx, layer, mode, h, il, ml, "replay")
