"""C13 - Builtin call and method optimisations preserve semantics (DESIGN 7/C13)."""
import itertools, json, os, re
import cybuild

TITLE = "Builtin call and method optimisations preserve semantics"
EXTRACTS = ["Builtins"]
RULE = ("one Cython function per optimised call-site shape (handler names of Optimize.py / method tables of "
        "Builtin.py) x typed/untyped receiver; arguments drawn from per-parameter pools (empty, None, wrong type, "
        "subclasses overriding the method, unicode kinds 1/2/4, negative/huge indices, unhashable/raising keys, "
        "non-total comparisons); distinct by (shape, argument expressions); every case is evaluated by the "
        "compiled module, by CPython on fresh equal arguments and, on its domain, by the extracted Gallina model")
EXPLANATION = ("theorems (all argument values): list.pop()/pop(i) fast paths = list.pop incl. the IndexError "
               "decision and in-bounds memmove; bytes startswith/endswith (start/end clipping, direction, tuple "
               "first-match loop) = CPython's tailmatch = slice semantics, REFUTED for start near PY_SSIZE_T_MAX "
               "(signed overflow) and proved for the repaired test; unicode tuple loop; decode/Substring slice "
               "normalisation = Python slice indices; abs() on C integers; ord()/chr() decisions; dict "
               "get/setdefault/pop default and KeyError logic; min/max conditional chain = left-to-right scan for "
               "an arbitrary comparison with identical comparison trace; any/all inlined loop nest = any/all over "
               "the generator with identical evaluation trace. partial: every other helper (len, isinstance, "
               "getattr, sorted, sum, type constructors, list.insert/extend/reverse/sort/append, set methods, "
               "str find/count/split/join/replace/encode, unicode predicates, bytearray methods) is plain C-API "
               "forwarding and covered differentially only.")
TRUSTED = ["CPython C-API functions called by the helpers (PyUnicode_Tailmatch, PyDict_GetItemWithError, "
           "_PyDict_Pop, PyDict_SetDefault, PyUnicode_FromOrdinal, list method fallbacks) behave as their Python "
           "counterparts: modelled by Gallina definitions of the documented contract",
           "model of C arithmetic: explicit two's-complement wrap / UB constructor (Lib/CInt.v)",
           "CPython 3.12 as the property oracle; gcc as a conforming C compiler"]
ASSUMPTIONS = ["LP64; CPython 3.12 non-limited API build (CYTHON_USE_PYLIST_INTERNALS etc. = 1)",
               "evaluation ORDER of min/max arguments and of 'in' operands is C20/C19 (F18/F25), not checked here"]

# --------------------------------------------------------------------------------------------
# worker-side support code: argument classes, shared by the compiled module and the CPython oracle
SUPPORT = r'''
import sys
LOG = []
class L2(list):
    def pop(self, *a): return ('L2.pop', a)
    def append(self, x): list.append(self, ('L2.append', x))
    def insert(self, i, x): list.append(self, ('L2.insert', i, x))
    def extend(self, x): list.append(self, ('L2.extend', tuple(x)))
    def reverse(self): list.append(self, 'L2.reverse')
    def sort(self): list.append(self, 'L2.sort')
    def __len__(self): return 77
class L3(list):
    pass
class D2(dict):
    def get(self, *a): return ('D2.get', a)
    def pop(self, *a): return ('D2.pop', a)
    def setdefault(self, *a): return ('D2.setdefault', a)
    def keys(self): return ['D2.keys']
    def __len__(self): return 78
    def __contains__(self, k): return 'D2.contains'
class DM(dict):
    def __missing__(self, k): return ('missing', k)
class S2(set):
    def add(self, x): set.add(self, ('S2.add', x))
    def discard(self, x): set.add(self, ('S2.discard', x))
    def remove(self, x): set.add(self, ('S2.remove', x))
    def pop(self): return 'S2.pop'
    def __len__(self): return 79
class U2(str):
    def startswith(self, *a): return ('U2.startswith', a)
    def endswith(self, *a): return ('U2.endswith', a)
    def find(self, *a): return ('U2.find', a)
    def count(self, *a): return ('U2.count', a)
    def split(self, *a): return ('U2.split', a)
    def join(self, *a): return ('U2.join',)
    def encode(self, *a): return ('U2.encode', a)
    def __len__(self): return 80
    def __str__(self): return 'U2.__str__'
class B2(bytes):
    def startswith(self, *a): return ('B2.startswith', a)
    def endswith(self, *a): return ('B2.endswith', a)
    def decode(self, *a): return ('B2.decode', a)
    def __len__(self): return 81
class BA2(bytearray):
    def append(self, x): bytearray.append(self, 33)
    def extend(self, x): bytearray.append(self, 34)
    def decode(self, *a): return ('BA2.decode', a)
class T2(tuple):
    def __len__(self): return 82
class I2(int):
    def __abs__(self): return 'I2.abs'
    def __index__(self): return 1
class F2(float):
    def __abs__(self): return 'F2.abs'
class Idx:
    def __init__(self, v=1): self.v = v
    def __index__(self): return self.v
    def __repr__(self): return 'Idx(%r)' % (self.v,)
class IntOnly:
    def __int__(self): return 1
    def __repr__(self): return 'IntOnly()'
class Unhash:
    __hash__ = None
    def __repr__(self): return 'Unhash()'
class BadHash:
    def __hash__(self): raise ZeroDivisionError('hash')
    def __repr__(self): return 'BadHash()'
class BadEq:
    def __hash__(self): return hash(1)
    def __eq__(self, o): raise ZeroDivisionError('eq')
    def __repr__(self): return 'BadEq()'
class EqAll:
    def __hash__(self): return hash(1)
    def __eq__(self, o): return True
    def __repr__(self): return 'EqAll()'
class Liar:
    __class__ = list
    def __repr__(self): return 'Liar()'
class LiarD:
    __class__ = dict
    def __repr__(self): return 'LiarD()'
class Abs:
    def __abs__(self): return 'Abs.abs'
    def __repr__(self): return 'Abs()'
class WithLen:
    def __init__(self, n): self.n = n
    def __len__(self): return self.n
    def __repr__(self): return 'WithLen(%r)' % (self.n,)
class Attr:
    x = 5
    def __init__(self, mode=0): self.__dict__['mode'] = mode
    def __getattr__(self, n):
        if self.mode == 1: raise ZeroDivisionError(n)
        if self.mode == 2: return ('dyn', n)
        raise AttributeError(n)
    def __repr__(self): return 'Attr(%r)' % (self.mode,)
class GA:
    def __getattribute__(self, n): raise AttributeError('GA')
class Truth:
    """truthiness object: mode 0 false, 1 true, 2 raises; logs its evaluation"""
    def __init__(self, tag, mode): self.tag, self.mode = tag, mode
    def __bool__(self):
        LOG.append(self.tag)
        if self.mode == 2: raise ZeroDivisionError('bool')
        return bool(self.mode)
    def __repr__(self): return 'Truth(%r,%r)' % (self.tag, self.mode)
class K:
    """element with a table driven (non-total, non-antisymmetric, possibly raising) comparison.
    rel[i][j] in 0/1 = result of K(i) < K(j) (and of K(i) > K(j) through gt), 2 = raise, 3 = Truth false,
    4 = Truth true"""
    def __init__(self, i, lt, gt): self.i, self.lt, self.gt = i, lt, gt
    def _r(self, v, j, op):
        LOG.append((op, self.i, j))
        if v == 2: raise ZeroDivisionError('cmp')
        if v >= 3: return Truth(('t', self.i, j), v - 3)
        return bool(v)
    def __lt__(self, o): return self._r(self.lt[self.i][o.i], o.i, '<')
    def __gt__(self, o): return self._r(self.gt[self.i][o.i], o.i, '>')
    def __repr__(self): return 'K%d' % self.i
def mkK(n, lt, gt):
    return [K(i, lt, gt) for i in range(n)]
def mk_app(n):
    l = []
    for i in range(n): l.append(i)
    return l
def mk_cut(n, m):
    l = list(range(n)); del l[m:]
    return l
def logged(f, *a):
    del LOG[:]
    try:
        r = f(*a)
    except BaseException as e:
        return ('EXC', type(e).__name__, list(LOG))
    return (r, list(LOG))
def gen_of(l):
    return (x for x in l)
class Seq:
    def __init__(self, l): self.l = l
    def __getitem__(self, i): return self.l[i]
    def __len__(self): return len(self.l)
class BadIter:
    def __iter__(self): raise ZeroDivisionError('iter')
'''

NAN = "float('nan')"
P_OBJ = ["None", "0", "1", "-1", "True", "1.5", "'a'", "b'a'", "[1]", "(1,)", "{1: 2}", "{1}", "object"]
P_LIST = ["[]", "[1]", "[1, 2, 3]", "mk_app(9)", "mk_app(8)", "mk_cut(40, 21)", "mk_cut(40, 20)", "mk_cut(40, 1)",
          "list('abcdefgh')"]
P_LISTX = P_LIST + ["None"]
P_LISTOBJ = P_LIST + ["None", "L2([1, 2, 3])", "L3([1, 2])", "(1, 2)", "{1: 2, 5: 6}", "{1, 2}", "bytearray(b'ab')", "5",
                      "'ab'"]
P_IDX = ["0", "1", "2", "3", "-1", "-2", "-3", "-4", "7", "8", "9", "-9", "-10", "20", "-20", "-21", "40",
         "2**31", "-2**31", "2**63-1", "-2**63"]
P_IDXOBJ = P_IDX + ["True", "2**63", "-2**63-1", "2**100", "-2**100", "None", "1.5", "'1'", "Idx(1)", "Idx(-1)", "Idx(99)",
                    "I2(2)", "IntOnly()"]
P_VAL = ["None", "7", "'v'", "[]"]
P_DICT = ["{}", "{1: 'one'}", "{1: 'one', 'k': None, (1, 2): 3}", "{None: 0}", "{1.0: 'f', 2: 'i'}"]
P_DICTX = P_DICT + ["None"]
P_DICTOBJ = P_DICT + ["None", "D2({1: 2})", "DM({1: 2})", "[1, 2]", "{1, 2}"]
P_KEY = ["1", "'k'", "(1, 2)", "None", "2", "'zz'", "True", "1.0", "[1]", "{1: 2}", "Unhash()", "BadHash()", "BadEq()",
         "EqAll()", "(1, [2])"]
P_SET = ["set()", "{1}", "{1, 2, 'a'}", "{frozenset([1]), 5}", "{None}"]
P_SETX = P_SET + ["None"]
P_SETOBJ = P_SET + ["None", "S2([1])", "frozenset([1])", "[1]", "{1: 2}"]
P_SKEY = ["1", "'a'", "5", "None", "9", "[1]", "{1}", "set()", "frozenset([1])", "Unhash()", "BadHash()", "BadEq()", "{1: 2}",
          "S2([1])"]
P_STR = ["''", "'a'", "'abc'", "'abcabc'", "'\\xe9t\\xe9'", "'a\\u20acb\\u20ac'", "'\\U0001f600x\\U0001f600'", "'ab cd  ef'",
         "' a\\nb\\r\\nc'", "'\\x00'"]
P_STRX = P_STR + ["None"]
P_SUB = ["''", "'a'", "'b'", "'bc'", "'abc'", "'c'", "'abcabcd'", "'\\xe9'", "'\\u20ac'", "'\\U0001f600'", "'x\\U0001f600'", "' '"]
P_SUBX = P_SUB + ["None", "5", "b'a'", "('a', 'b')", "()", "('x', 'bc', 'c')", "('x', 5)", "('a', 5)", "(5, 'a')", "['a']",
                  "U2('a')", "('\\u20ac', '\\xe9')", "(('a',),)", "('', )"]
P_SE = ["0", "1", "2", "3", "4", "5", "6", "7", "-1", "-2", "-3", "-4", "-6", "-7", "100", "-100", "2**63-1", "-2**63",
        "2**63-2", "-2**63+1", "2**62"]
P_SEB = [x for x in P_SE if x not in ("2**63-1", "2**63-2")]      # bytes tailmatch: these crash the tree (own shape below)
P_SEBOBJ = P_SEB + ["None", "2**63", "-2**63-1", "2**100", "True", "1.5", "'1'", "Idx(1)", "Idx(2**70)"]
P_SEOBJ = P_SE + ["None", "2**63", "-2**63-1", "2**100", "-2**100", "True", "1.5", "'1'", "Idx(1)", "Idx(2**70)"]
P_BYTES = ["b''", "b'a'", "b'abc'", "b'abcabc'", "b'\\xe9t\\xe9'", "b'\\x00\\xff'", "b'ab cd'"]
P_BYTESX = P_BYTES + ["None"]
P_BSUB = ["b''", "b'a'", "b'b'", "b'bc'", "b'abc'", "b'c'", "b'abcabcd'", "b'\\xe9'", "b'\\xff'"]
P_BSUBX = P_BSUB + ["None", "5", "'a'", "bytearray(b'a')", "memoryview(b'ab')", "(b'a', b'b')", "()", "(b'x', b'bc', b'c')",
                    "(b'x', 5)", "(b'a', 5)", "(5, b'a')", "[b'a']", "B2(b'a')", "(bytearray(b'c'), b'q')", "((b'a',),)"]
P_BA = ["bytearray()", "bytearray(b'a')", "bytearray(b'abc')", "bytearray(b'\\xe9t\\xe9')"]
P_BAX = P_BA + ["None"]
P_ITER = ["[]", "[0]", "[1]", "[0, 0, 1, 0]", "[1, 1, 1]", "[0, 0]", "()", "(0, 'a')", "''", "'ab'", "{}", "{0: 1}", "{0, 1}",
          "gen_of([0, 2])", "range(3)", "range(0)", "None", "5", "BadIter()", "Seq([0, 3])",
          "[Truth(0, 0), Truth(1, 1), Truth(2, 2)]", "[Truth(0, 0), Truth(1, 2), Truth(2, 1)]",
          "[Truth(0, 1), Truth(1, 0), Truth(2, 2)]", "[Truth(0, 0), Truth(1, 0)]", "[Truth(0, 1), Truth(1, 1)]"]
P_NEST = ["[]", "[[]]", "[[0], [], [0, 1, 2], [3]]", "[[1, 1], [1]]", "[[0, 0], 5]", "[(0,), 'a', [0]]", "None", "[None]",
          "[[Truth(0, 0), Truth(1, 1)], [Truth(2, 2)]]", "[[Truth(0, 1)], [Truth(1, 2), Truth(2, 0)]]",
          "[[Truth(0, 0)], [Truth(1, 2), Truth(2, 1)]]", "[[Truth(0, 1), Truth(1, 1)], 5]"]
P_NUMS = ["[]", "[1, 2, 3]", "[1.5, 2]", "['a', 'b']", "[[1], [2]]", "(1, 2)", "range(5)", "None", "5", "[1, None]",
          "[2**62, 2**62, 2**62]", "[True, True]", "gen_of([1, 2])", "{1: 2}"]
P_SORT = ["[]", "[3, 1, 2]", "[1, 'a']", "(3, 1, 2)", "'cab'", "{3: 1, 1: 2}", "{2, 1}", "None", "5", "gen_of([2, 1])",
          "[3.0, 1, 2.5]", "[[2], [1]]", "L3([2, 1])", "range(3, 0, -1)", "[" + NAN + ", 1.0, 0.5]"]
P_ABS = ["0", "1", "-1", "5", "-5", "2**30", "-2**30", "2**30-1", "-(2**30-1)", "2**31", "-2**31", "2**60", "-2**60", "2**63",
         "-2**63", "2**64", "-2**64", "2**100", "-2**100", "True", "False", "1.5", "-1.5", "-0.0", NAN, "float('-inf')",
         "1+2j", "None", "'a'", "Abs()", "I2(-3)", "F2(-1.0)", "-(2**30)-1", "-2**29"]
P_ORD = ["''", "'a'", "'\\xe9'", "'\\u20ac'", "'\\U0001f600'", "'ab'", "'\\u20acb'", "b''", "b'a'", "b'\\xff'", "b'ab'",
         "bytearray(b'')", "bytearray(b'a')", "bytearray(b'ab')", "None", "5", "['a']", "U2('a')", "U2('ab')", "B2(b'a')",
         "BA2(b'a')", "memoryview(b'a')", "'\\x00'", "'\\udc80'"]
P_CHR = ["-1", "0", "65", "255", "256", "0xffff", "0x10000", "0x10ffff", "0x110000", "0xd800", "2**31-1", "2**31", "-2**31",
         "-2**31-1", "2**32", "2**63", "2**100", "-2**100", "True", "1.5", "'1'", "None", "Idx(65)", "I2(66)", "IntOnly()"]
P_INST = ["None", "0", "True", "1.5", "'a'", "b'a'", "bytearray(b'a')", "[1]", "(1,)", "{1: 2}", "{1}", "frozenset([1])",
          "L3([1])", "D2()", "S2()", "U2('a')", "B2(b'a')", "T2((1,))", "I2(1)", "F2(1.0)", "Liar()", "LiarD()", "object",
          "int", "type", "1+2j", "range(3)", "slice(1)", "memoryview(b'a')", "ValueError()", "GA()"]
P_TYPES = ["int", "str", "(int, str)", "(list, (dict, set))", "()", "5", "None", "(int, 5)", "(5, int)", "list", "object",
           "type", "int | str", "L3", "(L3, D2)"]
P_GETATTR = ["Attr(0)", "Attr(1)", "Attr(2)", "None", "5", "object", "GA()", "{}", "'s'"]
P_NAME = ["'x'", "'y'", "'real'", "'__class__'", "5", "None", "b'x'", "U2('x')", "''", "'mode'"]
P_CONV = ["None", "0", "5", "-7", "True", "1.5", "-0.0", "2**70", "'12'", "' 12 '", "'x'", "''", "b'12'", "b'x'", "bytearray(b'3')",
          "[1, 2]", "[]", "(1, 2)", "()", "{1: 2}", "{}", "{1, 2}", "set()", "frozenset([1])", "'ab'", "range(3)", "gen_of([1, 2])",
          "L3([1])", "T2((1, 2))", "D2({1: 2})", "S2([1])", "U2('u')", "B2(b'5')", "I2(4)", "F2(2.5)", "[[1, 2], [3, 4]]", "[(1, 2)]",
          "[1]", "IntOnly()", "Idx(3)", "WithLen(0)", "WithLen(2)", "WithLen(-1)", "Truth(0, 2)", "[[1], 2]", "1e400", NAN,
          "[[1, [2]]]", "[Unhash()]", "[(Unhash(), 1)]", "'1_0'", "'\\u0663'"]
P_CONVX = ["BadIter()", "memoryview(b'12')", "object()"]          # reprs carry addresses: not passed to str()

# --------------------------------------------------------------------------------------------
# call-site shapes: (name, params, body lines, pools per parameter, expected helper token in the C file)
# params: "ctype name" or "name"; a body line "cdef T x = e" becomes "x = e" for the CPython oracle
SHAPES = []


def S(name, params, body, pools, token=None, cap=None, iso=None):
    if isinstance(body, str):
        body = [body]
    SHAPES.append(dict(name=name, params=params, body=body, pools=pools, token=token, cap=cap, iso=iso))


def none_shapes(t, meth, pool, subs):
    """literal None for start/end (Python: 'use the default'); own modules because the tree generates invalid C for some"""
    S("%s_%s_none1" % (t, meth), [t + " a", "s"], "return a.%s(s, None)" % meth, [pool, subs], None, iso="none1")
    S("%s_%s_none2" % (t, meth), [t + " a", "s"], "return a.%s(s, None, None)" % meth, [pool, subs], None, iso="none2")
    S("%s_%s_none3" % (t, meth), [t + " a", "s"], "return a.%s(s, 1, None)" % meth, [pool, subs], None, iso="none3")
    S("%s_%s_none4" % (t, meth), [t + " a", "s"], "return a.%s(s, None, 2)" % meth, [pool, subs], None, iso="none4")


def recv_variants(prefix, tname, typed_pool, obj_pool):
    """(suffix, param declaration, pool) for a typed and an untyped receiver"""
    return [("_" + tname, tname + " a", typed_pool), ("_obj", "a", obj_pool)]


# ---- len
for t, pool in [("list", P_LISTX), ("tuple", ["()", "(1,)", "(1, 2)", "None"]), ("dict", P_DICTX), ("set", P_SETX),
                ("frozenset", ["frozenset()", "frozenset([1, 2])", "None"]), ("str", P_STRX), ("bytes", P_BYTESX),
                ("bytearray", P_BAX)]:
    S("len_" + t, [t + " a"], "return len(a)", [pool],
      {"list": "__Pyx_PyList_GET_SIZE", "tuple": "__Pyx_PyTuple_GET_SIZE", "dict": "PyDict_Size", "set": "__Pyx_PySet_GET_SIZE",
       "frozenset": "__Pyx_PySet_GET_SIZE", "str": "__Pyx_PyUnicode_GET_LENGTH", "bytes": "__Pyx_PyBytes_GET_SIZE",
       "bytearray": "__Pyx_PyByteArray_GET_SIZE"}[t])
S("len_obj", ["a"], "return len(a)",
  [P_LISTOBJ + P_STR[:3] + ["D2()", "S2()", "U2('abc')", "B2(b'a')", "T2((1,))", "WithLen(3)", "WithLen(-1)", "WithLen(2**63)",
                            "WithLen(2**63-1)", "range(5)", "5", "object"]], "PyObject_Length")
# ---- abs
S("abs_obj", ["a"], "return abs(a)", [P_ABS], "__Pyx_PyNumber_Absolute")
# ---- ord / chr
S("ord_obj", ["a"], "return ord(a)", [P_ORD], "__Pyx_PyObject_Ord")
S("ord_str", ["str a"], "return ord(a)", [[p for p in P_ORD if p.startswith("'")] + ["None"]], "__Pyx_PyObject_Ord")
S("ord_bytes", ["bytes a"], "return ord(a)", [[p for p in P_ORD if p.startswith("b'")] + ["None"]], "__Pyx_PyObject_Ord")
S("chr_obj", ["a"], "return chr(a)", [P_CHR], "PyUnicode_FromOrdinal")
# ---- builtin type calls with one argument (optimised: float(x) goes through __Pyx_PyObject_AsDouble and the
#      str/bytes parsers, int(x)/bool(x)/str(x) through type-specific shortcuts)
P_FLOATARG = ["'1.5'", "' 2 '", "'1e3'", "'-1_0.5'", "'1__0'", "'_1'", "'1_'", "'inf'", "'-inf'", "'+Inf'", "'nan'", "'-NaN'",
              "'infinity'", "'-Infinity'", "'INFINITY '", "'infinityx'", "'Infinity1'", "'infinit'", "'infx'", "'nanx'",
              "'in'", "'na'", "''", "' '", "'1.5x'", "'0x10'", "'\\u0661.5'", "'1' * 50 + '.5'", "'0.' + '1' * 45",
              "b'1.5'", "b'inf'", "b'infinity'", "b'infinityx'", "b'nan '", "b''", "b'1_0'", "bytearray(b'2.5')",
              "bytearray(b'infinityy')", "3", "-7", "2 ** 70", "True", "1.5", "None", "[1]", "L3([1])", "1j"]
S("float_obj", ["a"], "return float(a)", [P_FLOATARG], None)
S("float_str", ["str a"], "return float(a)", [[p for p in P_FLOATARG if p.startswith("'")] + ["None"]], None)
S("float_bytes", ["bytes a"], "return float(a)", [[p for p in P_FLOATARG if p.startswith("b'")] + ["None"]], None)
S("float_repr_obj", ["a"], "return repr(float(a))", [P_FLOATARG], None)
P_INTARG = ["'12'", "' 12 '", "'1_2'", "'1__2'", "'0x10'", "'0b11'", "'12x'", "''", "'\\u0661'", "b'12'", "b'1_2'", "b''",
            "bytearray(b'7')", "3", "-7", "2 ** 70", "True", "1.5", "-1.5", "1e30", "float('inf')", "float('nan')", "None",
            "[1]", "1j"]
S("int_obj", ["a"], "return int(a)", [P_INTARG], None)
S("bool_obj", ["a"], "return bool(a)", [P_INTARG + ["[]", "{}", "()", "0.0", "-0.0", "''"]], None)
S("str_obj", ["a"], "return str(a)", [P_INTARG], None)
# ---- isinstance
for nm, texpr in [("list", "list"), ("tup2", "(list, tuple)"), ("many", "(int, str, bytes, float, dict, set, frozenset, bytearray)"),
                  ("nested", "(list, (dict, (str,)))"), ("bool", "bool"), ("object", "object"), ("type", "type"),
                  ("union", "int | None"), ("dup", "(list, list, tuple)"), ("exc", "(ValueError, TypeError)"),
                  ("user", "(L3, dict)"), ("complex", "complex"), ("slice", "(slice, range, memoryview)")]:
    S("isinstance_" + nm, ["a"], "return isinstance(a, %s)" % texpr, [P_INST], None)
S("isinstance_var", ["a", "b"], "return isinstance(a, b)", [P_INST[:12] + ["Liar()"], P_TYPES], "PyObject_IsInstance")
S("isinstance_mixed", ["a", "b"], "return isinstance(a, (list, b))", [["[1]", "'a'", "None", "L3([1])"],
                                                                      ["int", "str", "(int, str)", "()", "list", "object", "int | str", "(L3, D2)"]], "PyList_Check")
S("isinstance_mixed_bad", ["a", "b"], "return isinstance(a, (list, b))", [["[1]", "'a'", "None"], ["5", "None", "(int, 5)", "(5, int)"]], "PyObject_IsInstance")
# ---- getattr / hasattr
S("getattr2", ["a", "n"], "return getattr(a, n)", [P_GETATTR, P_NAME], "__Pyx_GetAttr")
S("getattr3", ["a", "n", "d"], "return getattr(a, n, d)", [P_GETATTR, P_NAME, ["None", "'dflt'"]], "__Pyx_GetAttr3")
S("hasattr", ["a", "n"], "return hasattr(a, n)", [P_GETATTR, P_NAME], "__Pyx_HasAttr")
# ---- type constructors
for fn, tok in [("int", "__Pyx_PyNumber_Int"), ("float", "__Pyx_PyObject_AsDouble"), ("bool", None), ("str", "__Pyx_PyObject_Unicode"),
                ("list", "PySequence_List"), ("tuple", "__Pyx_PySequence_Tuple"), ("set", "PySet_New"),
                ("frozenset", "__Pyx_PyFrozenSet_New"), ("dict", None)]:
    S("conv_%s_obj" % fn, ["a"], ["r = %s(a)" % fn, "return (r, r is a)" if fn in ("list", "set", "dict") else "return r"],
      [[p for p in P_CONV if not (fn == "str" and p.startswith("gen_of"))] + ([] if fn == "str" else P_CONVX)], tok)
for fn, t, pool, tok in [("list", "list", P_LISTX, None), ("tuple", "list", P_LISTX, "PyList_AsTuple"),
                         ("tuple", "tuple", ["()", "(1, 2)", "None"], None), ("dict", "dict", P_DICTX, "PyDict_Copy"),
                         ("set", "set", P_SETX, None), ("frozenset", "frozenset", ["frozenset()", "frozenset([1])", "None"], None),
                         ("str", "str", P_STRX, "__Pyx_PyUnicode_Unicode"), ("float", "str", ["'1.5'", "' 2 '", "'x'", "''", "None"], None),
                         ("float", "bytes", ["b'1.5'", "b'x'", "None"], None), ("int", "str", ["'12'", "'x'", "None"], None),
                         ("bool", "list", P_LISTX, None), ("bool", "str", P_STRX, None), ("bool", "dict", P_DICTX, None),
                         ("list", "tuple", ["()", "(1, 2)", "None"], None), ("set", "list", ["[]", "[1, 1]", "[[1]]", "None"], None)]:
    S("conv_%s_%s" % (fn, t), [t + " a"], ["r = %s(a)" % fn, "return (r, r is a)" if fn in ("list", "set", "dict") else "return r"], [pool], tok)
S("conv_noarg", [], "return (int(), float(), bool(), str(), list(), tuple(), set(), frozenset(), dict())", [], None)
S("conv_set_lit", ["a", "b"], "return set([a, b, a])", [["1", "'x'", "[1]", "None"], ["1", "2", "Unhash()"]], None)
S("conv_frozenset_lit", ["a", "b"], "return frozenset([a, b, a])", [["1", "'x'", "[1]", "None"], ["1", "2", "Unhash()"]], None)
S("conv_dict_kw", ["a", "b"], "return dict(x=a, y=b)", [["1", "None"], ["2", "[1]"]], None)
S("conv_dict_gen", ["a"], "return dict((k, v) for k, v in a)", [["[]", "[(1, 2), (1, 3)]", "[(1, 2, 3)]", "[([1], 2)]", "None", "{1: 2}",
                                                                   "['ab']"]], None)
S("conv_list_gen", ["a"], "return list(x for x in a)", [P_ITER[:20]], None)
S("conv_set_gen", ["a"], "return set(x for x in a)", [P_ITER[:20] + ["[[1]]"]], None)
# ---- sorted
S("sorted_obj", ["a"], ["r = sorted(a)", "return (r, a if not hasattr(a, 'gi_frame') else None)"], [P_SORT], "PySequence_List")
S("sorted_list", ["list a"], ["r = sorted(a)", "return (r, a, r is a)"], [["[]", "[3, 1, 2]", "[1, 'a']", "None", "[[2], [1]]"]],
  "PySequence_List")
S("sorted_gen", ["a"], "return sorted(x for x in a)", [P_SORT], None)
S("sorted_lit", ["a", "b", "c"], "return sorted([a, b, c])", [["1", "'a'", "2.5"], ["0", "None", "3"], ["2", "-1"]], None)
S("sorted_tuplit", ["a", "b"], "return sorted((a, b))", [["1", "'a'", "2.5"], ["0", "None", "3"]], None)
S("sorted_call", ["a"], ["r = sorted(list(a))", "return r"], [["[2, 1]", "(2, 1)", "None"]], None)
# ---- sum / any / all
S("sum_obj", ["a"], "return sum(a)", [P_NUMS], None)
S("sum_gen", ["a"], "return sum(x for x in a)", [P_NUMS], None)
S("sum_gen_start", ["a", "s"], "return sum((x for x in a), s)", [P_NUMS, ["0", "10", "1.5", "[]", "'s'", "None"]], None)
S("sum_listcomp", ["a"], "return sum([1 for x in a])", [P_NUMS], None)
S("sum_listcomp2", ["a", "s"], "return sum([x for x in a], s)", [P_NUMS, ["0", "[]", "'s'"]], None)
for fn in ("any", "all"):
    S(fn + "_obj", ["a"], "return logged(%s, a)" % fn, [P_ITER], None)
    S(fn + "_gen", ["a"], ["def f(a): return %s(x for x in a)" % fn, "return logged(f, a)"], [P_ITER], None)
    S(fn + "_gen_pred", ["a", "p"], ["def f(a, p): return %s(p(x) for x in a)" % fn, "return logged(f, a, p)"],
      [P_ITER, ["bool", "(lambda x: not x)", "(lambda x: x)", "(lambda x: 1 // 0)", "None"]], None)
    S(fn + "_gen_nested", ["a"], ["def f(a): return %s(x for L in a for x in L)" % fn, "return logged(f, a)"], [P_NEST], None)
    S(fn + "_gen_filter", ["a", "c"], ["def f(a, c): return %s(x for L in a if c(L) for x in L if c(x))" % fn, "return logged(f, a, c)"],
      [P_NEST, ["(lambda x: True)", "(lambda x: not isinstance(x, int) or x != 1)", "(lambda x: LOG.append('c') or x != 5)",
                "(lambda x: 1 // 0)"]], None)
    S(fn + "_gen_direct", ["a"], "return %s(x for x in a)" % fn, [P_ITER[:20]], None)
# ---- min / max
REL3 = ["[[0,0,0],[0,0,0],[0,0,0]]", "[[0,1,1],[0,0,1],[0,0,0]]", "[[0,0,0],[1,0,0],[1,1,0]]", "[[1,1,1],[1,1,1],[1,1,1]]",
        "[[0,1,0],[0,0,1],[1,0,0]]", "[[0,1,1],[1,0,1],[1,1,0]]", "[[0,2,0],[0,0,1],[1,0,0]]", "[[0,0,0],[1,0,2],[1,1,0]]",
        "[[0,4,3],[3,0,4],[4,3,0]]", "[[0,0,2],[2,0,0],[0,2,0]]", "[[0,3,3],[4,0,4],[4,4,0]]"]
for fn in ("min", "max"):
    S(fn + "2_obj", ["a", "b"], "return %s(a, b)" % fn,
      [["1", "2", "1.0", "1.5", NAN, "'a'", "None", "[1]", "True", "(1, 2)"], ["1", "2", "1.0", "0.5", NAN, "'b'", "None", "[0]", "False", "(1,)"]], None)
    S(fn + "3_obj", ["a", "b", "c"], "return %s(a, b, c)" % fn,
      [["1", "3", "1.0", NAN, "'a'"], ["1", "2", "1.0", NAN, "None"], ["1", "0", "True", NAN, "1.5"]], None)
    for n in (2, 3, 4):
        args = ", ".join("k[%d]" % (i % 3) for i in range(n))
        S("%s%d_K" % (fn, n), ["lt", "gt"], ["k = mkK(3, lt, gt)", "def f(k): return %s(%s)" % (fn, args), "return logged(f, k)"],
          [REL3, REL3], None)
    S(fn + "3_Kperm", ["lt", "gt"], ["k = mkK(3, lt, gt)", "def f(k): return %s(k[2], k[0], k[1])" % fn, "return logged(f, k)"], [REL3, REL3], None)
    S(fn + "3_Klist", ["lt", "gt"], ["k = mkK(3, lt, gt)", "def f(k): return %s([k[0], k[1], k[2]])" % fn, "return logged(f, k)"], [REL3, REL3], None)
    S(fn + "3_Ktuple", ["lt", "gt"], ["k = mkK(3, lt, gt)", "def f(k): return %s((k[1], k[2], k[0]))" % fn, "return logged(f, k)"], [REL3, REL3], None)
    S(fn + "_seq_obj", ["a"], "return %s(a)" % fn, [["[1, 2]", "[]", "None", "(2, 1)", "'ab'", "[1, 'a']", "5"]], None)
    S(fn + "2_double", ["double a", "double b"], "return %s(a, b)" % fn,
      [["1.0", "2.0", "-0.0", "0.0", NAN, "float('inf')"], ["1.0", "0.5", "-0.0", "0.0", NAN, "float('-inf')"]], None)
    S(fn + "3_double", ["double a", "double b", "double c"], "return %s(a, b, c)" % fn,
      [["1.0", NAN, "3.0"], ["1.0", NAN, "2.0"], ["0.0", NAN, "5.0"]], None)
    S(fn + "3_long", ["long a", "long b", "long c"], "return %s(a, b, c)" % fn,
      [["1", "-5", "2**63-1"], ["1", "7", "-2**63"], ["0", "1", "9"]], None)
# ---- list methods
for suf, decl, pool in recv_variants("list", "list", P_LISTX, P_LISTOBJ):
    typed = suf == "_list"
    S("list_append" + suf, [decl, "x"], ["a.append(x)", "return a"], [pool, P_VAL], "__Pyx_PyList_Append" if typed else "__Pyx_PyObject_Append")
    S("list_append_used" + suf, [decl, "x"], ["r = a.append(x)", "return (r, a)"], [pool, P_VAL], None)
    S("list_pop" + suf, [decl], ["r = a.pop()", "return (r, a)"], [pool], "__Pyx_PyList_Pop" if typed else "__Pyx_PyObject_Pop")
    S("list_pop2" + suf, [decl], ["r = a.pop()", "s = a.pop()", "return (r, s, a)"], [pool], None)
    S("list_pop_ssize" + suf, [decl, "Py_ssize_t i"], ["r = a.pop(i)", "return (r, a)"], [pool, P_IDX],
      "__Pyx_PyList_PopIndex" if typed else "__Pyx_PyObject_PopIndex")
    S("list_pop_int" + suf, [decl, "int i"], ["r = a.pop(i)", "return (r, a)"], [pool, [p for p in P_IDX if "63" not in p and p != "2**31"]], None)
    S("list_pop_const0" + suf, [decl], ["r = a.pop(0)", "return (r, a)"], [pool], None)
    S("list_pop_constm2" + suf, [decl], ["r = a.pop(-2)", "return (r, a)"], [pool], None)
    S("list_pop_twice" + suf, [decl, "Py_ssize_t i"], ["r = a.pop(i)", "s = a.pop(i)", "return (r, s, a)"], [pool, P_IDX[:12]], None)
S("list_pop_objidx_list", ["list a", "i"], ["r = a.pop(i)", "return (r, a)"], [P_LISTX, P_IDXOBJ], "__Pyx_PyList_PopIndex")
S("list_pop_objidx_obj", ["a", "i"], ["r = a.pop(i)", "return (r, a)"], [P_LISTOBJ, P_IDXOBJ], None)
S("list_pop_ulong_list", ["list a", "unsigned long i"], ["r = a.pop(i)", "return (r, a)"], [P_LIST, ["0", "1", "2", "20", "2**63", "2**64-1"]], None)
S("list_pop_uint_list", ["list a", "unsigned int i"], ["r = a.pop(i)", "return (r, a)"], [P_LIST, ["0", "1", "2", "20", "2**32-1"]], None)
S("list_pop_longlong_obj", ["a", "long long i"], ["r = a.pop(i)", "return (r, a)"], [P_LISTOBJ, P_IDX], None)
S("list_insert_list", ["list a", "i", "x"], ["a.insert(i, x)", "return a"], [P_LISTX, P_IDXOBJ, ["'v'"]], "PyList_Insert")
S("list_insert_ssize_list", ["list a", "Py_ssize_t i", "x"], ["a.insert(i, x)", "return a"], [P_LISTX, P_IDX, ["'v'"]], "PyList_Insert")
S("list_insert_obj", ["a", "i", "x"], ["a.insert(i, x)", "return a"], [P_LISTOBJ, P_IDXOBJ[:30], ["'v'"]], None)
S("list_extend_list", ["list a", "b"], ["a.extend(b)", "return a"], [P_LISTX, P_ITER[:20]], "__Pyx_PyList_Extend")
S("list_extend_self", ["list a"], ["a.extend(a)", "return a"], [P_LISTX], None)
S("list_extend_lit", ["list a", "x", "y"], ["a.extend([x, y, x])", "return a"], [P_LISTX, P_VAL, P_VAL[:2]], "__Pyx_ListComp_Append")
S("list_extend_tuplit", ["list a", "x"], ["a.extend((x,))", "return a"], [P_LISTX, P_VAL], None)
S("list_extend_empty", ["list a"], ["a.extend([])", "return a"], [P_LISTX], None)
S("list_extend_lit_obj", ["a", "x", "y"], ["a.extend([x, y])", "return a"], [P_LISTOBJ, P_VAL[:2], P_VAL[:2]], None)
S("list_reverse_list", ["list a"], ["a.reverse()", "return a"], [P_LISTX], "PyList_Reverse")
S("list_sort_list", ["list a"], ["a.sort()", "return a"], [P_LISTX + ["[3, 1, 2]", "[1, 'a', 0]"]], "PyList_Sort")
S("list_misc_list", ["list a", "x"], ["return (a.count(x), x in a, a.copy(), a * 2)"], [P_LISTX, ["1", "'a'", "None"]], None)
S("list_index_list", ["list a", "x"], ["return a.index(x)"], [P_LISTX, ["1", "'a'", "None", "99"]], None)
S("list_unbound_append", ["a", "x"], ["list.append(a, x)", "return a"], [P_LISTOBJ, P_VAL[:2]], None)
S("list_unbound_pop", ["a"], ["r = list.pop(a)", "return (r, a)"], [P_LISTOBJ], None)
# ---- dict methods
for suf, decl, pool in recv_variants("dict", "dict", P_DICTX, P_DICTOBJ):
    typed = suf == "_dict"
    S("dict_get" + suf, [decl, "k"], ["r = a.get(k)", "return (r, a)"], [pool, P_KEY], "__Pyx_PyDict_GetItemDefault" if typed else None)
    S("dict_get_d" + suf, [decl, "k", "d"], ["r = a.get(k, d)", "return (r, r is d, a)"], [pool, P_KEY, P_VAL[:3]], None)
    S("dict_setdefault" + suf, [decl, "k"], ["r = a.setdefault(k)", "return (r, a)"], [pool, P_KEY], "__Pyx_PyDict_SetDefault" if typed else None)
    S("dict_setdefault_d" + suf, [decl, "k", "d"], ["r = a.setdefault(k, d)", "return (r, r is d, a)"], [pool, P_KEY, P_VAL[1:]], None)
    S("dict_pop" + suf, [decl, "k"], ["r = a.pop(k)", "return (r, a)"], [pool, P_KEY], "__Pyx_PyDict_Pop" if typed else None)
    S("dict_pop_d" + suf, [decl, "k", "d"], ["r = a.pop(k, d)", "return (r, r is d, a)"], [pool, P_KEY, P_VAL[:3]], None)
    S("dict_pop_ignore" + suf, [decl, "k", "d"], ["a.pop(k, d)", "return a"], [pool, P_KEY, P_VAL[:2]], "__Pyx_PyDict_Pop_ignore" if typed else None)
    S("dict_pop1_ignore" + suf, [decl, "k"], ["a.pop(k)", "return a"], [pool, P_KEY], None)
    S("dict_contains" + suf, [decl, "k"], ["return (k in a, k not in a)"], [pool, P_KEY], "PyDict_Contains" if typed else None)
    S("dict_views" + suf, [decl], ["return (list(a.keys()), list(a.values()), list(a.items()), type(a.keys()).__name__)"], [pool], None)
    S("dict_copy_clear" + suf, [decl], ["c = a.copy()", "a.clear()", "return (c, a, c is a)"], [pool], None)
P_DICTM = ["{}", "{1: 10}", "{1: 10, 2: 20}", "{3: 30, 1: 10, 2: 20}"]
P_KEYM = ["1", "2", "3", "4", "[1]"]
S("dictm_get", ["dict a", "k", "d"], ["r = a.get(k, d)", "return (r, a)"], [P_DICTM, P_KEYM, ["7"]], "__Pyx_PyDict_GetItemDefault")
S("dictm_pop", ["dict a", "k", "d"], ["r = a.pop(k, d)", "return (r, a)"], [P_DICTM, P_KEYM, ["7"]], "__Pyx_PyDict_Pop")
S("dictm_pop1", ["dict a", "k"], ["r = a.pop(k)", "return (r, a)"], [P_DICTM, P_KEYM], "__Pyx_PyDict_Pop")
S("dictm_popign", ["dict a", "k", "d"], ["a.pop(k, d)", "return a"], [P_DICTM, P_KEYM, ["7"]], "__Pyx_PyDict_Pop_ignore")
S("dictm_setdefault", ["dict a", "k", "d"], ["r = a.setdefault(k, d)", "return (r, a)"], [P_DICTM, P_KEYM, ["7"]], "__Pyx_PyDict_SetDefault")
S("dict_unbound_get", ["a", "k"], ["return dict.get(a, k)"], [P_DICTOBJ, P_KEY[:6]], None)
S("dict_unbound_get_dict", ["dict a", "k"], ["return dict.get(a, k, 5)"], [P_DICTX, P_KEY], "__Pyx_PyDict_GetItemDefault")
# ---- set methods
for suf, decl, pool in recv_variants("set", "set", P_SETX, P_SETOBJ):
    typed = suf == "_set"
    S("set_add" + suf, [decl, "x"], ["a.add(x)", "return a"], [pool, P_SKEY], "PySet_Add" if typed else None)
    S("set_discard" + suf, [decl, "x"], ["a.discard(x)", "return a"], [pool, P_SKEY], "__Pyx_PySet_Discard" if typed else None)
    S("set_remove" + suf, [decl, "x"], ["a.remove(x)", "return a"], [pool, P_SKEY], "__Pyx_PySet_Remove" if typed else None)
    S("set_pop" + suf, [decl], ["r = a.pop()", "return (r, a)"], [[p for p in pool if p not in ("{1, 2, 'a'}", "{frozenset([1]), 5}")]],
      "PySet_Pop" if typed else None)
    S("set_contains" + suf, [decl, "x"], ["return (x in a, x not in a)"], [pool, P_SKEY], None)
    S("set_clear_copy" + suf, [decl], ["c = a.copy()", "a.clear()", "return (c, a)"], [pool], None)
    S("set_update" + suf, [decl, "b"], ["a.update(b)", "return a"], [pool, ["[]", "[5, 6]", "'ab'", "None", "[[1]]", "{9: 1}", "5"]], None)
S("set_ops_set", ["set a", "b"], ["return (a.union(b), a.intersection(b), a.difference(b), a.issubset(b), a.isdisjoint(b))"],
  [P_SETX, ["[]", "[1, 9]", "{1}", "'a'", "None", "5", "[[1]]"]], None)
# ---- bytearray methods
S("ba_append_int", ["bytearray a", "int x"], ["a.append(x)", "return a"], [P_BAX, ["0", "65", "255", "256", "-1", "2**31-1", "-2**31"]],
  "__Pyx_PyByteArray_Append")
S("ba_append_obj", ["bytearray a", "x"], ["a.append(x)", "return a"],
  [P_BAX, ["0", "65", "255", "256", "-1", "2**100", "'a'", "b'a'", "b'ab'", "None", "1.5", "True", "Idx(66)", "''", "'\\xe9'", "'\\u20ac'"]],
  "__Pyx_PyByteArray_AppendObject")
S("ba_append_lit", ["bytearray a"], ["a.append(b'x')", "a.append(120)", "return a"], [P_BAX], None)
S("ba_extend_bytes", ["bytearray a", "bytes b"], ["a.extend(b)", "return a"], [P_BAX, P_BYTESX], "__Pyx_PyByteArray_ExtendBytes")
S("ba_extend_obj", ["bytearray a", "b"], ["a.extend(b)", "return a"],
  [P_BAX, ["b'xy'", "bytearray(b'z')", "[65, 66]", "[256]", "'ab'", "None", "5", "memoryview(b'm')", "(1, 2)", "B2(b'q')", "range(3)", "['a']"]],
  None)
S("ba_extend_self", ["bytearray a"], ["a.extend(a)", "return a"], [P_BAX], None)
S("ba_obj", ["a", "x"], ["a.append(x)", "return a"], [P_BA + ["BA2(b'a')", "None"], ["65", "300", "'a'"]], None)
# ---- str methods
for meth, tok in (("startswith", "__Pyx_PyUnicode_Tailmatch"), ("endswith", "__Pyx_PyUnicode_Tailmatch")):
    S("str_%s1" % meth, ["str a", "s"], "return a.%s(s)" % meth, [P_STRX, P_SUBX], tok)
    S("str_%s2" % meth, ["str a", "s", "i"], "return a.%s(s, i)" % meth, [P_STR[:7] + ["None"], P_SUBX, P_SEOBJ], None, cap=1500)
    S("str_%s3" % meth, ["str a", "s", "i", "j"], "return a.%s(s, i, j)" % meth, [P_STR[:7], P_SUBX[:18], P_SEOBJ, P_SEOBJ], None, cap=3000)
    S("str_%s3_ssize" % meth, ["str a", "str s", "Py_ssize_t i", "Py_ssize_t j"], "return a.%s(s, i, j)" % meth,
      [P_STR[:7], P_SUB, P_SE, P_SE], None, cap=3000)
    none_shapes("str", meth, P_STR[:7], P_SUB[:6])
    S("str_%s_lit" % meth, ["str a"], "return (a.%s('ab'), a.%s(('x', 'a')), a.%s('bc', 1), a.%s('b', -2, -1))" % (meth, meth, meth, meth),
      [P_STRX], None)
    S("str_%s_obj" % meth, ["a", "s"], "return a.%s(s)" % meth, [P_STR[:4] + ["U2('abc')", "b'abc'", "None", "5"], P_SUBX[:16]], None)
for meth in ("find", "rfind", "count"):
    tok = "PyUnicode_Count" if meth == "count" else "PyUnicode_Find"
    S("str_%s1" % meth, ["str a", "s"], "return a.%s(s)" % meth, [P_STRX, P_SUBX[:17]], tok)
    S("str_%s3" % meth, ["str a", "s", "i", "j"], "return a.%s(s, i, j)" % meth, [P_STR[:7], P_SUB, P_SEOBJ, P_SEOBJ], None, cap=3000)
    S("str_%s2" % meth, ["str a", "s", "i"], "return a.%s(s, i)" % meth, [P_STR[:7], P_SUB, P_SEOBJ], None, cap=1500)
    none_shapes("str", meth, P_STR[:7], P_SUB[:6])
P_SEP = ["None", "' '", "'b'", "'bc'", "''", "5", "b' '", "'\\u20ac'", "'\\n'"]
S("str_split0", ["str a"], "return a.split()", [P_STRX], "PyUnicode_Split")
S("str_split1", ["str a", "s"], "return a.split(s)", [P_STRX, P_SEP], None)
S("str_split2", ["str a", "s", "n"], "return a.split(s, n)", [P_STR, P_SEP, ["-1", "0", "1", "2", "2**63-1", "-2**63", "2**63", "None", "1.5", "True", "Idx(1)"]], None)
S("str_splitlines", ["str a", "k"], "return (a.splitlines(), a.splitlines(k), a.splitlines(True))", [P_STRX, ["0", "1", "None", "[]", "'x'", "Truth(0, 2)"]],
  "PyUnicode_Splitlines")
S("str_join", ["str a", "b"], "return a.join(b)",
  [P_STR[:4] + ["None"], ["[]", "['x']", "['x', 'y', 'z']", "('p', 'q')", "'mn'", "None", "5", "['x', 5]", "[b'x']", "gen_of(['g', 'h'])",
                          "{'k': 1}", "[U2('u'), 'v']", "['\\u20ac', '\\U0001f600']"]], "PyUnicode_Join")
S("str_join_gen", ["str a", "b"], "return a.join(x for x in b)", [P_STR[:4], ["[]", "['x', 'y']", "None", "['x', 5]", "'mn'"]], None)
S("str_join_lit", ["b"], "return ', '.join(b)", [["[]", "['x', 'y']", "None", "['x', 5]", "'mn'"]], None)
S("str_replace", ["str a", "x", "y"], "return a.replace(x, y)", [P_STRX, ["'a'", "''", "'bc'", "5", "None", "'\\u20ac'"], ["'Z'", "''", "'\\U0001f600'", "5", "None"]],
  "PyUnicode_Replace")
S("str_replace_n", ["str a", "x", "y", "n"], "return a.replace(x, y, n)",
  [P_STR[:5], ["'a'", "''", "'bc'"], ["'Z'", "''"], ["-1", "0", "1", "2", "2**63-1", "-2**63", "2**63", "None", "1.5", "True"]], None)
S("str_encode", ["str a"], "return (a.encode(), a.encode('utf8'), a.encode('utf-16le'), a.encode('unicode_escape'))", [P_STRX + ["'\\udc80'"]],
  "PyUnicode_AsEncodedString")
S("str_encode_l1", ["str a"], "return a.encode('latin1')", [P_STRX], "PyUnicode_AsLatin1String")
S("str_encode_ascii", ["str a"], "return a.encode('ascii')", [P_STRX], "PyUnicode_AsASCIIString")
S("str_encode_err", ["str a"], "return (a.encode('ascii', 'replace'), a.encode('latin-1', 'ignore'), a.encode('utf8', 'surrogatepass'))",
  [P_STRX + ["'\\udc80'"]], None)
S("str_encode_utf16", ["str a"], "return a.encode('utf16')", [P_STRX], None)
S("str_encode_var", ["str a", "e"], "return a.encode(e)", [P_STR[:6], ["'utf8'", "'latin1'", "'nope'", "None", "5", "b'utf8'"]], None)
S("str_contains", ["str a", "x"], "return (x in a, x not in a)", [P_STRX, P_SUBX[:16]], "PyUnicode_Contains")
S("str_mul", ["str a", "n"], "return a * n", [P_STR[:4], ["0", "2", "-1", "None", "1.5", "Idx(2)"]], None)
# ---- bytes methods
for meth in ("startswith", "endswith"):
    S("bytes_%s1" % meth, ["bytes a", "s"], "return a.%s(s)" % meth, [P_BYTESX, P_BSUBX], "__Pyx_PyBytes_Tailmatch")
    S("bytes_%s2" % meth, ["bytes a", "s", "i"], "return a.%s(s, i)" % meth, [P_BYTES + ["None"], P_BSUBX, P_SEBOBJ], None, cap=1500)
    S("bytes_%s3" % meth, ["bytes a", "s", "i", "j"], "return a.%s(s, i, j)" % meth, [P_BYTES, P_BSUBX[:19], P_SEBOBJ, P_SEOBJ], None, cap=3000)
    S("bytes_%s3_ssize" % meth, ["bytes a", "bytes s", "Py_ssize_t i", "Py_ssize_t j"], "return a.%s(s, i, j)" % meth,
      [P_BYTES, P_BSUB, P_SEB, P_SE], None, cap=4000)
    S("bytes_%s_hugestart" % meth, ["bytes a", "s", "i"], "return a.%s(s, i)" % meth,
      [["b'abc'"], ["b'a'", "b''", "(b'x', b'ab')"], ["2**63-1"]], None)
    none_shapes("bytes", meth, P_BYTES, P_BSUB[:6])
    S("bytes_%s_obj" % meth, ["a", "s"], "return a.%s(s)" % meth, [P_BYTES[:4] + ["B2(b'abc')", "bytearray(b'abc')", "'abc'", "None"], P_BSUBX[:16]], None)
    S("ba_%s" % meth, ["bytearray a", "s", "i"], "return a.%s(s, i)" % meth, [P_BAX, P_BSUBX[:16], P_SEOBJ[:12] + ["2**63-1"]], None, cap=800)
S("bytes_decode", ["bytes a"], "return (a.decode(), a.decode('utf8'), a.decode('latin1'))", [P_BYTESX], "__Pyx_decode_bytes")
S("bytes_decode_err", ["bytes a"], "return (a.decode('ascii', 'replace'), a.decode('utf8', 'ignore'), a.decode('utf-16', 'replace'))", [P_BYTESX], None)
S("bytes_decode_ascii", ["bytes a"], "return a.decode('ascii')", [P_BYTESX], "PyUnicode_DecodeASCII")
S("bytes_decode_slice", ["bytes a", "Py_ssize_t i", "Py_ssize_t j"], "return a[i:j].decode('latin1')", [P_BYTES, P_SE, P_SE], "__Pyx_decode_bytes", cap=3000)
S("bytes_decode_slice_lo", ["bytes a", "Py_ssize_t i"], "return (a[i:].decode('latin1'), a[:i].decode('latin1'))", [P_BYTESX, P_SE], None)
S("bytes_decode_slice_obj", ["bytes a", "i", "j"], "return a[i:j].decode('latin1')", [P_BYTES[:4], P_SEOBJ, P_SEOBJ], None, cap=1200)
S("ba_decode", ["bytearray a"], "return (a.decode(), a.decode('latin1'))", [P_BAX], "__Pyx_decode_bytearray")
S("ba_decode_slice", ["bytearray a", "Py_ssize_t i", "Py_ssize_t j"], "return a[i:j].decode('latin1')", [P_BA, P_SE, P_SE], "__Pyx_decode_bytearray", cap=1500)
S("bytes_decode_var", ["bytes a", "e"], "return a.decode(e)", [P_BYTES[:5], ["'utf8'", "'latin1'", "'nope'", "None", "5", "b'utf8'"]], None)
S("bytes_decode_obj", ["a"], "return a.decode('utf8')", [P_BYTES[:5] + ["B2(b'x')", "BA2(b'x')", "None", "'s'", "memoryview(b'a')"]], None)
S("bytes_join", ["bytes a", "b"], "return a.join(b)", [P_BYTES[:3] + ["None"], ["[]", "[b'x', b'y']", "None", "[b'x', 'y']", "(bytearray(b'q'),)", "b'mn'", "5"]],
  "__Pyx_PyBytes_Join")
S("str_substring", ["str a", "Py_ssize_t i", "Py_ssize_t j"], ["r = a[i:j]", "return (r, r is a)"], [P_STR, P_SE, P_SE], "__Pyx_PyUnicode_Substring", cap=3000)
S("str_substring_lo", ["str a", "Py_ssize_t i"], ["return (a[i:], a[:i])"], [P_STRX, P_SE], None)
# ---- Py_UCS4
S("ucs4_conv", ["Py_UCS4 c"], "return (ord(c), len(c), c)", [["'a'", "'\\xe9'", "'\\u20ac'", "'\\U0001f600'", "'\\x00'", "'\\U0010ffff'"]], None)
S("ucs4_int", ["Py_UCS4 c"], ["cdef int v = int(c)", "return v"], [["'0'", "'7'", "'a'", "'\\u0663'", "'\\uff15'", "'\\xb2'", "'\\u00bd'", "' '", "'\\U0001d7d8'"]],
  "__Pyx_int_from_UCS4")
S("ucs4_float", ["Py_UCS4 c"], ["cdef double v = float(c)", "return v"], [["'0'", "'7'", "'a'", "'\\u0663'", "'\\uff15'", "'\\xb2'", "'\\u00bd'", "' '", "'\\U0001d7d8'"]],
  "__Pyx_double_from_UCS4")

UCS4_PREDS = ["isalnum", "isalpha", "isdecimal", "isdigit", "islower", "isnumeric", "isspace", "istitle", "isupper", "isprintable"]
C_INT_ABS = [("signed char", "schar", 8), ("short", "short", 16), ("int", "int", 32), ("long", "long", 64), ("long long", "longlong", 64),
             ("Py_ssize_t", "ssize_t", 64)]
C_UINT_ABS = [("unsigned char", "uchar", 8), ("unsigned int", "uint", 32), ("unsigned long", "ulong", 64), ("unsigned long long", "ulonglong", 64),
              ("size_t", "size_t", 64)]


def pname(p):
    return p.split()[-1]


def shape_source(sh, cython):
    ps = sh["params"] if cython else [pname(p) for p in sh["params"]]
    L = ["def f_%s(%s):" % (sh["name"], ", ".join(ps))]
    for b in sh["body"]:
        m = re.match(r"cdef\s+.*?(\w+)\s*=\s*(.*)$", b)
        if m and not cython:
            b = "%s = %s" % (m.group(1), m.group(2))
        L.append("    " + b)
    return L


def gen_module(shapes, overflowcheck=False):
    L = ["# cython: language_level=3, binding=True%s" % (", overflowcheck=True" if overflowcheck else ""),
         "from c13_support import *", ""]
    for sh in shapes:
        L += shape_source(sh, True) + [""]
    return "\n".join(L)


def gen_extra_module(overflowcheck):
    """C-integer abs and the Py_UCS4 predicate sweeps (results computed inside the module)"""
    L = ["# cython: language_level=3%s" % (", overflowcheck=True" if overflowcheck else ""), ""]
    for ct, nm, w in C_INT_ABS + C_UINT_ABS:
        L += ["def cabs_%s(%s a):" % (nm, ct), "    return abs(a)", ""]
    L += ["def cabs_double(double a):", "    return abs(a)", "", "def cabs_float(float a):", "    return abs(a)", ""]
    L += ["def cabs_sweep_schar():", "    cdef signed char a", "    cdef int i", "    out = []", "    for i in range(-127, 128):",
          "        a = <signed char>i", "        out.append(abs(a))", "    return out", ""]
    if not overflowcheck:
        for p in UCS4_PREDS:
            L += ["def sweep_%s(int lo, int hi):" % p, "    cdef Py_UCS4 c", "    cdef int i", "    out = bytearray()",
                  "    for i in range(lo, hi):", "        c = <Py_UCS4>i", "        out.append(1 if c.%s() else 0)" % p, "    return bytes(out)", ""]
            L += ["def pred_%s(Py_UCS4 c):" % p, "    return c.%s()" % p, ""]
    return "\n".join(L)


def gen_pysource(shapes):
    L = ["from c13_support import *", ""]
    for sh in shapes:
        L += shape_source(sh, False) + [""]
    return "\n".join(L)


NMOD = 6


ISO = ["none1", "none2", "none3", "none4"]


def split_shapes():
    """NMOD round-robin modules + one module per isolation group (index NMOD + k)"""
    groups = [[] for _ in range(NMOD + len(ISO))]
    i = 0
    for sh in SHAPES:
        if sh["iso"]:
            groups[NMOD + ISO.index(sh["iso"])].append(sh)
        else:
            groups[i % NMOD].append(sh)
            i += 1
    return groups


def shape_cases(sh, rng, quick):
    pools = sh["pools"]
    if not pools:
        return [[]]
    total = 1
    for p in pools:
        total *= len(p)
    cap = sh["cap"] or 2500
    if quick:
        cap = min(cap, 70)
    if total <= cap:
        return [list(c) for c in itertools.product(*pools)]
    seen = set()
    out = []
    # always keep the "diagonal" cases with extreme values, then random fill
    while len(out) < cap:
        c = tuple(rng.choice(p) for p in pools)
        if c not in seen:
            seen.add(c)
            out.append(list(c))
    return out


HUGE = re.compile(r"2\*\*(63|100|70)(?!-1|-2)|-2\*\*63-1")


def classify(shape, args, got, exp):
    """stable finding class from the input (shape name + argument expressions)"""
    n = shape
    a = list(args)
    if re.search(r"_none[1-4]$", n):
        return "literal_None_start_end_argument"
    if n.startswith("ord_") and a and a[0][:1] in ("'", "U") and exp == ("exc", "TypeError"):
        return "ord_str_wrong_length_raises_ValueError"
    if re.match(r"(bytes|ba)_(startswith|endswith)", n) and len(a) >= 3 and a[2] in ("2**63-1", "2**63-2") and n.startswith("bytes"):
        return "bytes_tailmatch_start_plus_sublen_overflow"
    if n.startswith("isinstance_") and a and a[0] in ("Liar()", "LiarD()"):
        return "isinstance_builtin_type_ignores___class__"
    idx_args = a[2:] if re.match(r"(str|bytes|ba)_(startswith|endswith|find|rfind|count)", n) else []
    if re.match(r"bytes_decode_slice_obj", n):
        idx_args = a[1:]
    if any(HUGE.search(x) for x in idx_args):
        return "index_beyond_ssize_t_not_clipped"
    if n in ("str_replace_n", "str_split2") and a[-1] == "None":
        return "None_accepted_for_count_or_maxsplit"
    if n.startswith("isinstance_mixed_bad"):
        return "isinstance_error_of_runtime_type_swallowed"
    if a and a[0] == "None" and exp == ("exc", "AttributeError"):
        return "None_receiver_cached_builtin_method_call"
    if re.search(r"unbound", n) and exp == ("exc", "TypeError"):
        return "unbound_method_wrong_receiver_type"
    if n == "ba_append_lit":
        return "bytearray_append_char_literal_accepted"
    if n == "ba_append_obj":
        return "bytearray_append_object_conversion"
    if any(x in ("1.5", "IntOnly()") or x.startswith("Idx(") or x.startswith("I2(") for x in a):
        return "nonint_object_uses_nb_int"
    return "wrong_result:" + n


def canon(r):
    if r is None:
        return ("none", None)
    if "e" in r:
        return ("exc", r["e"])
    return ("val", re.sub(r" at 0x[0-9a-f]+", " at 0x?", json.dumps({"t": r["t"], "r": r["r"]}, sort_keys=True)))


def build_all(ctx):
    groups = split_shapes()
    os.makedirs(ctx.workdir, exist_ok=True)
    with open(os.path.join(ctx.workdir, "c13_support.py"), "w") as f:
        f.write(SUPPORT)
    with open(os.path.join(ctx.workdir, "c13_oracle.py"), "w") as f:
        f.write(gen_pysource(SHAPES))
    specs = [dict(name="c13_m%d" % i, source=gen_module(g), workdir=ctx.workdir) for i, g in enumerate(groups)]
    specs.append(dict(name="c13_x", source=gen_extra_module(False), workdir=ctx.workdir))
    specs.append(dict(name="c13_xo", source=gen_extra_module(True), workdir=ctx.workdir))
    built = cybuild.build_many(specs, jobs=8)
    ok = True
    broken = set()
    for k, ((so, err), sp) in enumerate(zip(built, specs)):
        if err is None:
            continue
        if NMOD <= k < len(groups):
            # a valid Python call shape that does not even compile: a property failure of every shape in it
            broken.add(k)
            for sh in groups[k]:
                inp = {"shape": sh["name"], "args": [], "body": sh["body"], "params": sh["params"]}
                ctx.case("build/" + sh["iso"], inp, sig=("build", sh["name"]))
                ctx.fail(classify(sh["name"], ["<build>"], ("exc", "BUILD"), None), inp, ("build error", re.sub(r"\s+", " ", str(err))[-400:]),
                         "module compiles and the call behaves like CPython")
        else:
            ctx.corr_break("build " + sp["name"], sp["name"], str(err)[:3000], "module builds")
            ok = False
    ctx.extra["broken_modules"] = sorted(broken)
    return ok, [g if k not in broken else [] for k, g in enumerate(groups)]


def check_tokens(ctx, groups):
    """every shape that names a helper must really reach it (guards against silently unoptimised shapes)"""
    for i, g in enumerate(groups):
        with open(os.path.join(ctx.workdir, "c13_m%d.c" % i)) as f:
            text = f.read()
        # cut the module into per-function bodies (def wrappers are named __pyx_pf_..._f_<name>)
        for sh in g:
            if not sh["token"]:
                continue
            m = re.search(r"static PyObject \*__pyx_pf_\w*?_\d*f_%s\([^;{]*\) \{.*?\n}\n" % re.escape(sh["name"]), text, re.S)
            body = m.group(0) if m else ""
            ctx.case("codegen/helper-reached", {"shape": sh["name"], "token": sh["token"]}, sig=("tok", sh["name"]))
            if sh["token"] not in body:
                ctx.corr_break("codegen:" + sh["name"], {"shape": sh["name"]}, "helper %s not used in generated C" % sh["token"],
                               "call site optimised to " + sh["token"])


def setup_code(groups):
    return ("import c13_support\nfrom c13_support import *\nimport c13_oracle\n" +
            "".join("import c13_m%d\n" % i for i, g in enumerate(groups) if g) + "import c13_x, c13_xo\n")


def run_differential(ctx, groups):
    quick = ctx.tier == "quick"
    cases = []
    for i, g in enumerate(groups):
        for sh in g:
            for args in shape_cases(sh, ctx.rng, quick):
                cases.append((i, sh, args))
    call = []
    for i, sh, args in cases:
        a = [{"py": x} for x in args]
        call.append(["c13_m%d.f_%s" % (i, sh["name"]), a])
        call.append(["c13_oracle.f_%s" % sh["name"], a])
    res = cybuild.call_cases(ctx.workdir, call, setup=setup_code(groups), alarm=10, max_crashes=200)
    out = []
    for k, (i, sh, args) in enumerate(cases):
        got, exp = canon(res[2 * k]), canon(res[2 * k + 1])
        inp = {"shape": sh["name"], "args": args, "body": sh["body"], "params": sh["params"]}
        ctx.case("diff/" + sh["name"].split("_")[0], inp, sig=(sh["name"], tuple(args)))
        if exp[0] == "exc" and exp[1] in ("WORKER", "TIMEOUT", "CRASH"):
            ctx.corr_break("oracle:" + sh["name"], inp, exp, "CPython evaluates the expression")
            continue
        if got != exp:
            ctx.fail(classify(sh["name"], args, got, exp), inp, got, exp)
        out.append((sh, args, res[2 * k], res[2 * k + 1]))
    return out


import ast


def decode(r):
    """python value from the worker's canonical result (leaves by literal_eval, else the repr text)"""
    if r is None or "e" in r:
        return None
    if isinstance(r["r"], list):
        v = [decode(x) for x in r["r"]]
        return tuple(v) if r["t"] == "tuple" else v
    try:
        return ast.literal_eval(r["r"])
    except Exception:
        return r["r"]


def outcome(r):
    """('exc', name) | ('val', python value)"""
    if "e" in r:
        return ("exc", r["e"])
    return ("val", decode(r))


def _mk_app(n):
    return list(range(n))


def _mk_cut(n, m):
    return list(range(m))


EVALNS = {"mk_app": _mk_app, "mk_cut": _mk_cut}


def lit(x):
    return eval(x, dict(EVALNS))


def hexs(b):
    return bytes(b).hex() or "-"


def zl(l):
    return ",".join(str(int(x)) for x in l) or "-"


def m_res(line, conv=int):
    """model output line -> outcome"""
    if line == "UB":
        return ("ub", None)
    if line.startswith("V "):
        return ("val", conv(line[2:]))
    if line.startswith("!"):
        return ("err", line)
    return ("exc", line)


def conv_pop(txt):
    v, rest = txt.split(" ")
    return (int(v), [] if rest == "-" else [int(x) for x in rest.split(",")])


def conv_vd(txt):
    v, rest = txt.split(" ")
    return (int(v), {} if rest == "-" else {int(a.split(":")[0]): int(a.split(":")[1]) for a in rest.split(",")})


def conv_d(txt):
    return {} if txt == "-" else {int(a.split(":")[0]): int(a.split(":")[1]) for a in txt.split(",")}


def dstr(d):
    return ",".join("%d:%d" % kv for kv in d.items()) or "-"


def kstr(k):
    return "U" if isinstance(k, list) else str(k)


FIX = {}


def detect_fixes(ctx):
    """which variant of a helper the tree under test contains (the models keep both: see M_Builtins.v).
    After a proposed fix is applied nothing has to be edited here; C13_TAIL_FIXED / C13_ORD_FIXED override."""
    def src(rel):
        with open(os.path.join(ctx.repo, rel)) as f:
            return f.read()
    FIX["tail"] = int(os.environ.get("C13_TAIL_FIXED", "start + sub_len <= end" not in src("Cython/Utility/StringTools.c")))
    FIX["ord"] = int(os.environ.get("C13_ORD_FIXED", "(long)__Pyx_PyUnicode_AsPy_UCS4(c) : __Pyx__PyObject_Ord(c)" not in src("Cython/Utility/Builtins.c")))
    ctx.extra["model_variants"] = dict(FIX)


def model_queries(sh, args):
    """[(pair name, impl-model query, spec-model query, converter, projection of the impl/oracle outcome)] for a case
    on the domain of a Gallina model, else None"""
    n = sh["name"]
    ident = lambda o: o
    try:
        m = re.match(r"bytes_(startswith|endswith)3_ssize$", n)
        if m:
            a, sub, i, j = [lit(x) for x in args]
            d = -1 if m.group(1) == "startswith" else 1
            return ("tailmatch", "tail %d %d %d %d %s %s" % (FIX["tail"], d, i, j, hexs(a), hexs(sub)),
                    "pytail %d %d %d %s %s" % (d, i, j, hexs(a), hexs(sub)), lambda t: bool(int(t)), ident)
        m = re.match(r"bytes_(startswith|endswith)_hugestart$", n)
        if m and not args[1].startswith("("):
            a, sub, i = [lit(x) for x in args]
            d = -1 if m.group(1) == "startswith" else 1
            return ("tailmatch", "tail %d %d %d %d %s %s" % (FIX["tail"], d, i, 2 ** 63 - 1, hexs(a), hexs(sub)),
                    "pytail %d %d %d %s %s" % (d, i, 2 ** 63 - 1, hexs(a), hexs(sub)), lambda t: bool(int(t)), ident)
        m = re.match(r"bytes_(startswith|endswith)1$", n)
        if m and args[0] != "None" and args[1].startswith("(") and "bytearray" not in args[1] and "((" not in args[1]:
            a, subs = lit(args[0]), lit(args[1])
            d = -1 if m.group(1) == "startswith" else 1
            el = ",".join(hexs(x) if isinstance(x, bytes) else "T" for x in subs) or "-"
            if any(isinstance(x, bytes) and not x for x in subs):
                return None          # "-" is the driver's empty list marker
            return ("tailtuple", "tailtuple %d %d 0 %d %s %s" % (FIX["tail"], d, 2 ** 63 - 1, hexs(a), el),
                    "pytailtuple %d 0 %d %s %s" % (d, 2 ** 63 - 1, hexs(a), el), lambda t: bool(int(t)), ident)
        if n in ("list_pop_ssize_list", "list_pop_objidx_list") and args[0] not in ("None", "list('abcdefgh')"):
            a, i = lit(args[0]), lit(args[1]) if re.match(r"^[-0-9*]+$", args[1]) else None
            if i is None or not -2 ** 63 <= i < 2 ** 63:
                return None          # the object -> Py_ssize_t conversion raises first (in CPython too)
            alloc = len(a) if (len(a) + i) % 2 else 4 * len(a) + 4          # both branches of the allocation test
            return ("pop_index", "popindex %d %d %s" % (alloc, i, zl(a)), "pypop %d %s" % (i, zl(a)), conv_pop,
                    lambda o: (o[0], (o[1][0], list(o[1][1]))) if o[0] == "val" else o)
        if n == "list_pop_list" and args[0] not in ("None", "list('abcdefgh')"):
            a = lit(args[0])
            alloc = len(a) if len(a) % 2 else 4 * len(a) + 4
            return ("pop", "pop %d %s" % (alloc, zl(a)), "pypop -1 %s" % zl(a), conv_pop,
                    lambda o: (o[0], (o[1][0], list(o[1][1]))) if o[0] == "val" else o)
        if n in ("bytes_decode_slice", "ba_decode_slice", "str_substring"):
            a, i, j = [lit(x) for x in args]
            cmd = "subrange" if n == "str_substring" else "decrange"

            def conv(t, a=a, n=n):
                if t == "E":
                    return ("val", "")
                o, k = [int(x) for x in t.split(" ")]
                return ("val", a[o:o + k] if n == "str_substring" else bytes(a[o:o + k]).decode("latin1"))
            proj = (lambda o: (o[0], o[1][0]) if o[0] == "val" else o) if n == "str_substring" else ident
            return ("slice_range", "%s %d %d %d" % (cmd, len(a), i, j), "pyrange %d %d %d" % (len(a), i, j), ("raw", conv), proj)
        if n == "ord_obj":
            x = args[0]
            kind = "s" if x.startswith("'") else "b" if x.startswith("b'") else "a" if x.startswith("bytearray(") else None
            if kind is None:
                return None
            v = lit(x)
            cps = [ord(c) for c in v] if kind == "s" else list(v)
            return ("ord", "ord %d %s %s" % (FIX["ord"], kind, zl(cps)), "pyord %s %s" % (kind, zl(cps)), int, ident)
        if n == "chr_obj" and re.match(r"^[-0-9*x a-f]+$", args[0]):
            v = lit(args[0])
            return ("chr", "chr %d" % v, "pychr %d" % v, lambda t: chr(int(t)), ident)
        if n.startswith("dictm_"):
            a = lit(args[0]); k = lit(args[1]); d = lit(args[2]) if len(args) > 2 else None
            if n == "dictm_get":
                return ("dict_get", "dget %s %s %d" % (dstr(a), kstr(k), d), "pydget %s %s %d" % (dstr(a), kstr(k), d), int,
                        lambda o: (o[0], o[1][0]) if o[0] == "val" else o)
            if n in ("dictm_pop", "dictm_pop1"):
                dd = "N" if d is None else str(d)
                return ("dict_pop", "dpop313 %s %s %s" % (dstr(a), kstr(k), dd), "pydpop %s %s %s" % (dstr(a), kstr(k), dd), conv_vd,
                        lambda o: (o[0], (o[1][0], o[1][1])) if o[0] == "val" else o)
            if n == "dictm_popign":
                return ("dict_pop_ignore", "dpopign %s %s" % (dstr(a), kstr(k)), None, conv_d, ident)
            if n == "dictm_setdefault":
                return ("dict_setdefault", "dsetdefault %s %s %d" % (dstr(a), kstr(k), d), "pydsetdefault %s %s %d" % (dstr(a), kstr(k), d),
                        conv_vd, lambda o: (o[0], (o[1][0], o[1][1])) if o[0] == "val" else o)
        m = re.match(r"(min|max)(\d)_K(perm|list|tuple)?$", n)
        if m:
            tab = lit(args[0] if m.group(1) == "min" else args[1])
            cnt = int(m.group(2))
            order = {None: [i % 3 for i in range(cnt)], "perm": [2, 0, 1], "list": [0, 1, 2], "tuple": [1, 2, 0]}[m.group(3)]
            flat = "".join(str({3: 0, 4: 1}.get(v, v)) for row in tab for v in row)
            op = "<" if m.group(1) == "min" else ">"

            def conv(t):
                res, tr = t.split(" | ")
                pairs = [] if tr == "-" else [tuple(int(x) for x in p.split(":")) for p in tr.split(";")]
                return (m_res(res, lambda v: "K%d" % int(v)), pairs)

            def proj(o):
                # logged(...) returns (result, LOG) or ('EXC', name, LOG); keep the comparison events only
                v = o[1]
                if v[0] == "EXC":
                    return (("exc", v[1]), [(e[1], e[2]) for e in v[2] if e[0] == op])
                return (("val", v[0]), [(e[1], e[2]) for e in v[1] if e[0] == op])
            return ("minmax", "minmax 3 %s %s" % (flat, zl(order)), "pyminmax 3 %s %s" % (flat, zl(order)), ("raw", conv), proj)
        m = re.match(r"(any|all)_gen(_direct)?$", n)
        if m and "Truth" in args[0]:
            modes = [int(x) for x in re.findall(r"Truth\(\d+, (\d)\)", args[0])]
            ptab = "".join(str(x) for x in modes)
            q = "%s %s %s %s" % ("1" if m.group(1) == "any" else "0", "1" * len(modes), ptab, zl(range(len(modes))))

            def conv(t, direct=bool(m.group(2))):
                res, tr = t.split(" | ")
                ev = [] if tr == "-" else [int(x) for x in tr.split(",")]
                r = m_res(res, lambda v: bool(int(v)))
                return r if direct else (r, ev)

            def proj(o, direct=bool(m.group(2))):
                if direct:
                    return o
                v = o[1]
                if v[0] == "EXC":
                    return (("exc", v[1]), list(v[2]))
                return (("val", v[0]), list(v[1]))
            return ("anyall", "anyall " + q, "pyanyall " + q, ("raw", conv), proj)
    except Exception as e:      # an argument outside the model's domain (not a literal)
        return None
    return None


def run_models(ctx, diff):
    model = ctx.model("builtins")
    rows = []
    for sh, args, ri, ro in diff:
        q = model_queries(sh, args)
        if q is not None:
            rows.append((sh, args, ri, ro, q))
    lines = []
    for r in rows:
        lines.append(r[4][1])
        lines.append(r[4][2] or r[4][1])
    res = model.batch(lines)
    for k, (sh, args, ri, ro, (pair, q1, q2, conv, proj)) in enumerate(rows):
        inp = {"shape": sh["name"], "args": args, "query": q1}
        ctx.case("model/" + pair, inp, sig=("model", sh["name"], tuple(args)))
        if isinstance(conv, tuple):
            mi, ms = conv[1](res[2 * k]), conv[1](res[2 * k + 1])
        else:
            mi, ms = m_res(res[2 * k], conv), m_res(res[2 * k + 1], conv)
        impl, orc = proj(outcome(ri)), proj(outcome(ro))
        ub = mi == ("ub", None) or (isinstance(mi, tuple) and mi and mi[0] == ("ub", None))
        if not ub and impl != mi:
            ctx.corr_break("builtins:" + pair, inp, impl, mi)          # model of the helper vs the compiled helper
        if q2 is not None and orc != ms:
            ctx.corr_break("builtins:spec:" + pair, inp, orc, ms)      # Gallina statement of Python's semantics vs CPython


SWEEP_SCRIPT = r"""
import json, sys
import c13_x
preds = json.load(sys.stdin)["preds"]
out = {}
for p in preds:
    got = getattr(c13_x, "sweep_" + p)(0, 0x110000)
    bad = []
    for i in range(0x110000):
        if bool(got[i]) != getattr(chr(i), p)():
            bad.append(i)
            if len(bad) > 20: break
    out[p] = bad
print(json.dumps(out))
"""


def run_extra(ctx):
    """abs() on C integers (two modules: overflowcheck off/on) and the exhaustive Py_UCS4 predicate sweeps"""
    model = ctx.model("builtins")
    cases = []
    for ovf, mod in ((0, "c13_x"), (1, "c13_xo")):
        for ct, nm, w in C_INT_ABS:
            lo, hi = -(2 ** (w - 1)), 2 ** (w - 1) - 1
            vals = sorted({lo, lo + 1, lo + 2, -1, 0, 1, 2, hi, hi - 1, -(2 ** 31), -(2 ** 31) + 1, 2 ** 31 - 1, -(2 ** 15), -128, 127} |
                          {ctx.rng.randrange(lo, hi + 1) for _ in range(6)})
            for x in vals:
                if lo <= x <= hi:
                    cases.append((mod, nm, w, True, ovf, x))
        for ct, nm, w in C_UINT_ABS:
            for x in (0, 1, 2 ** (w - 1), 2 ** w - 1):
                cases.append((mod, nm, w, False, ovf, x))
    res = cybuild.call_cases(ctx.workdir, [["%s.cabs_%s" % (c[0], c[1]), [c[5]]] for c in cases], setup="import c13_x, c13_xo", alarm=5)
    mq = ["abs %d %d %d" % (c[2], c[4], c[5]) for c in cases]
    mres = model.batch(mq)
    for c, r, m in zip(cases, res, mres):
        mod, nm, w, signed, ovf, x = c
        inp = {"module": mod, "func": "cabs_" + nm, "args": [x]}
        ww = max(w, 32)
        is_min = signed and x == -(2 ** (ww - 1))
        ctx.case("abs_c/%s/%s" % ("ovfcheck" if ovf else "plain", "min" if is_min else "plain"), inp, sig=(mod, nm, x))
        got = outcome(r)
        if not signed or nm == "ssize_t":
            exp = ("val", abs(x))     # unsigned: identity; Py_ssize_t goes through an unsigned result (no overflow)
            mval = exp
        else:
            if is_min and not ovf:
                continue          # C undefined behaviour without overflowcheck: outside the property (model: UB)
            exp = ("val", abs(x)) if abs(x) <= 2 ** (ww - 1) - 1 else ("exc", "OverflowError")
            mval = m_res(m)
        if mval != got:
            ctx.corr_break("builtins:abs_c", inp, got, mval)
        if got != exp:
            ctx.fail("abs_c_wrong_result", inp, got, exp)
    for x in ("-0.0", "1.5", "-2.5", "float('-inf')", "float('nan')"):
        r = cybuild.call_cases(ctx.workdir, [["c13_x.cabs_double", [{"py": x}]], ["abs", [{"py": x}]]], setup="import c13_x")
        ctx.case("abs_c/double", {"func": "cabs_double", "args": [x]}, sig=("cabs_double", x))
        if canon(r[0]) != canon(r[1]):
            ctx.fail("abs_c_wrong_result", {"func": "cabs_double", "args": [x]}, canon(r[0]), canon(r[1]))
    # exhaustive: every code point x every optimised unicode predicate, compared inside one process
    r = cybuild.run_script(SWEEP_SCRIPT, ctx.workdir, {"preds": UCS4_PREDS}, timeout=900)
    if r["json"] is None:
        ctx.corr_break("ucs4 sweep", "sweep", (r["rc"], r["err"][-500:]), "sweep runs")
        return
    for p in UCS4_PREDS:
        ctx.count("ucs4_pred/" + p, 0x110000, distinct_sigs=[(p, "exhaustive", 0x110000)])
        ctx.extra.setdefault("exhaustive_domains", []).append("Py_UCS4.%s(): all 0x110000 code points" % p)
        for i in r["json"][p][:3]:
            ctx.fail("ucs4_predicate_differs", {"pred": p, "codepoint": i}, "differs", "chr(%d).%s()" % (i, p))


def run(ctx):
    detect_fixes(ctx)
    ok, groups = build_all(ctx)
    if not ok:
        return
    check_tokens(ctx, groups)
    diff = run_differential(ctx, groups)
    run_models(ctx, diff)
    run_extra(ctx)


def replay(ctx, obj):
    inp = obj["input"]
    ok, groups = build_all(ctx)
    for i, g in enumerate(groups):
        for sh in g:
            if sh["name"] == inp.get("shape"):
                a = [{"py": x} for x in inp["args"]]
                r = cybuild.call_cases(ctx.workdir, [["c13_m%d.f_%s" % (i, sh["name"]), a], ["c13_oracle.f_%s" % sh["name"], a]], setup=setup_code(groups))
                print("replayed:", json.dumps(inp), "-> compiled", r[0], "CPython", r[1])
