"""C48 — compilation caches never return stale results (DESIGN 7/C48, finding F8)."""
import concurrent.futures as cf
import copy, hashlib, json, os, re, shutil
import cybuild

# Flip to True when the corresponding proposed fix has been applied to the tree under test
# (proposed_fixes/C48-directives_not_in_key.diff / C48-module_options_not_in_key.diff).
# While False, the Coq theorems are stated for the table *with the repair modelled*
# (M_CacheKey.repaired) and the *_refuted lemmas for the table as observed.
F8_FIXED = os.environ.get("C48_F8_FIXED", "1") == "1"
MODOPTS_FIXED = os.environ.get("C48_MODOPTS_FIXED", "1") == "1"

TITLE = "Compilation caches never return stale results"
EXTRACTS = ["CacheKey"]
RULE = ("(a) one table row per input of the cache keys (every CompilationOptions key, every compiler directive, every "
        "module-level option, source/dependency bytes, Extension flags, compiler version; for cython_inline: code, "
        "argument types/names, language level, every directive, version), obtained by running the key functions on "
        "requests differing in that input only; (b) histories of compile requests through cythonize(cache=)/"
        "compile(cache=)/cython_inline varying one input at a time ([R, R', R, R'] per input and random walks), one "
        "OS process per request, each step compared with an uncached compilation of the same request; a step is "
        "distinct by (entry point, history, step) and non-trivial when the varied input changes the fresh output")
EXPLANATION = ("theorems: for ALL histories of requests the abstract cache (key = hash of a length-prefixed serialisation of "
               "the key components; hash collision-freedom is a hypothesis) returns exactly the fresh compilation result "
               "whenever the key components include the output-affecting inputs (cache_hit_is_fresh), a request differing "
               "from all earlier ones in a key component misses (change_causes_miss), the serialisation is injective, and - "
               "by computation over the table generated from the running code - every listed output-affecting input is a "
               "key component once compiler directives and module-level options are added to the keys "
               "(fingerprint_complete); on the tree as found this is refuted (F8). partial: 'output-affecting' is the "
               "hand-written list in M_CacheKey.v (tested, not proved, by the histories: inputs left out of the key are "
               "varied too); inputs of cython_inline other than the listed ones (module-level options, pxd files reached "
               "through argument types) are not enumerated; in-process reuse of Cython's @cached_function state across "
               "two builds is outside the histories (one process per request, as in a build); that store_to_cache/load_from_cache keep the whole result is tested only (finding: the listing file is not stored).")
TRUSTED = ["SHA-256 collision freedom (Section hypothesis hash_inj)",
           "the real key serialisations (repr of sorted option items, concatenated hex digests, str(tuple)) are "
           "injective like the model's length-prefixed encoding",
           "M_CacheKey.required_cythonize / required_inline: the hand-written lists of output-affecting inputs",
           "property oracle: an uncached compilation of the same request in a fresh directory by the same compiler"]
ASSUMPTIONS = ["one compile request per OS process (no reuse of in-process @cached_function state between builds); the "
               "process is a fork of a compiler process warmed up by compiling an unrelated module, with Cython.Utils "
               "function caches cleared and the dependency tree reset (cross-checked against cold processes each run)",
               "the generated C file is removed between requests so that cythonize's timestamp shortcut is not what answers",
               "compilation is deterministic (checked: equal requests compiled twice give equal text)"]

HERE = os.path.dirname(os.path.abspath(__file__))
VERIF = os.path.dirname(HERE)
GEN = os.path.join(VERIF, "coq", "theories", "Gen", "Gen_Fingerprint.v")
MODEL_V = os.path.join(VERIF, "coq", "theories", "Model", "M_CacheKey.v")

# ----------------------------------------------------------------------------------------------
# (a) the probe: which inputs reach the keys (runs the code under test)
PROBE = r'''
import sys, os, json, io, contextlib, shutil
import pyload; pyload.install()

def variants_of(v):
    if isinstance(v, bool): return [not v]
    if isinstance(v, int): return [v + 1, v + 2]
    if v is None: return ["variantvalue", "variantvalue2"]
    if isinstance(v, str): return [v + "variantvalue", v + "variantvalue2"]
    if isinstance(v, dict): return [dict(v, variantkey="variantvalue"), dict(v, variantkey="variantvalue2")]
    if isinstance(v, (list, tuple, set, frozenset)):
        return [type(v)(list(v) + ["variantvalue"]), type(v)(list(v) + ["variantvalue2"])]
    return ["variantvalue", "variantvalue2"]

def status(keys):
    """keys: [base, variant1, (variant2)] -> in / out / refused / partial"""
    if any(k[0] == "refused" for k in keys): return "refused"
    if any(k[1] is None for k in keys): return "error"
    vals = [k[1] for k in keys]
    if len(set(vals)) == len(vals): return "in"
    if len(set(vals)) == 1: return "out"
    return "partial"

def main():
    work = json.load(sys.stdin)["work"]
    shutil.rmtree(work, ignore_errors=True)
    os.makedirs(work)
    os.chdir(work)
    from Cython.Compiler import Options, Main
    from Cython.Compiler.Options import CompilationOptions, default_options
    from Cython.Build import Cache as CacheMod, Dependencies
    from Cython.Build.Cache import Cache, FingerprintFlags
    import Cython.Utils
    files = {
        "m.pyx": 'cimport dep\ninclude "inc.pxi"\ncdef extern from "hdr.h":\n    int HV\ndef f():\n    return dep.T, INC, HV\n',
        "m.pxd": "cdef int own\n",
        "dep.pxd": "cimport dep2\nctypedef int T\n",
        "dep2.pxd": "ctypedef int U\n",
        "inc.pxi": "INC = 1\n",
        "hdr.h": "#define HV 1\n",
    }
    def write(fs):
        for k, v in fs.items():
            with open(k, "w") as f: f.write(v)
    write(files)
    cache = Cache(os.path.join(work, "cache"))

    def fresh():
        Cython.Utils.clear_function_caches()
        Dependencies._dep_tree = None

    def fp(options=None, flags=None, optkw=None):
        """the fingerprint cythonize()/compile() use for m.pyx"""
        fresh()
        try:
            if options is None:
                options = CompilationOptions(default_options, **(optkw or {}))
            ctx = Main.Context.from_options(options)
            deps = Dependencies.create_dependency_tree(ctx)
            r = cache.transitive_fingerprint("m.pyx", deps.all_dependencies("m.pyx"), options,
                                             flags or FingerprintFlags())
            return ("fp", r)
        except NotImplementedError as e:
            return ("refused", str(e))

    rows = []
    base = fp()
    assert base[0] == "fp" and base[1], base
    assert fp() == base, "fingerprint not deterministic"
    # 1. every CompilationOptions key
    proto = CompilationOptions(default_options).__dict__
    keys = list(default_options) + [k for k in proto if k not in default_options]
    for k in keys:
        if k == "compiler_directives":
            vs = [{"boundscheck": False}, {"boundscheck": False, "wraparound": False}]
        elif k == "language_level":
            vs = [2, 3]
        elif k == "np_pythran":
            vs = [True]
        else:
            vs = variants_of(proto[k])
        ks = [base]
        for v in vs:
            o = CompilationOptions(default_options)
            setattr(o, k, v)        # the attribute alone (the constructor couples some options)
            ks.append(fp(options=o))
        rows.append(["opt:" + k, status(ks)])
    # 2. every compiler directive, passed as compiler_directives={name: value}
    dd = Options.get_directive_defaults()
    for name in sorted(dd):
        vs = [2, 3] if name == "language_level" else variants_of(dd[name])
        rows.append(["dir:" + name, status([base] + [fp(optkw={"compiler_directives": {name: v}}) for v in vs])])
    # 3. module-level options of Cython.Compiler.Options (annotate* disable the cache instead)
    glob_names = sorted(k for k, v in vars(Options).items()
                        if not k.startswith("_") and k not in ("key", "val", "annotate", "annotate_coverage_xml")
                        and type(v) in (bool, int, type(None), str, list))
    for name in glob_names:
        old = getattr(Options, name)
        ks = [base]
        try:
            for v in variants_of(old):
                setattr(Options, name, v)
                ks.append(fp())
        finally:
            setattr(Options, name, old)
        rows.append(["glob:" + name, status(ks)])
    assert fp() == base
    # 4. file contents
    for comp, fn in [("src:bytes", "m.pyx"), ("dep:pxd_bytes", "m.pxd"), ("dep:cimport_bytes", "dep.pxd"),
                     ("dep:transitive_bytes", "dep2.pxd"), ("dep:include_bytes", "inc.pxi"),
                     ("dep:header_bytes", "hdr.h")]:
        ks = [base]
        for i in (1, 2):
            write({fn: files[fn] + (("/* v%d */\n" if fn.endswith(".h") else "# variant %d\n") % i)})
            ks.append(fp())
        write({fn: files[fn]})
        rows.append([comp, status(ks)])
    assert fp() == base
    # 5. extension flags, compiler version
    rows.append(["ext:language", status([base, fp(flags=FingerprintFlags("c++"))])])
    rows.append(["ext:py_limited_api", status([base, fp(flags=FingerprintFlags("c", True))])])
    rows.append(["ext:np_pythran", status([base, fp(flags=FingerprintFlags("c", False, True))])])
    oldv = CacheMod.__version__
    ks = [base]
    for i in (1, 2):
        CacheMod.__version__ = oldv + ".variant%d" % i
        ks.append(fp())
    CacheMod.__version__ = oldv
    rows.append(["cython:version", status(ks)])
    assert fp() == base

    # ---- cython_inline: observe the key computed inside cython_inline itself ----
    import Cython
    from Cython.Build import Inline
    class Stop(Exception): pass
    real_key = Inline._inline_key
    seen = []
    def spy(*a, **k):
        seen.append(real_key(*a, **k))
        raise Stop()
    Inline._inline_key = spy
    libdir = os.path.join(work, "inl")
    def ikey(code="return a + 1", kw=None, **opts):
        fresh()
        del seen[:]
        kw = {"a": 1} if kw is None else kw
        try:
            with contextlib.redirect_stdout(io.StringIO()):
                Inline.cython_inline(code, lib_dir=libdir, quiet=True, locals={}, globals={}, **opts, **kw)
        except Stop:
            pass
        assert len(seen) == 1, seen
        return ("fp", seen[0])
    ibase = ikey()
    assert ikey() == ibase
    irows = []
    irows.append(["inl:code", status([ibase, ikey("return a + 2"), ikey("return a + 3")])])
    irows.append(["inl:arg_types", status([ibase, ikey(kw={"a": 1.0}), ikey(kw={"a": "s"})])])
    irows.append(["inl:arg_names", status([ikey("return 1", kw={"a": 1}), ikey("return 1", kw={"b": 1}),
                                           ikey("return 1", kw={"c": 1})])])
    irows.append(["inl:language_level", status([ikey(language_level=3), ikey(language_level=2),
                                                ikey(language_level="3str")])])
    for name in sorted(dd):
        if name == "language_level":     # (as a directive, without the language_level argument)
            ks = [ikey(cython_compiler_directives={name: v}) for v in (3, 2, "3str")]
        else:
            ks = [ibase] + [ikey(cython_compiler_directives={name: v}) for v in variants_of(dd[name])]
        irows.append(["inl:dir:" + name, status(ks)])
    oldv = Cython.__version__
    ks = [ibase]
    for i in (1, 2):
        Cython.__version__ = oldv + ".variant%d" % i
        ks.append(ikey())
    Cython.__version__ = oldv
    irows.append(["inl:cython_version", status(ks)])
    assert ikey() == ibase
    pyload.assert_sources()
    print(json.dumps({"cythonize": rows, "inline": irows, "version": oldv}))
main()
'''

# ----------------------------------------------------------------------------------------------
# (b) one compile request through cythonize()/compile(), in a fresh process
RUNNER = r'''
import sys, os, json, io, glob, contextlib, traceback, hashlib
import pyload; pyload.install()
def outputs(base, files):
    ps = []
    for pat in (".c", ".cpp", ".h", "_api.h", ".lis", ".pxi"):
        ps += glob.glob(base + pat)
    return sorted(p for p in set(ps) if p not in files)
def one(req):
    root = req["root"]
    os.makedirs(root, exist_ok=True)
    os.chdir(root)
    for rel, content in req["files"].items():
        d = os.path.dirname(rel)
        if d: os.makedirs(d, exist_ok=True)
        with open(rel, "w") as f: f.write(content)
    src = req["source"]
    base = os.path.splitext(src)[0]
    for p in outputs(base, req["files"]):
        os.unlink(p)
    from Cython.Compiler import Options, Main
    for k, v in (req.get("glob") or {}).items():
        setattr(Options, k, v)
    out = io.StringIO()
    res = {"error": None}
    cache = req.get("cache")
    before = sorted(os.listdir(cache)) if cache and os.path.isdir(cache) else []
    kw = dict(req.get("opt") or {})
    if req.get("dir"):
        kw["compiler_directives"] = req["dir"]
    if cache:
        kw["cache"] = cache
    try:
        with contextlib.redirect_stdout(out), contextlib.redirect_stderr(out):
            if req["mode"] == "cythonize":
                from Cython.Build.Dependencies import cythonize
                mods = src
                if req.get("ext"):
                    from distutils.extension import Extension
                    mods = [Extension(base.replace("/", "."), [src], **req["ext"])]
                cythonize(mods, **kw)
            else:
                r = Main.compile(src, **kw)
                if r.num_errors: res["error"] = "num_errors=%d" % r.num_errors
    except BaseException as e:
        res["error"] = "%s: %s" % (type(e).__name__, str(e)[:300])
        res["tb"] = traceback.format_exc()[-1500:]
    pyload.assert_sources()
    arts = {}
    for p in outputs(base, req["files"]):
        with open(p, encoding="utf8", errors="replace") as f:
            arts[p] = hashlib.sha256(f.read().replace(root, "ROOTDIR").encode("utf8")).hexdigest()
    after = sorted(os.listdir(cache)) if cache and os.path.isdir(cache) else []
    log = out.getvalue()
    res.update(artifacts=arts, log=log[-2000:], cache_before=before, cache_after=after,
               said_hit=("in cache" in log))
    return res

def main():
    """every request runs in its own process: a fork of this one taken right after the imports,
    before any compiler function has run (= a freshly started compiler process)"""
    spec = json.load(sys.stdin)
    import Cython.Build.Dependencies, Cython.Compiler.Main, Cython.Build.Cache, Cython.Utils
    import distutils.extension
    if spec.get("warm", True):
        # build the scanner tables and load the utility code once (about 2 s of pure start-up cost) by
        # compiling an unrelated module elsewhere, then drop every function cache and the dependency
        # tree: the state TestCyCache.fresh_cythonize() establishes before each build
        d = os.path.join(spec["tmp"], "warm")
        os.makedirs(d, exist_ok=True)
        with open(os.path.join(d, "warmup_mod.pyx"), "w") as f:
            f.write("def w(list a, int i):\n    return a[i], a[i] // 2\n")
        cwd = os.getcwd()
        os.chdir(d)
        try:
            with contextlib.redirect_stdout(io.StringIO()), contextlib.redirect_stderr(io.StringIO()):
                Cython.Compiler.Main.compile("warmup_mod.pyx", language_level=3)
        finally:
            os.chdir(cwd)
        Cython.Utils.clear_function_caches()
        Cython.Build.Dependencies._dep_tree = None
    results = []
    import gc
    gc.collect(); gc.freeze()       # keep the forked children from copying the whole heap
    for i, req in enumerate(spec["requests"]):
        resfile = os.path.join(spec["tmp"], "res%d.json" % i)
        if os.path.exists(resfile): os.unlink(resfile)
        sys.stdout.flush()
        pid = os.fork()
        if pid == 0:
            code = 1
            try:
                r = one(req)
                with open(resfile, "w") as f: json.dump(r, f)
                code = 0
            finally:
                os._exit(code)
        _, st = os.waitpid(pid, 0)
        if os.path.exists(resfile):
            results.append(json.load(open(resfile)))
        else:
            results.append({"error": "HARNESS: child died status %r" % st, "artifacts": {}, "cache_before": [],
                            "cache_after": [], "said_hit": False, "log": ""})
    print(json.dumps(results))
main()
'''

# a sequence of cython_inline calls in ONE process sharing lib_dir (in-memory + on-disk module cache)
INLINE_RUNNER = r'''
import sys, os, json, io, glob, contextlib, traceback, hashlib
import pyload; pyload.install()
def main():
    spec = json.load(sys.stdin)
    lib = spec["lib_dir"]
    os.makedirs(lib, exist_ok=True)
    os.chdir(os.path.dirname(lib))
    from Cython.Build import Inline
    real = Inline._inline_key
    keys = []
    def spy(*a, **k):
        r = real(*a, **k); keys.append(r); return r
    Inline._inline_key = spy
    results = []
    for rq in spec["requests"]:
        del keys[:]
        before = set(os.listdir(lib))
        out = io.StringIO()
        r = {"error": None}
        try:
            with contextlib.redirect_stdout(out), contextlib.redirect_stderr(out):
                kw = dict(rq["args"])
                opts = {}
                if rq.get("language_level") is not None: opts["language_level"] = rq["language_level"]
                if rq.get("dir"): opts["cython_compiler_directives"] = rq["dir"]
                v = Inline.cython_inline(rq["code"], lib_dir=lib, quiet=True, locals={}, globals={}, **opts, **kw)
            r["value"] = repr(v)
        except BaseException as e:
            r["error"] = "%s: %s" % (type(e).__name__, str(e)[:300]); r["tb"] = traceback.format_exc()[-1200:]
        after = set(os.listdir(lib))
        r["built"] = any(f.endswith(".so") for f in after - before)
        r["key"] = keys[-1] if keys else None
        cf = os.path.join(lib, "_cython_inline_%s.c" % r["key"]) if r["key"] else None
        r["c_text"] = open(cf, encoding="utf8", errors="replace").read() if cf and os.path.exists(cf) else None
        if r["c_text"]: r["c_text"] = r["c_text"].replace(lib, "LIBDIR")
        r["log"] = out.getvalue()[-800:]
        results.append(r)
    pyload.assert_sources()
    print(json.dumps(results))
main()
'''

# ----------------------------------------------------------------------------------------------
def _probe(ctx):
    if getattr(ctx, "_c48_probe", None) is None:
        wd = os.path.join(ctx.workdir, "probe")
        r = cybuild.run_script(PROBE, wd, {"work": os.path.join(wd, "p")}, name="probe.py")
        if r["json"] is None:
            raise RuntimeError("C48 probe failed: " + (r["err"] or r["out"])[-1500:])
        ctx._c48_probe = r["json"]
    return ctx._c48_probe


STATUS_COQ = {"in": "InKey", "out": "NotInKey", "refused": "Refused", "partial": "NotInKey", "error": "NotInKey"}


def gen_text(tables):
    def tbl(name, rows):
        body = ";\n    ".join('("%s", %s)' % (n, STATUS_COQ[s]) for n, s in rows)
        return "Definition %s : table :=\n  [ %s ].\n" % (name, body)
    return ("(* GENERATED by props/C48.py (pre_coq) from the running code: which inputs are components of\n"
            "   the cache keys.  Do not edit; regenerated on every check. *)\n"
            "From Coq Require Import List String.\nFrom CyVerif Require Import Model.M_CacheKey.\n"
            "Import ListNotations.\nOpen Scope string_scope.\n\n"
            + tbl("cythonize_table", tables["cythonize"]) + "\n" + tbl("inline_table", tables["inline"]) + "\n"
            + "(* state of the two repairs in the tree under test, as declared by props/C48.py *)\n"
            + "Definition f8_fixed : bool := %s.\nDefinition modopts_fixed : bool := %s.\n"
            % ("true" if F8_FIXED else "false", "true" if MODOPTS_FIXED else "false"))


def pre_coq(ctx):
    txt = gen_text(_probe(ctx))
    os.makedirs(os.path.dirname(GEN), exist_ok=True)
    cur = open(GEN).read() if os.path.exists(GEN) else None
    if cur != txt:
        with open(GEN, "w") as f:
            f.write(txt)


def required_lists():
    """the hand-written lists live in M_CacheKey.v only; read them from there"""
    txt = open(MODEL_V).read()
    out = {}
    for nm in ("required_cythonize", "required_inline"):
        m = re.search(r"Definition %s : list string :=\s*\[(.*?)\]\." % nm, txt, re.S)
        out[nm] = re.findall(r'"([^"]+)"', m.group(1))
    return out


def is_directive(n):
    return n.startswith("dir:") or n.startswith("inl:dir:") or n == "opt:compiler_directives"


def class_of_component(n):
    if n.startswith("inl:dir:"):
        return "directives_not_in_inline_key"
    if is_directive(n):
        return "directives_not_in_cythonize_key"
    if n.startswith("glob:"):
        return "module_options_not_in_key"
    return "not_in_key:" + n


# ----------------------------------------------------------------------------------------------
BASE_FILES = {
    "m.pyx": '''cimport dep
from dep cimport T
include "inc.pxi"

cdef extern from "hdr.h":
    int HV

cdef int helper(int x):
    return x * 2

def f(list a, int i, T t, int d, bytes b):
    """doc of f"""
    global own_var
    cdef int q = i // d
    own_var = q
    s = 'text'
    for k in range(i):
        q += k
    if a is None:
        q = 2 ** 3
    return a[i], q, t, s, 7 / 2, CTV, len(a), helper(q), INC, HV, b[i], own_var, i ** d, a.append
''',
    "m.pxd": "cdef int own_var\n",
    "dep.pxd": "cimport dep2\nctypedef dep2.U T\n",
    "dep2.pxd": "ctypedef int U\n",
    "inc.pxi": "INC = 1\n",
    "hdr.h": "#define HV 1\n",
}
ALT_FILES = {
    "m.pyx": BASE_FILES["m.pyx"].replace("x * 2", "x * 3"),
    "m.pxd": "cdef long own_var\n",
    "dep.pxd": "cimport dep2\nctypedef dep2.U T\nctypedef T T2\n",
    "dep2.pxd": "ctypedef long U\n",
    "inc.pxi": "INC = 2\nINC2 = 3\n",
    "hdr.h": "#define HV 2\n",
}
FILE_COMP = {"m.pyx": "src:bytes", "m.pxd": "dep:pxd_bytes", "dep.pxd": "dep:cimport_bytes",
             "dep2.pxd": "dep:transitive_bytes", "inc.pxi": "dep:include_bytes", "hdr.h": "dep:header_bytes"}

BASE_REQ = {"mode": "cythonize", "source": "m.pyx", "files": BASE_FILES,
            "opt": {"language_level": 3, "compile_time_env": {"CTV": 1}}, "dir": {}, "glob": {}, "ext": None}

# (component, field, key, alternative value[, modes]).  Quick tier takes the ones marked q.
OPT_VARIANTS = [
    ("opt:language_level", 2, "q"), ("opt:compile_time_env", {"CTV": 2}, "q"), ("opt:emit_linenums", True, "q"),
    ("opt:c_line_in_traceback", True, ""), ("opt:relative_path_in_code_position_comments", False, ""),
    ("opt:legacy_implicit_noexcept", True, ""), ("opt:use_listing_file", 1, ""), ("opt:gdb_debug", True, ""),
    ("opt:evaluate_tree_assertions", True, ""), ("opt:generate_pxi", 1, ""),
    # left out of the key on purpose: must be harmless
    ("opt:verbose", 1, "q"), ("opt:errors_to_stderr", 0, ""), ("opt:show_version", 1, ""),
    ("opt:timestamps", True, ""), ("opt:include_path", [".", "extra_inc"], "q"), ("opt:working_path", ".", ""),
]
COMPILE_ONLY = [("opt:cplus", 1, "q"), ("opt:module_name", "pkgx.m", ""), ("opt:np_pythran", True, "")]
GLOB_VARIANTS = [
    ("glob:docstrings", False, "q"), ("glob:embed_pos_in_docstring", True, ""), ("glob:generate_cleanup_code", 2, "q"),
    ("glob:clear_to_none", False, ""), ("glob:convert_range", False, ""), ("glob:cache_builtins", False, ""),
    ("glob:gcc_branch_hints", False, ""), ("glob:lookup_module_cpdef", True, ""), ("glob:embed", "main", ""),
    ("glob:buffer_max_dims", 4, ""), ("glob:closure_freelist_size", 0, ""),
    ("glob:fast_fail", True, ""), ("glob:warning_errors", True, ""),
]
DIR_QUICK = [("boundscheck", False), ("cdivision", True), ("language_level", 2), ("embedsignature", True)]
DIR_MORE = [("binding", False), ("wraparound", False), ("nonecheck", True), ("initializedcheck", False), ("overflowcheck", True),
            ("profile", True), ("linetrace", True), ("emit_code_comments", False), ("always_allow_keywords", False),
            ("infer_types", True), ("auto_pickle", False), ("autotestdict", False), ("annotation_typing", False),
            ("cpow", True), ("legacy_implicit_noexcept", True), ("optimize.use_switch", False),
            ("optimize.inline_defnode_calls", False), ("optimize.unpack_method_calls", False),
            ("c_string_type", "str"), ("c_string_encoding", "utf8"), ("unraisable_tracebacks", False),
            ("fast_getattr", True), ("iterable_coroutine", True), ("type_version_tag", False),
            ("allow_none_for_extension_args", False), ("ccomplex", True), ("remove_unreachable", False),
            ("warn.unused", True), ("warn.maybe_uninitialized", True), ("show_performance_hints", False),
            ("c_api_binop_methods", True), ("py2_import", True), ("auto_cpdef", True), ("cdivision_warnings", True),
            ("overflowcheck.fold", False), ("control_flow.dot_output", "cf.dot"), ("formal_grammar", True),
            ("freethreading_compatible", True), ("subinterpreters_compatible", "own_gil"), ("cpp_locals", True),
            ("fast_gil", True), ("set_initial_path", "SOURCEFILE"), ("preliminary_late_includes_cy28", True)]


def apply_variant(req, comp, val):
    r = copy.deepcopy(req)
    kind, _, key = comp.partition(":")
    if kind == "opt":
        r["opt"][key] = val
    elif kind == "dir":
        r["dir"][key] = val
    elif kind == "glob":
        r["glob"][key] = val
    elif kind == "ext":
        r["ext"] = dict(r["ext"] or {}, **{key: val})
    elif kind in ("src", "dep"):
        fn = [f for f, c in FILE_COMP.items() if c == comp][0]
        r["files"] = dict(r["files"], **{fn: val})
    else:
        raise ValueError(comp)
    return r


def comp_values(req):
    """value of every input of the request, by table-row name (absent -> None)"""
    d = {}
    for k, v in req["opt"].items():
        d["opt:" + k] = v
    for k, v in req["dir"].items():
        d["dir:" + k] = v
    if req["dir"]:
        d["opt:compiler_directives"] = req["dir"]
    for k, v in req["glob"].items():
        d["glob:" + k] = v
    for k, v in (req["ext"] or {}).items():
        d["ext:" + k] = v
    for fn, c in FILE_COMP.items():
        d[c] = req["files"].get(fn)
    return d


def req_id(req):
    return hashlib.sha1(json.dumps(req, sort_keys=True).encode()).hexdigest()[:16]


class Runner:
    """runs compile requests, each in its own process (a fork of a warmed-up compiler process)"""
    BAD = {"artifacts": {}, "cache_before": [], "cache_after": [], "said_hit": False, "log": ""}

    def __init__(self, ctx, workers, warm=True, tag="a"):
        self.ctx = ctx
        self.workers = workers
        self.warm = warm
        self.tag = tag

    def _server(self, wi, specs):
        wd = os.path.join(self.ctx.workdir, "drv", "%s%d" % (self.tag, wi))
        os.makedirs(wd, exist_ok=True)
        r = cybuild.run_script(RUNNER, wd, {"requests": specs, "tmp": wd, "warm": self.warm}, name="runner.py",
                               timeout=3000)
        if r["json"] is None or len(r["json"]) != len(specs):
            return [dict(self.BAD, error="HARNESS: " + (r["err"] or r["out"])[-600:])] * len(specs)
        return r["json"]

    def run_jobs(self, jobs):
        """jobs: {name: [spec, ...]} - the specs of one job run in order; returns {name: [result, ...]}"""
        names = sorted(jobs, key=lambda n: -len(jobs[n]))
        buckets = [[] for _ in range(self.workers)]
        for n in names:          # longest first onto the least loaded worker
            min(buckets, key=lambda b: sum(len(jobs[x]) for x in b)).append(n)
        buckets = [b for b in buckets if b]
        def go(wi):
            specs = [sp for n in buckets[wi] for sp in jobs[n]]
            res = self._server(wi, specs)
            out, k = {}, 0
            for n in buckets[wi]:
                out[n] = res[k:k + len(jobs[n])]
                k += len(jobs[n])
            return out
        allres = {}
        with cf.ThreadPoolExecutor(max_workers=max(1, len(buckets))) as ex:
            for part in ex.map(go, range(len(buckets))):
                allres.update(part)
        return allres

    def fresh_specs(self, reqs, sub):
        return {"fresh:" + req_id(rq): [dict(rq, root=os.path.join(self.ctx.workdir, sub, req_id(rq), "src"), cache=None)]
                for rq in reqs}

    def history_specs(self, hname, reqs):
        root = os.path.join(self.ctx.workdir, "hist", hname)
        return [dict(rq, root=os.path.join(root, "src"), cache=os.path.join(root, "cache")) for rq in reqs]


def outcome(res):
    """what a compile request produced, for comparison"""
    return {"ok": res.get("error") is None, "files": res.get("artifacts", {})}


def same_outcome(a, b):
    oa, ob = outcome(a), outcome(b)
    if oa["ok"] != ob["ok"]:
        return False
    return oa["files"] == ob["files"]


def digest(res):
    return {k: v[:12] for k, v in res.get("artifacts", {}).items()} or res.get("error")


def run(ctx):
    quick = ctx.tier == "quick"
    tables = _probe(ctx)
    if not os.path.exists(GEN):
        pre_coq(ctx)
    req_lists = required_lists()
    cy_rows, in_rows = tables["cythonize"], tables["inline"]
    cy_status = dict(cy_rows)
    ctx.extra["key_tables"] = {"cythonize_rows": len(cy_rows), "inline_rows": len(in_rows),
                               "not_in_key": [n for n, s in cy_rows + in_rows if s not in ("in", "refused")]}

    # ---- (a) the table, judged in Python as well (the Coq theorem is over the same rows) ----
    for tname, rows, req in (("cythonize", cy_rows, req_lists["required_cythonize"]),
                             ("inline", in_rows, req_lists["required_inline"])):
        names = [n for n, _ in rows]
        for n in req:
            if n not in names:
                ctx.corr_break("table:" + tname, n, "row missing from the probe", "row for every listed input")
        for n, s in rows:
            required = is_directive(n) or n in req
            ctx.case("table/%s/%s" % (tname, "required" if required else "optional"), {"input": n, "status": s},
                     sig=("table", tname, n))
            if required and s not in ("in", "refused"):
                # second sentence of the property: a change of this input must cause a miss
                ctx.fail(class_of_component(n), {"table": tname, "input": n,
                                                 "how": "two requests differing only in this input"},
                         "same cache key (%s)" % s, "different cache keys")
    ctx.extra["exhaustive_domains"] = ["every CompilationOptions key (%d), every compiler directive (%d), every module-level "
                                       "option (%d): one table row each" % (
                                           sum(n.startswith("opt:") for n, _ in cy_rows),
                                           sum(n.startswith("dir:") for n, _ in cy_rows),
                                           sum(n.startswith("glob:") for n, _ in cy_rows))]

    # ---- (b) histories through cythonize()/compile() ----
    plans = []      # (hname, mode, varied component(s), [requests])
    def single(mode, comp, val, steps):
        base = dict(copy.deepcopy(BASE_REQ), mode=mode)
        if comp == "dir:language_level":
            # an explicit language_level option overrides the directive: give the level as a directive only
            del base["opt"]["language_level"]
            base["dir"]["language_level"] = 3
        alt = apply_variant(base, comp, val)
        seq = [base, alt, base, alt][:steps]
        plans.append(("%s_%s" % (mode[:2], re.sub(r"\W", "_", comp)), mode, [comp], seq))
    steps = 3 if quick else 4
    variants = []
    for fn, comp in FILE_COMP.items():
        variants.append((comp, ALT_FILES[fn], "q"))
    variants += OPT_VARIANTS + GLOB_VARIANTS
    variants += [("dir:" + d, v, "q") for d, v in DIR_QUICK] + [("dir:" + d, v, "") for d, v in DIR_MORE]
    variants.append(("ext:language", "c++", "q"))
    QUICK_CY = ("src:bytes", "dep:cimport_bytes", "dep:include_bytes", "opt:language_level", "opt:compile_time_env",
                "opt:include_path", "glob:docstrings", "dir:boundscheck", "dir:cdivision", "dir:language_level",
                "ext:language")
    for comp, val, tag in variants:
        if quick and comp not in QUICK_CY:
            continue
        single("cythonize", comp, val, steps)
    # (compile(timestamps=True) goes through compile_multiple, which hashes the source under its absolute
    #  path: a different - harmless - key; the path spelling is not a modelled input)
    comp_variants = [v for v in variants if not v[0].startswith("ext:") and v[0] != "opt:timestamps"] + COMPILE_ONLY
    if quick:
        picks = [v for v in comp_variants if v[0] in ("src:bytes", "opt:cplus", "dir:cdivision")]
    else:
        picks = [v for v in comp_variants if v[2] == "q" or v[0].startswith("opt:")]
    for comp, val, tag in picks:
        single("compile", comp, val, steps)
    # random walks: each step changes one input (to its alternative or back)
    nwalk, wlen = (1, 5) if quick else (6, 8)
    pool = [v for v in variants if not v[0].startswith("ext:") and v[0] not in ("opt:gdb_debug", "dir:formal_grammar", "dir:set_initial_path", "dir:language_level")]
    for w in range(nwalk):
        mode = "cythonize" if w % 2 == 0 else "compile"
        base = dict(copy.deepcopy(BASE_REQ), mode=mode)
        if mode == "compile":
            pool = [v for v in pool if v[0] != "opt:timestamps"]
        cur = base
        state = {}
        seq, comps = [base], []
        chosen = ctx.rng.sample(pool, 4)
        for _ in range(wlen - 1):
            comp, val, _t = ctx.rng.choice(chosen)
            state[comp] = not state.get(comp, False)
            nxt = copy.deepcopy(base)
            for c2, v2, _t2 in chosen:
                if state.get(c2):
                    nxt = apply_variant(nxt, c2, v2)
            seq.append(nxt)
            comps.append(comp)
        plans.append(("walk%d" % w, mode, sorted(set(comps)), seq))

    runner = Runner(ctx, 3 if quick else 8)
    all_reqs = {}
    for _h, _m, _c, seq in plans:
        for rq in seq:
            all_reqs[req_id(rq)] = rq
    jobs = runner.fresh_specs(all_reqs.values(), "fresh")
    for hname, _m, _c, seq in plans:
        jobs["hist:" + hname] = runner.history_specs(hname, seq)
    # the oracle a second time, in cold processes (no warm-up): determinism + warm-up is harmless
    some = list(all_reqs.values())[:2 if quick else 4]
    cold = Runner(ctx, 2, warm=False, tag="cold")
    with cf.ThreadPoolExecutor(max_workers=2) as ex:
        fcold = ex.submit(cold.run_jobs, cold.fresh_specs(some, "fresh_cold"))
        allres = runner.run_jobs(jobs)
        coldres = fcold.result()
    fresh_of = lambda rq: allres["fresh:" + req_id(rq)][0]
    runner.fresh = fresh_of
    hres = [allres["hist:" + p[0]] for p in plans]
    for rq in some:
        c = coldres["fresh:" + req_id(rq)][0]
        if not same_outcome(c, fresh_of(rq)):
            ctx.corr_break("oracle: cold process vs warmed-up fork", {"request": req_id(rq)}, digest(c), digest(fresh_of(rq)))
    base_fresh = runner.fresh(dict(copy.deepcopy(BASE_REQ), mode="cythonize"))
    if base_fresh.get("error") or not base_fresh.get("artifacts"):
        ctx.corr_break("base-request-compiles", "BASE_REQ", base_fresh.get("error"), "compiles")
        return

    # model predictions: one 'hist' line per history
    names = [n for n, _ in cy_rows]
    ks = [i for i, (n, s) in enumerate(cy_rows) if s in ("in", "refused")]
    req_set = set(req_lists["required_cythonize"])
    aff = [i for i, n in enumerate(names) if is_directive(n) or n in req_set]
    lines = []
    for hname, mode, comps, seq in plans:
        ids = {}
        vecs = []
        for rq in seq:
            cv = comp_values(rq)
            unknown = [c for c in cv if c not in names and cv[c] is not None]
            if unknown:
                ctx.corr_break("request-input-not-in-table", unknown, "varied by the history", "a table row")
            vec = []
            for n in names:
                vec.append(str(ids.setdefault((n, json.dumps(cv.get(n), sort_keys=True)), len(ids) + 1)))
            # a request whose compilation fails consults the cache but stores nothing
            vecs.append(("01:" if fresh_of(rq).get("error") else "00:") + ",".join(vec))
        lines.append("hist %s %s %s" % (",".join(map(str, ks)) or "-", ",".join(map(str, aff)) or "-", ";".join(vecs)))
    model = ctx.model("cachekey")
    mres = model.batch(lines)

    nstale = 0
    for (hname, mode, comps, seq), results, mline in zip(plans, hres, mres):
        pred = mline.split(",")
        if mline.startswith("!") or len(pred) != len(seq):
            ctx.corr_break("cachekey:hist", hname, "history of %d steps" % len(seq), mline)
            continue
        for i, (rq, res) in enumerate(zip(seq, results)):
            fresh = runner.fresh(rq)
            inp = {"entry": mode, "history": hname, "step": i, "varied": comps,
                   "request": {"opt": rq["opt"], "dir": rq["dir"], "glob": rq["glob"], "ext": rq["ext"],
                               "files_changed": sorted(f for f in rq["files"] if rq["files"][f] != BASE_FILES[f])}}
            if str(res.get("error", "")).startswith("HARNESS"):
                ctx.corr_break("runner", inp, res["error"], "runs")
                continue
            hit = (res["cache_before"] == res["cache_after"]) and res.get("error") is None and bool(res["cache_before"])
            alt_differs = any(not same_outcome(runner.fresh(o), fresh) for o in seq)
            kind = "single" if len(comps) == 1 and not hname.startswith("walk") else "walk"
            cls = comps[0].split(":")[0] if kind == "single" else "walk"
            ctx.case("%s/%s/%s/%s" % (mode, cls, "hit" if hit else "miss", "nontrivial" if alt_differs else "same-output"),
                     inp, sig=(mode, hname, i), nontrivial=alt_differs or hit)
            # tie: the model's hit/miss prediction from the observed table
            mhit = pred[i].startswith("H")
            if mhit != hit:
                ctx.corr_break("cachekey:hit/miss", inp, "hit" if hit else "miss (%s)" % res.get("error"), pred[i])
            if mode == "cythonize" and hit != res.get("said_hit"):
                ctx.corr_break("cythonize 'Found compiled' message vs cache directory", inp, res.get("said_hit"), hit)
            # property: what the cached request produced = what an uncached compilation produces
            if not same_outcome(res, fresh):
                nstale += 1
                src = [j for j in range(i) if same_outcome(runner.fresh(seq[j]), res)]
                diffc = sorted(c for c in set(comp_values(rq)) | set(comp_values(seq[src[-1]]) if src else {})
                               if src and comp_values(rq).get(c) != comp_values(seq[src[-1]]).get(c))
                klass = classify_stale(mode, [c for c in (diffc or comps) if is_directive(c) and c != "opt:compiler_directives"
                                              or c in req_set] or (diffc or comps), hit)
                only_lis = (hit and rq["opt"].get("use_listing_file") and res.get("error") is None
                            and fresh.get("error") is None and res["artifacts"] ==
                            {k: v for k, v in fresh["artifacts"].items() if not k.endswith(".lis")})
                if only_lis:
                    # a correct hit (same key) whose restored file set lacks the listing file: store_to_cache
                    # keeps only get_generated_source_files(); outside the key model (which stores results whole)
                    klass = "listing_file_not_restored_on_hit"
                ctx.fail(klass, dict(inp, differs_from_cached_request_in=diffc), digest(res), digest(fresh),
                         note="cache %s; model predicted %s" % ("hit" if hit else "miss", pred[i]))
                if not pred[i].endswith("!") and not only_lis:
                    ctx.corr_break("cachekey:stale-not-predicted", inp, "stale", pred[i])
    ctx.note("cythonize/compile histories: %d, steps with a stale result: %d" % (len(plans), nstale))

    # ---- (c) cython_inline ----
    run_inline(ctx, quick, in_rows, req_lists["required_inline"])
    import resource
    ru = resource.getrusage(resource.RUSAGE_CHILDREN)
    ctx.note("child processes: %.0f s user + %.0f s system CPU" % (ru.ru_utime, ru.ru_stime))


def classify_stale(mode, comps, hit):
    """class of a stale result from the inputs in which the request differs from the cached one"""
    if comps and all(is_directive(c) or c.startswith("glob:") for c in comps):
        # the request differs from the cached one only in inputs of the two known-missing families
        return ("directives_not_in_cythonize_key" if any(is_directive(c) for c in comps)
                else "module_options_not_in_key")
    return "stale_result:" + (",".join(comps) if comps else "unknown")


INL_CODE = "cdef int x = a\nreturn (x // b, x / b, [1, 2][c])"
INL_BASE = {"code": INL_CODE, "args": {"a": -7, "b": 2, "c": -1}, "language_level": None, "dir": {}}


def inl_values(rq):
    d = {"inl:code": rq["code"], "inl:arg_types": [type(v).__name__ for k, v in sorted(rq["args"].items())],
         "inl:arg_names": sorted(rq["args"]),
         # what cython_inline passes to the key: the argument, defaulted to '3' unless a directive gives the level
         "inl:language_level": rq["language_level"] if rq["language_level"] is not None
                               else ("3" if "language_level" not in rq["dir"] else None)}
    for k, v in rq["dir"].items():
        d["inl:dir:" + k] = v
    return d


def run_inline(ctx, quick, in_rows, required):
    def var(**kw):
        r = copy.deepcopy(INL_BASE)
        for k, v in kw.items():
            r[k] = v
        return r
    base = var()
    cdiv = var(dir={"cdivision": True})
    ll2 = var(language_level=2)
    flt = var(args={"a": -7, "b": 2.0, "c": -1})
    wrap = var(dir={"wraparound": False, "boundscheck": False})
    code2 = var(code=INL_CODE.replace("x // b", "x // b + 1"))
    dll2 = var(dir={"language_level": 2})
    dll3 = var(dir={"language_level": 3})
    if quick:
        procs = [[base, cdiv, base], [cdiv]]
    else:
        procs = [[base, cdiv, base, ll2, flt, cdiv], [cdiv, base, code2, dll3, dll2, dll3], [dll2, ll2, flt]]
    flat = [rq for p in procs for rq in p]
    distinct = {}
    for rq in flat:
        distinct[req_id(rq)] = rq
    env = {"CFLAGS": "-O0 -w"}
    def fresh(rq):
        rid = req_id(rq)
        wd = os.path.join(ctx.workdir, "inl_fresh", rid)
        r = cybuild.run_script(INLINE_RUNNER, wd, {"lib_dir": os.path.join(wd, "lib"), "requests": [rq]},
                               name="inl.py", timeout=1800, extra_env=env)
        return rid, (r["json"][0] if r["json"] else {"error": "HARNESS " + (r["err"] or "")[-500:]})
    def cached_all():
        out = []
        lib = os.path.join(ctx.workdir, "inl_hist", "lib")
        for pi, p in enumerate(procs):
            wd = os.path.join(ctx.workdir, "inl_hist", "p%d" % pi)
            r = cybuild.run_script(INLINE_RUNNER, wd, {"lib_dir": lib, "requests": p}, name="inl.py",
                                   timeout=2400, extra_env=env)
            out += r["json"] if r["json"] else [{"error": "HARNESS " + (r["err"] or "")[-500:]}] * len(p)
        return out
    with cf.ThreadPoolExecutor(max_workers=6) as ex:
        fut = ex.submit(cached_all)
        fr = dict(ex.map(fresh, distinct.values()))
        cached = fut.result()
    # model prediction (inline table)
    names = [n for n, _ in in_rows]
    ks = [i for i, (n, s) in enumerate(in_rows) if s in ("in", "refused")]
    aff = [i for i, n in enumerate(names) if is_directive(n) or n in set(required)]
    ids, vecs = {}, []
    for rq in flat:
        cv = inl_values(rq)
        vecs.append("00:" + ",".join(str(ids.setdefault((n, json.dumps(cv.get(n), sort_keys=True)), len(ids) + 1))
                                    for n in names))
    mline = ctx.model("cachekey").batch(["hist %s %s %s" % (",".join(map(str, ks)), ",".join(map(str, aff)), ";".join(vecs))])[0]
    pred = mline.split(",")
    if len(pred) != len(flat):
        ctx.corr_break("cachekey:hist(inline)", "inline history", len(flat), mline)
        return
    nstale = 0
    for i, (rq, res) in enumerate(zip(flat, cached)):
        f = fr[req_id(rq)]
        inp = {"entry": "cython_inline", "step": i, "request": {k: rq[k] for k in ("code", "args", "language_level", "dir")}}
        if str(res.get("error") or "").startswith("HARNESS") or str(f.get("error") or "").startswith("HARNESS"):
            ctx.corr_break("inline runner", inp, res.get("error"), f.get("error"))
            continue
        if f.get("error"):
            ctx.corr_break("inline fresh build", inp, f.get("error"), "builds")
            continue
        hit = not res.get("built") and res.get("error") is None
        others = [fr[req_id(o)] for o in flat]
        nontrivial = any(o.get("value") != f.get("value") or o.get("c_text") != f.get("c_text") for o in others)
        ctx.case("inline/%s/%s" % ("hit" if hit else "miss", "nontrivial" if nontrivial else "same-output"), inp,
                 sig=("inline", i), nontrivial=True)
        if pred[i].startswith("H") != hit:
            ctx.corr_break("cachekey:hit/miss(inline)", inp, "hit" if hit else "miss", pred[i])
        stale_val = res.get("value") != f.get("value")
        # the module text belonging to the key the request was answered with
        stale_c = (res.get("c_text") is not None and f.get("c_text") is not None and
                   strip_inline_name(res["c_text"], res["key"]) != strip_inline_name(f["c_text"], f["key"]))
        if res.get("error") or stale_val or stale_c:
            nstale += 1
            src = [j for j in range(i) if fr[req_id(flat[j])].get("value") == res.get("value")
                   and pred[j].startswith("M")]
            diffc = sorted(c for c in set(inl_values(rq)) | set(inl_values(flat[src[-1]]) if src else {})
                           if src and inl_values(rq).get(c) != inl_values(flat[src[-1]]).get(c))
            klass = ("directives_not_in_inline_key" if diffc and all(c.startswith("inl:dir:") for c in diffc)
                     else "inline_stale_result:" + ",".join(diffc or ["unknown"]))
            ctx.fail(klass, dict(inp, differs_from_cached_request_in=diffc),
                     {"value": res.get("value"), "error": res.get("error"), "c_text_differs": stale_c},
                     {"value": f.get("value")}, note="model predicted %s" % pred[i])
            if not pred[i].endswith("!"):
                ctx.corr_break("cachekey:stale-not-predicted(inline)", inp, "stale", pred[i])
    ctx.note("cython_inline steps: %d, stale: %d" % (len(flat), nstale))


def strip_inline_name(text, key):
    return text.replace(key or "\0", "KEY")


def replay(ctx, obj):
    """re-run the recorded request after its history prefix is not stored; re-run the whole check instead"""
    print(json.dumps(obj.get("input"), indent=1))
    print("replay: run ./check C48 (histories are deterministic for a fixed VERIF_SEED); the input above names the "
          "entry point, the history and the step")
