"""C21 helper (not a property): 'core' programs = the statement language of Model/M_FlowCFG.v.

A core function is a list of nodes (tuples):
  ("pass",) ("mark", k) ("call", ci) ("read", v) ("asg", v, k) ("del", v)
  ("if", (form, ci), th, el|None)     form: "p" c[ci] | "n" nxt(c, ci) | "nn" not nxt(c, ci)
  ("for", v, ci, body, el|None) ("while", ci, body, el|None)
  ("try", body, el|None, [(asvar|None, hbody), ...]) ("fin", body, fin) ("with", ci, asvar|None, body)
  ("break",) ("continue",) ("return", k) ("raise",)
render() gives the Python source, encode() the prefix-token program for the model driver with the
NameNode labels numbered in the order in which ControlFlowAnalysis creates the statements."""

PRELUDE_CORE = '''
def nxt(c, i):
    c[i] -= 1
    return c[i] >= 0
'''


def ind(lines):
    return ["    " + l for l in lines]


def cond_src(cond):
    form, ci = cond
    return {"p": "c[%d]", "n": "nxt(c, %d)", "nn": "not nxt(c, %d)"}[form] % ci


def render_block(body):
    out = []
    for n in body:
        out += render(n)
    return out or ["pass"]


def render(n):
    k = n[0]
    if k == "pass":
        return ["pass"]
    if k == "mark":
        return ["t.append('m%d')" % n[1]]
    if k == "call":
        return ["g(c[%d])" % n[1]]
    if k == "read":
        return ["t.append(%s)" % n[1]]
    if k == "asg":
        return ["%s = 'v%d'" % (n[1], n[2])]
    if k == "del":
        return ["del %s" % n[1]]
    if k == "if":
        out = ["if %s:" % cond_src(n[1])] + ind(render_block(n[2]))
        if n[3] is not None:
            out += ["else:"] + ind(render_block(n[3]))
        return out
    if k == "for":
        out = ["for %s in range(c[%d]):" % (n[1], n[2])] + ind(render_block(n[3]))
        if n[4] is not None:
            out += ["else:"] + ind(render_block(n[4]))
        return out
    if k == "while":
        out = ["while nxt(c, %d):" % n[1]] + ind(render_block(n[2]))
        if n[3] is not None:
            out += ["else:"] + ind(render_block(n[3]))
        return out
    if k == "try":
        out = ["try:"] + ind(render_block(n[1]))
        for asv, hb in n[3]:
            out += ["except ValueError%s:" % (" as %s" % asv if asv else "")] + ind(render_block(hb))
        if n[2] is not None:
            out += ["else:"] + ind(render_block(n[2]))
        return out
    if k == "fin":
        return ["try:"] + ind(render_block(n[1])) + ["finally:"] + ind(render_block(n[2]))
    if k == "with":
        return ["with CM(c[%d])%s:" % (n[1], " as %s" % n[2] if n[2] else "")] + ind(render_block(n[3]))
    if k == "break":
        return ["break"]
    if k == "continue":
        return ["continue"]
    if k == "return":
        return ["return 'r%d'" % n[1]]
    if k == "raise":
        return ["raise ValueError('z')"]
    raise ValueError(n)


def render_function(name, body):
    return "\n".join(["def %s(c, t):" % name] + ind(render_block(body))) + "\n"


class Enc:
    """prefix tokens + expected statement list; labels are handed out in the visit order of
    ControlFlowAnalysis (finally_except_clause, finally_clause, then the try body)"""

    def __init__(self):
        self.nlab = 0
        self.ents = {}
        self.created = []        # (label, kind, name) in creation order

    def ent(self, v):
        if v not in self.ents:
            self.ents[v] = len(self.ents)
        return self.ents[v]

    def lab(self):
        self.nlab += 1
        return self.nlab - 1

    def R(self, v):
        l = self.lab()
        self.created.append((l, "R", v))
        return ["R", l, self.ent(v)]

    def A(self, v):
        l = self.lab()
        self.created.append((l, "A", v))
        return ["A", l, self.ent(v)]

    def D(self, v, ign):
        l = self.lab()
        if not ign:
            self.created.append((l, "R", v))
        self.created.append((l, "D", v))
        return ["D", l, self.ent(v), int(ign)]

    def refl(self, names):
        out = [len(names)]
        for v in names:
            l = self.lab()
            self.created.append((l, "R", v))
            out += [l, self.ent(v)]
        return out

    def asgl(self, names):
        out = [len(names)]
        for v in names:
            l = self.lab()
            self.created.append((l, "A", v))
            out += [l, self.ent(v)]
        return out

    @staticmethod
    def seq(parts):
        parts = [p for p in parts]
        if not parts:
            return ["S"]
        out = parts[-1]
        for p in reversed(parts[:-1]):
            out = ["Q"] + p + out
        return out

    def block(self, body):
        return self.seq([self.node(n) for n in body])

    def opt(self, body):
        return (["0", "S"] if body is None else ["1"] + self.block(body))

    def tryfin(self, body_f, fin_f):
        """body_f/fin_f: callables producing tokens (called in visit order: fexc, fnorm, body)"""
        fe = fin_f()
        fn = fin_f()
        b = body_f()
        return ["F"] + b + fe + fn

    def node(self, n):
        k = n[0]
        if k == "pass":
            return ["S"]
        if k == "mark":
            return self.R("t")
        if k == "call":
            return ["Q"] + self.R("c") + ["C"]
        if k == "read":
            a = self.R("t")
            return ["Q"] + a + self.R(n[1])
        if k == "asg":
            return self.A(n[1])
        if k == "del":
            return self.D(n[1], False)
        if k == "if":
            c = self.refl(["c"])
            th = self.block(n[2])
            return ["I"] + c + th + self.opt(n[3])
        if k == "for":
            c = self.refl(["c"])
            tg = self.asgl([n[1]])
            b = self.block(n[3])
            return ["L", 1] + c + tg + b + self.opt(n[4])
        if k == "while":
            c = self.refl(["c"])
            b = self.block(n[2])
            return ["L", 0] + c + [0] + b + self.opt(n[3])
        if k == "try":
            b = self.block(n[1])
            el = self.opt(n[2])
            hs = []
            for asv, hb in n[3]:
                if asv:
                    l = self.lab()
                    self.created.append((l, "A", asv))
                    h = [1, l, self.ent(asv)] + self.tryfin(lambda: self.block(hb),
                                                              lambda: self.D(asv, True))
                else:
                    h = [0, 0, 0] + self.block(hb)
                hs += h
            return ["T"] + b + el + [len(n[3])] + hs
        if k == "fin":
            return self.tryfin(lambda: self.block(n[1]), lambda: self.block(n[2]))
        if k == "with":
            r = self.R("c")

            def inner():
                parts = ([self.A(n[2])] if n[2] else []) + [self.node(x) for x in n[3]]
                body = self.seq(parts)
                return ["T"] + body + ["0", "S", 1, 0, 0, 0, "I", 0, "Z", "0", "S"]
            return ["Q"] + r + self.tryfin(inner, lambda: ["S"])
        if k == "break":
            return ["B"]
        if k == "continue":
            return ["K"]
        if k == "return":
            return ["X"]
        if k == "raise":
            return ["Z"]
        raise ValueError(n)


def encode(body):
    """-> model query pieces: ne, args, program tokens; entry names by index"""
    e = Enc()
    args = []
    for v in ("c", "t"):
        l = e.lab()
        e.created.append((l, "A", v))
        args.append("%d.%d" % (l, e.ent(v)))
    toks = e.block(body)
    names = sorted(e.ents, key=e.ents.get)
    return len(e.ents), ",".join(args), ",".join(str(x) for x in toks), names


# ----------------------------------------------------------------------------------------------
# features (for the classes of known findings) and input domains
# ----------------------------------------------------------------------------------------------
def is_term(body):
    """the block cannot complete normally (syntactic: last statement is a jump, or an if/try whose
    branches all are)"""
    if not body:
        return False
    n = body[-1]
    k = n[0]
    if k in ("break", "continue", "return", "raise"):
        return True
    if k == "if":
        return n[3] is not None and is_term(n[2]) and is_term(n[3])
    if k == "fin":
        return is_term(n[2]) or is_term(n[1])
    if k == "with":
        return False
    return False


def features(body):
    """set of feature names:
       jump2fin  - break/continue crossing >= 2 finally clauses (try/finally, with, except..as) inside its loop
       ret3fin   - return crossing >= 3 finally clauses
       finjump   - a finally clause that cannot complete normally, inside an enclosing try/with"""
    feats = set()

    def walk(b, nfin_loop, nfin_all, intry):
        for n in b:
            k = n[0]
            if k in ("break", "continue"):
                feats.add(k)
                if nfin_loop >= 2:
                    feats.add("jump2fin")
                if nfin_loop >= 1:
                    feats.add("jump1fin")
            elif k == "return":
                feats.add("return")
                if nfin_all >= 3:
                    feats.add("ret3fin")
                if nfin_all >= 1:
                    feats.add("ret1fin")
            elif k == "raise":
                feats.add("raise")
            elif k == "if":
                walk(n[2], nfin_loop, nfin_all, intry)
                walk(n[3] or [], nfin_loop, nfin_all, intry)
            elif k == "for":
                feats.add("for")
                walk(n[3], 0, nfin_all, intry)
                walk(n[4] or [], nfin_loop, nfin_all, intry)
            elif k == "while":
                feats.add("while")
                walk(n[2], 0, nfin_all, intry)
                walk(n[3] or [], nfin_loop, nfin_all, intry)
            elif k == "try":
                feats.add("tryexc")
                walk(n[1], nfin_loop, nfin_all, True)
                walk(n[2] or [], nfin_loop, nfin_all, intry)
                for asv, hb in n[3]:
                    if asv:
                        walk(hb, nfin_loop + 1, nfin_all + 1, True)
                    else:
                        walk(hb, nfin_loop, nfin_all, intry)
            elif k == "fin":
                feats.add("tryfin")
                walk(n[1], nfin_loop + 1, nfin_all + 1, True)
                walk(n[2], nfin_loop, nfin_all, intry)
                if is_term(n[2]) and intry:
                    feats.add("finjump")
            elif k == "with":
                feats.add("with")
                walk(n[3], nfin_loop + 1, nfin_all + 1, True)
            elif k == "del":
                feats.add("del")
            elif k == "read":
                feats.add("read")
    walk(body, 0, 0, False)

    # retfinjump: a 'return' inside a loop, intercepted by a finally clause of the same loop iteration that ends the
    # return with break/continue (code generation defect: the loop iterator is released by the return statement)
    def has(b, kinds, stop_at_loops):
        for n in b:
            k = n[0]
            if k in kinds:
                return True
            if k == "if" and (has(n[2], kinds, stop_at_loops) or has(n[3] or [], kinds, stop_at_loops)):
                return True
            if k in ("for", "while"):
                if not stop_at_loops and (has(n[3] if k == "for" else n[2], kinds, stop_at_loops)):
                    return True
                if has((n[4] if k == "for" else n[3]) or [], kinds, stop_at_loops):
                    return True
            if k == "try" and (has(n[1], kinds, stop_at_loops) or has(n[2] or [], kinds, stop_at_loops)
                               or any(has(hb, kinds, stop_at_loops) for _, hb in n[3])):
                return True
            if k == "fin" and (has(n[1], kinds, stop_at_loops) or has(n[2], kinds, stop_at_loops)):
                return True
            if k == "with" and has(n[3], kinds, stop_at_loops):
                return True
        return False

    def scan(b, inloop):
        for n in b:
            k = n[0]
            if k == "fin":
                if inloop and has(n[2], ("break", "continue"), True) and has(n[1], ("return",), False):
                    feats.add("retfinjump")
                scan(n[1], inloop); scan(n[2], inloop)
            elif k == "if":
                scan(n[2], inloop); scan(n[3] or [], inloop)
            elif k == "for":
                scan(n[3], True); scan(n[4] or [], inloop)
            elif k == "while":
                scan(n[2], True); scan(n[3] or [], inloop)
            elif k == "try":
                scan(n[1], inloop); scan(n[2] or [], inloop)
                for _, hb in n[3]:
                    scan(hb, inloop)
            elif k == "with":
                scan(n[3], inloop)
    scan(body, False)
    return feats


def slots(body):
    """domain of every c[i] used: 2 for plain conditions / raise points / with, 3 for counters"""
    doms = {}

    def use(ci, d):
        doms[ci] = max(doms.get(ci, 0), d)

    def walk(b):
        for n in b:
            k = n[0]
            if k == "call":
                use(n[1], 2)
            elif k == "if":
                use(n[1][1], 2 if n[1][0] == "p" else 3)
                walk(n[2])
                walk(n[3] or [])
            elif k == "for":
                use(n[2], 3)
                walk(n[3])
                walk(n[4] or [])
            elif k == "while":
                use(n[1], 3)
                walk(n[2])
                walk(n[3] or [])
            elif k == "try":
                walk(n[1])
                walk(n[2] or [])
                for _, hb in n[3]:
                    walk(hb)
            elif k == "fin":
                walk(n[1])
                walk(n[2])
            elif k == "with":
                use(n[1], 2)
                walk(n[3])
    walk(body)
    n = max(doms) + 1 if doms else 1
    return [doms.get(i, 1) for i in range(n)]


# ----------------------------------------------------------------------------------------------
# generator: jumps leaving through nested try/finally, try/except, with inside loops
# ----------------------------------------------------------------------------------------------
JUMPS = ["continue", "break", "return", "raise", "none"]
WRAPS = [("F",), ("E",), ("W",), ("F", "F"), ("F", "E"), ("E", "F"), ("W", "F"), ("F", "W"), ("A", "F"),
         ("F", "F", "F"), ("F", "E", "F"), ("W", "F", "F"), ("E", "E"), ("F", "A")]


class CoreGen:
    """one function: [init x] loop: [head read] [pre op] WRAPS(... if cond: JUMP ...) [post op] [else] tail reads.
    x is the variable under test, y a second one; ops are drawn from del/assign/read/call/nothing so that
    the definedness of x differs between the jump path and the fall-through path."""

    def __init__(self, rng):
        self.rng = rng
        self.nc = 0
        self.k = 0
        self.protect = False

    def slot(self):
        self.nc += 1
        return self.nc - 1

    def const(self):
        self.k += 1
        return self.k

    def op(self, allow=("none", "del", "asg", "read", "call", "casg", "cdel", "other")):
        r = self.rng
        v = "x" if r.random() < 0.8 else "y"
        o = r.choice(allow)
        if self.protect:
            # contrast mode: only the statements next to the jump change x, nothing else raises by itself
            v = "y"
            o = {"del": "asg", "cdel": "casg", "read": "other"}.get(o, o)
        if o == "none":
            return []
        if o == "del":
            return [("del", v)]
        if o == "asg":
            return [("asg", v, self.const())]
        if o == "read":
            return [("read", v)]
        if o == "call":
            return [("call", self.slot())]
        if o == "casg":
            return [("if", (r.choice(["p", "n", "nn"]), self.slot()), [("asg", v, self.const())], None)]
        if o == "cdel":
            return [("if", (r.choice(["p", "n", "nn"]), self.slot()), [("del", v)],
                     None if r.random() < 0.6 else [("asg", v, self.const())])]
        return [("mark", self.const())]

    def jump_stmt(self, jump, guarded):
        j = {"continue": ("continue",), "break": ("break",), "raise": ("raise",)}.get(jump) or ("return", self.const())
        if guarded:
            return [("if", (self.rng.choice(["p", "n", "nn"]), self.slot()), [j], None)]
        return [j]

    def wrap(self, kind, inner, fin_jump=None):
        """wrap the statement list inner in one try/with layer; ops around it inside the layer"""
        r = self.rng
        if kind == "F":
            fin = self.op(("del", "asg", "read", "none", "casg", "call")) + self.op(("none", "read", "other"))
            if fin_jump:
                fin = fin + [fin_jump]
            tail = [] if is_term(inner) else self.op(("none", "asg", "del", "read"))
            return [("fin", self.op(("none", "del", "asg", "call")) + inner + tail, fin or [("pass",)])]
        if kind in ("E", "A"):
            hb = self.op(("read", "asg", "del", "none", "call")) + self.op(("none", "read", "other"))
            if r.random() < 0.25:
                hb = hb + [r.choice([("continue",), ("break",)])] if self.inloop else hb
            asv = ("e" if (r.random() < 0.7 or self.protect) else "x") if kind == "A" else None
            el = None if r.random() < 0.6 else (self.op(("asg", "read", "del")) or [("pass",)])
            body = self.op(("none", "del", "asg", "call", "call")) + inner + (
                [] if is_term(inner) else self.op(("none", "call", "asg")))
            return [("try", body, el, [(asv, hb or [("pass",)])])]
        if kind == "W":
            asv = r.choice([None, "y"] if self.protect else [None, "x", "y"])
            return [("with", self.slot(), asv, self.op(("none", "del", "asg", "call")) + inner
                     + ([] if is_term(inner) else self.op(("none", "asg", "del"))))]
        raise ValueError(kind)

    def function(self, jump, wraps, loopkind, fin_jump_prob=0.0, contrast_prob=0.6, shape=None):
        r = self.rng
        self.inloop = True
        guarded = (jump != "none") and (r.random() < 0.85)
        contrast = (jump != "none") and r.random() < contrast_prob
        self.protect = contrast
        if contrast:
            # the definedness of x on the jump path differs from the fall-through path
            guarded = True
            shape = shape or r.choice("AAABBC")
            if shape == "A":      # x unbound before the try, re-bound after the whole try statement
                inner = self.jump_stmt(jump, True)
            elif shape == "B":
                inner = [("del", "x")] + self.jump_stmt(jump, True) + [("asg", "x", self.const())]
            else:
                inner = [("asg", "x", self.const())] + self.jump_stmt(jump, True) + [("del", "x")]
        else:
            inner = self.jump_stmt(jump, guarded) if jump != "none" else self.op(("call", "asg", "del"))
            inner = self.op(("none", "del", "asg", "call")) + inner
        self.unguarded = (jump != "none") and not guarded
        for i, w in enumerate(wraps):
            fj = None
            if w == "F" and r.random() < fin_jump_prob:
                fj = r.choice([("continue",), ("break",), ("return", self.const())])
            inner = self.wrap(w, inner, fj)
            if i + 1 < len(wraps) and r.random() < 0.5 and not is_term(inner):
                inner = self.op(("none", "del", "asg")) + inner + self.op(("none", "asg", "del", "read"))
        if contrast:
            head = [("read", "x")] if r.random() < 0.8 else []
            pre = self.op(("none", "other", "call"))
            post = self.op(("none", "read", "other"))
            if shape == "A":
                pre = pre + [("del", "x")]
                post = [("asg", "x", self.const())] + post
        else:
            head = self.op(("read", "read", "none", "casg"))
            pre = self.op(("del", "del", "asg", "none", "cdel"))
            post = self.op(("asg", "asg", "del", "none", "read", "casg"))
        body = head + pre + inner + post
        el = None if r.random() < 0.5 else (self.op(("read", "asg", "del")) or [("pass",)])
        if contrast and el is not None:
            el = [("read", "x")]
        if loopkind == "for":
            lv = r.choice(["i", "i", "y"] if contrast else ["i", "i", "x", "y"])
            loop = ("for", lv, self.slot(), body, el)
        else:
            loop = ("while", self.slot(), body, el)
        self.inloop = False
        self.protect = False
        out = []
        init = "asg" if contrast else r.choice(["asg", "asg", "casg", "none"])
        if init == "asg":
            out.append(("asg", "x", self.const()))
        elif init == "casg":
            out.append(("if", ("p", self.slot()), [("asg", "x", self.const())], None))
        if r.random() < 0.5:
            out.append(("asg", "y", self.const()))
        outer = [loop]
        if r.random() < 0.35:       # the whole loop inside another try layer (return / raise leave through it)
            outer = self.wrap(r.choice(["F", "E", "F"]), outer)
        out += outer
        out += [("read", "x")]
        if r.random() < 0.5:
            out += [("read", "y")]
        out += [("return", self.const())]
        # every name must be assigned somewhere, otherwise it is not a local
        assigned = set()

        def walk(b):
            for n in b:
                k = n[0]
                if k == "asg":
                    assigned.add(n[1])
                elif k == "for":
                    assigned.add(n[1])
                    walk(n[3]); walk(n[4] or [])
                elif k == "while":
                    walk(n[2]); walk(n[3] or [])
                elif k == "if":
                    walk(n[2]); walk(n[3] or [])
                elif k == "try":
                    walk(n[1]); walk(n[2] or [])
                    for asv, hb in n[3]:
                        if asv:
                            assigned.add(asv)
                        walk(hb)
                elif k == "fin":
                    walk(n[1]); walk(n[2])
                elif k == "with":
                    if n[2]:
                        assigned.add(n[2])
                    walk(n[3])
        walk(out)
        never = [v for v in ("x", "y", "e", "i") if v not in assigned and uses(out, v)]
        if never:
            out = [("if", ("p", self.slot_never()), [("asg", v, self.const()) for v in never], None)] + out
        return out

    def slot_never(self):
        # a slot that is always 0
        self.never = self.slot()
        return self.never


def uses(body, v):
    src = "\n".join(render_block(body))
    import re
    return re.search(r"\b%s\b" % v, src) is not None


def gen_core(rng, jump, wraps, loopkind, fin_jump_prob=0.0, contrast_prob=0.6, shape=None):
    g = CoreGen(rng)
    g.never = None
    body = g.function(jump, wraps, loopkind, fin_jump_prob, contrast_prob, shape)
    doms = slots(body)
    if g.never is not None:
        doms[g.never] = 1
    return body, doms


# hand-written core functions compiled in every run (the shapes of the seeded-change class and of the
# registered findings)
FIXED_CORE = [
    # continue through one finally, x deleted before the try, re-bound after it, read at the loop head
    [("asg", "x", 1),
     ("for", "i", 0, [("read", "x"), ("del", "x"),
                      ("fin", [("if", ("n", 1), [("continue",)], None)], [("mark", 2)]),
                      ("asg", "x", 3)], None),
     ("return", 4)],
    # while loop, the try body never falls through
    [("asg", "x", 1),
     ("while", 0, [("read", "x"), ("del", "x"), ("fin", [("continue",)], [("mark", 2)])], None),
     ("return", 3)],
    # break through two nested finally clauses: the outer one deletes x
    [("asg", "x", 1),
     ("for", "i", 0, [("fin", [("fin", [("break",)], [("pass",)])], [("del", "x")])], None),
     ("read", "x"), ("return", 2)],
    # continue through two nested finally clauses
    [("asg", "x", 1),
     ("for", "i", 0, [("fin", [("fin", [("if", ("nn", 1), [("continue",)], None)], [("pass",)])], [("del", "x")]),
                      ("asg", "x", 2)], None),
     ("read", "x"), ("return", 3)],
    # return through three nested finally clauses, read in the outermost
    [("asg", "x", 1),
     ("fin", [("fin", [("fin", [("if", ("p", 0), [("return", 2)], None)], [("pass",)])], [("del", "x")]),
              ("asg", "x", 3)],
      [("read", "x")]),
     ("return", 4)],
    # an exception raised inside a finally clause that ends in return
    [("asg", "x", 1),
     ("try", [("fin", [("del", "x")], [("call", 0), ("return", 2)])], None, [(None, [("read", "x")])]),
     ("return", 3)],
]
