"""C34 - fused functions dispatch to the matching specialisation (DESIGN 7/C34)."""
import itertools, json, os, re, sys
import cybuild

TITLE = "Fused functions dispatch to the matching specialisation"
EXTRACTS = ["Fused"]
RULE = ("generated fused declarations (1-2 fused types, 1-3 parameters, def and cpdef; members drawn from "
        "10 C integer types, bint, 3 float, 2 complex types, object, 6 builtin types, 4 extension classes "
        "(3 in one inheritance chain), memoryviews of 12 dtypes x ndim 1-2 x strided/C/F) x tuples of "
        "argument type tags (int, bool, float, complex, None, numpy scalars, builtins, extension "
        "instances incl. Python subclasses, plain objects, numpy arrays / Cython memoryviews / Python "
        "memoryviews by dtype, ndim, layout); distinct by (declaration, argument tags); non-trivial = "
        "at least one member of some fused type is an instance match or the call must raise.  "
        "Argument fetch (props/C34_args.py): signatures of 1-4 parameters mixing non-fused and fused ones "
        "(1-2 fused types, each used once or several times) in every order, each with/without default "
        "(literal and module-global), positional-only / keyword-only markers, *args, **kwargs, as def, cpdef, "
        "methods of cdef and Python classes, cpdef methods, static methods: a fixed core (one per branch of the "
        "make_fused_cpdef loop and of _unpack_argument) + random ones; calls enumerate the number of positionals "
        "(0 .. all + surplus) x keyword/omitted for every other parameter x unknown keyword / duplicate, "
        "selected so that every profile (dispatched parameter positional / keyword / default / missing) of a "
        "signature occurs; plus f[key](call) for every key; distinct by (signature, call); non-trivial = a "
        "dispatched parameter comes from a keyword or a default, or the call must raise")
EXPLANATION = ("theorems (all declarations, all argument tag tuples): the per-parameter decision is the first "
               "member in the compiler's preference order whose Python type the argument is an instance of, "
               "then the buffer tests, then the object fallback; the selected signature accepts every examined "
               "argument by type tag; parameters sharing a fused type get the same member; TypeError iff some "
               "examined argument matches no member (fused types with >= 2 members); dispatch = documented "
               "rules under the explicit complement of the finding classes; explicit indexing returns exactly "
               "the named signature or KeyError; list.sort model is a permutation.  partial: that the "
               "preference order puts the biggest numeric type first is proved for member lists on which "
               "__lt__ is a rank order (pref_okb, decidable) - mixed complex/unsigned lists are refuted, not "
               "characterised; conversions of non-examined parameters and result values are only tested.  "
               "Argument fetch (all signatures, all calls): every unpacking block reads the first parameter of "
               "its fused type under its own index, name and the defaults-tuple slot 'number of earlier defaulted "
               "parameters'; the fetched value is the value CPython's binding gives that parameter (for the "
               "repaired block always, for the block as it is outside the two registered finding classes); hence "
               "the whole call = the all-positional dispatcher on the bound values; an unbindable call never runs "
               "a specialisation; the 'count only dispatch-relevant defaults' variant and the two finding classes "
               "are refuted by witnesses.  The generated dispatcher text (captured from FusedNode) is compared "
               "with the model's blocks for every generated signature.")
TRUSTED = ["model of CPython 3.12 list.sort for n < 64 (count_run + binary insertion) - exercised through the "
           "generated dispatchers", "isinstance table of the argument tags (bool < int, numpy.float64 < float, "
           "numpy.complex128 < complex)", "buffer coercion (__Pyx_PyObject_to_MemoryviewSlice_*) abstracted to "
           "dtype kind/size, ndim, contiguity", "property oracle = the dispatch rules of "
           "docs/src/userguide/fusedtypes.rst re-stated in Python in this file",
           "argument fetch: bind_py = Gallina restatement of CPython's initialize_locals (compared with CPython "
           "itself on every case through an untyped twin function); the specialisation's own argument binding "
           "(property C24) is taken to equal CPython's"]
ASSUMPTIONS = ["LP64, little endian, numpy importable, writable native-byte-order buffers",
               "id(MemoryViewSliceType) order w.r.t. the other type classes is read from the running compiler"]

# flags to flip after the proposed fixes are applied
FX_FAST = os.environ.get("C34_FX_FAST", "0") == "1"     # numpy fast path checks contiguity

INTS = [("i0.2", "signed char"), ("i0.0", "unsigned char"), ("i2.1", "short"), ("i2.0", "unsigned short"),
        ("i4.1", "int"), ("i4.0", "unsigned int"), ("i6.1", "long"), ("i6.0", "unsigned long"),
        ("i8.1", "long long"), ("i8.0", "unsigned long long")]
FLOATS = [("f10", "float"), ("f12", "double"), ("f14", "long double")]
CPLX = [("c10", "float complex"), ("c12", "double complex")]
BUILTINS = ["bytes", "str", "list", "dict", "tuple", "set"]
NUMDECL = dict(INTS + FLOATS + CPLX + [("b", "bint")])
EXT_PARENT = {0: None, 1: 0, 2: 1, 3: None}
NPDT = {("i", 1): "int8", ("u", 1): "uint8", ("i", 2): "int16", ("u", 2): "uint16", ("i", 4): "int32",
        ("u", 4): "uint32", ("i", 8): "int64", ("u", 8): "uint64", ("f", 4): "float32", ("f", 8): "float64",
        ("c", 8): "complex64", ("c", 16): "complex128"}


# ---------------------------------------------------------------- token helpers
def kind(t):
    c = t[0]
    return {"i": "int", "b": "bint", "f": "float", "c": "complex", "o": "object", "B": "builtin",
            "E": "ext", "M": "mem"}[c]


def rank(t):
    if t[0] == "i":
        return int(t[1:].split(".")[0])
    if t == "b":
        return 4
    if t[0] == "f":
        return int(t[1:])
    if t[0] == "c":
        return int(t[1:]) + 1
    return 0


def sgn(t):
    return int(t.split(".")[1]) if t[0] == "i" else 1


def mem_parts(t):
    n, d, m = t[1:].split(":")
    return n, int(d), int(m)


def sizeof(n):
    if n[0] == "i":
        return {0: 1, 2: 2, 4: 4}.get(rank(n), 8)
    if n == "b":
        return 4
    if n[0] == "f":
        return {10: 4, 12: 8}.get(rank(n), 16)
    return {10: 8, 12: 16}.get(int(n[1:]), 32)


def decl_text(t):
    k = kind(t)
    if k in ("int", "bint", "float", "complex"):
        return NUMDECL[t]
    if k == "object":
        return "object"
    if k == "builtin":
        return BUILTINS[int(t[1:])]
    if k == "ext":
        return "A%s" % t[1:]
    n, d, m = mem_parts(t)
    ax = [":"] * d
    if m == 1:
        ax[-1] = "::1"
    elif m == 2:
        ax[0] = "::1"
    return "%s[%s]" % (NUMDECL[n], ", ".join(ax))


def typeof_text(t):
    k = kind(t)
    if k == "object":
        return "Python object"
    if k == "builtin":
        return BUILTINS[int(t[1:])] + " object"
    return decl_text(t)


def key_text(t):          # typeof_name(): the key in __signatures__
    return decl_text(t)


def buf_parts(a):
    src, k, sz, nd, cc, fc = a[1:].split(":")
    return int(src), k, int(sz), int(nd), cc == "1", fc == "1"


# ---------------------------------------------------------------- documented rules (property oracle)
def coerce_ok(t, a):
    n, d, m = mem_parts(t)
    src, k, sz, nd, cc, fc = buf_parts(a)
    if kind(n) == "int":
        km = (k == "i") if sgn(n) != 0 else (k == "u")
    elif kind(n) == "float":
        km = k == "f"
    elif kind(n) == "complex":
        km = k == "c"
    else:
        km = False
    return km and sizeof(n) == sz and d == nd and (m == 0 or (m == 1 and cc) or (m == 2 and fc))


def o_exact(a, t):
    k = kind(t)
    if a == "I":
        return k == "int"
    if a == "T":
        return k == "bint"
    if a == "F":
        return k == "float"
    if a == "C":
        return k == "complex"
    if a[0] == "L":
        return k == "builtin" and t[1:] == a[1:]
    if a[0] == "X":
        return k == "ext" and a[1:].split(".")[0] == t[1:]
    if a[0] == "U":
        return k == "mem" and coerce_ok(t, a)
    if a == "N":
        return k == "mem"
    return False


def o_sub(a, t):
    k = kind(t)
    if a == "T":
        return k == "int"
    if a == "nf":
        return k == "float"
    if a == "nc":
        return k == "complex"
    if a[0] == "X":
        return k == "ext" and t[1:] in a[1:].split(".")[1:]
    return False


def o_biggest(l):
    best = l[0]
    for t in l[1:]:
        if kind(t) in ("int", "bint", "float", "complex") and kind(best) in ("int", "bint", "float", "complex") \
                and rank(t) > rank(best):
            best = t
    return best


def o_choice(ms, a):
    e = [t for t in ms if o_exact(a, t)]
    if e:
        return o_biggest(e)
    s = [t for t in ms if o_sub(a, t)]
    if s:
        return o_biggest(s)
    return "o" if "o" in ms else None


def o_conv(t, a):
    """can the parameter type take the argument (conversion of a non-examined parameter)"""
    k = kind(t)
    if k == "object":
        return True
    if k == "bint":
        return a[0] != "U"
    if k in ("int", "float"):
        return a in ("I", "T", "F", "nf", "ni", "nc")     # numpy scalars convert through __int__/__float__
    if k == "complex":
        return a in ("I", "T", "F", "C", "nf", "ni", "nc")
    if k == "builtin":
        return a == "N" or (a[0] == "L" and a[1:] == t[1:])
    if k == "ext":
        return a == "N" or (a[0] == "X" and t[1:] in a[1:].split("."))
    return a == "N" or (a[0] == "U" and coerce_ok(t, a))


def o_call(d, args):
    sig = []
    for ms, pos in d["fts"]:
        c = o_choice(ms, args[pos])
        if c is None:
            return "TYPEERR"
        sig.append(c)
    for p, a in zip(d["params"], args):
        if not o_conv(sig[p], a):
            return "TYPEERR"
    return "RAN " + ",".join(sig)


# ---------------------------------------------------------------- finding classes (from the input only)
def num_order_irregular(ms):
    nums = [t for t in ms if kind(t) in ("int", "bint", "float", "complex")]
    cpx = [t for t in nums if kind(t) == "complex"]
    if cpx and len(nums) > len(cpx):
        return True
    return any(rank(x) > rank(y) and sgn(x) < sgn(y) for x in nums for y in nums)


def classify(d, args, exp):
    fts = d["fts"]
    for ms, pos in fts:
        a = args[pos]
        if a[0] == "U" and buf_parts(a)[0] != 2:
            src, k, sz, nd, cc, fc = buf_parts(a)
            for t in ms:
                if kind(t) == "mem" and mem_parts(t)[2] != 0 and not coerce_ok(t, a) \
                        and coerce_ok("M%s:%d:0" % (mem_parts(t)[0], mem_parts(t)[1]), a):
                    return "ndarray_fastpath_ignores_contiguity"
    for ms, pos in fts:
        a = args[pos]
        # an int member that precedes bint in the preference order: wider ones sort before it, members of
        # the same rank (int, unsigned int) are incomparable with bint and keep their declared place
        if a == "T" and "b" in ms and any(kind(t) == "int" and (rank(t) > 4 or (rank(t) == 4 and ms.index(t) < ms.index("b")))
                                          for t in ms):
            return "bool_arg_wider_int_beats_bint"
        if a[0] == "X":
            mro = a[1:].split(".")
            idx = {t[1:]: i for i, t in enumerate(ms) if kind(t) == "ext"}
            if mro[0] in idx and any(b in idx and idx[b] < idx[mro[0]] for b in mro[1:]):
                return "ext_subclass_declared_after_base"
        if a in ("I", "T", "F", "nf", "C", "nc") and num_order_irregular(ms):
            return "numeric_members_not_ordered_by_size"
    if len(fts) > 1 and any(len(ms) == 1 for ms, _ in fts):
        return "singleton_fused_type_is_wildcard"
    # a later parameter of an already specialised memoryview fused type does not fit: ValueError
    if exp == "TYPEERR":
        for i, (p, a) in enumerate(zip(d["params"], args)):
            if any(kind(t) == "mem" for t in fts[p][0]) and (a[0] == "U" or a in ("nf", "nc", "ni")):
                return "buffer_mismatch_raises_ValueError"
    return "fused_dispatch_differs_from_documented"


# ---------------------------------------------------------------- declarations
def mk_decl(name, fts, params, how="def"):
    """fts: list of member lists; params: fused type index per parameter"""
    pos = []
    for j in range(len(fts)):
        pos.append(params.index(j))
    return {"name": name, "fts": [[list(ms), pos[j]] for j, ms in enumerate(fts)], "params": list(params),
            "how": how}


def has_mem(d):
    return any(kind(t) == "mem" for ms, _ in d["fts"] for t in ms)


def numeric_only(d):
    return all(kind(t) in ("int", "float", "complex") for ms, _ in d["fts"] for t in ms)


def gen_module(decls, with_helpers):
    L = ["# cython: language_level=3", "cimport cython", "",
         "cdef class A0: pass", "cdef class A1(A0): pass", "cdef class A2(A1): pass", "cdef class A3: pass", ""]
    if with_helpers:
        L += ["def mk_f8(double[:] a): return a", "def mk_i4(int[:] a): return a",
              "def mk_f8_2(double[:, :] a): return a", ""]
    for d in decls:
        names = []
        for j, (ms, _) in enumerate(d["fts"]):
            fn = "FT_%s_%d" % (d["name"], j)
            names.append(fn)
            L.append("ctypedef fused %s:" % fn)
            L += ["    " + decl_text(t) for t in ms]
            L.append("")
        ps = ["p%d" % i for i in range(len(d["params"]))]
        sigtxt = ", ".join("%s %s" % (names[p], v) for p, v in zip(d["params"], ps))
        tys = "(" + ", ".join("cython.typeof(%s)" % v for v in ps) + ",)"
        if numeric_only(d):
            val = " + ".join(ps) if len(ps) > 1 else "%s + %s" % (ps[0], ps[0])
        else:
            val = "(" + ", ".join(ps) + ",)"
        L.append("%s %s(%s):" % (d["how"], d["name"], sigtxt))
        L.append("    return %s, %s" % (tys, val))
        L.append("")
    return "\n".join(L)


def py_generic(d, vals):
    """the generic (untyped) Python source of the body, on the argument values"""
    if numeric_only(d):
        return sum(vals[1:], vals[0]) if len(vals) > 1 else vals[0] + vals[0]
    return tuple(vals)


SCALARS = ["I", "T", "F", "C", "N", "nf", "nc", "ni", "L0", "L1", "L2", "L3", "L4", "L5",
           "X0", "X1.0", "X2.1.0", "X3", "XS", "O"]
# "XS" = instance of a Python subclass of A1: same tag as X1.0 (written out below)


def norm_arg(a):
    return "X1.0" if a == "XS" else a


def buffer_args(tier):
    out = []
    for (k, sz) in NPDT:
        for src in (0, 2):
            out += ["U%d:%s:%d:1:1:1" % (src, k, sz), "U%d:%s:%d:1:0:0" % (src, k, sz),
                    "U%d:%s:%d:2:1:0" % (src, k, sz), "U%d:%s:%d:2:0:1" % (src, k, sz),
                    "U%d:%s:%d:2:0:0" % (src, k, sz)]
        out.append("U0:%s:%d:3:1:0" % (k, sz))
    out += ["U1:f:8:1:1:1", "U1:f:8:1:0:0", "U1:i:4:1:1:1", "U1:i:4:1:0:0", "U1:f:8:2:1:0", "U1:f:8:2:0:0"]
    return out


def core_decls():
    D = []
    add = lambda *a, **k: D.append(mk_decl("f%d" % len(D), *a, **k))
    # numeric
    add([["i4.1", "f12"]], [0])
    add([["i2.1", "i4.1", "i6.1"]], [0])                              # cython.integral
    add([["f10", "f12"]], [0])                                        # cython.floating
    add([["i2.1", "i4.1", "i6.1", "f10", "f12", "c10", "c12"]], [0])  # cython.numeric
    add([["i6.1", "i2.1", "f14", "f10"]], [0])
    add([["i0.0", "i8.0", "i4.0"]], [0])
    add([["b", "i4.1", "f12"]], [0])
    add([["i4.1", "f12"]], [0, 0])
    add([["i4.1", "f12"]], [0, 0], how="cpdef")
    add([["i4.1", "f12"], ["f10", "f12"]], [0, 1])
    add([["i4.1", "f12"], ["f10", "f12"]], [0, 1], how="cpdef")
    add([["i2.1", "i6.1"], ["f12", "c12"]], [0, 1, 0])
    # findings: partial order of __lt__, bint, singleton wildcard
    add([["i2.1", "c12", "i6.1"]], [0])
    add([["i2.1", "i6.0"]], [0])
    add([["i6.1", "b"]], [0])
    add([["f12"], ["i4.1", "f12"]], [0, 1])
    # object / builtins / extension types
    add([["i6.1", "f12", "c12", "o"]], [0])
    add([["f10", "o", "f12"]], [0])
    add([["b", "i4.1", "B0", "B1", "B2"]], [0])
    add([["B3", "B4", "B5", "o"]], [0])
    add([["E0", "E3", "B3"]], [0])
    add([["E2", "E1", "E0"]], [0])
    add([["E0", "E1", "E2"]], [0])
    add([["E1", "E3", "o"]], [0, 0])
    add([["i4.1", "B1"], ["E0", "f12"]], [0, 1])
    add([["B1", "B0"], ["i6.1", "o"]], [0, 1], how="cpdef")
    return D


def core_mem_decls():
    D = []
    add = lambda *a, **k: D.append(mk_decl("m%d" % len(D), *a, **k))
    add([["Mi4.1:1:0", "Mf12:1:0", "Mf10:2:0", "Mi6.1:1:1"]], [0])
    add([["Mi6.1:1:1", "Mi6.1:1:0"]], [0])
    add([["Mi6.1:1:0", "Mi6.1:1:1"]], [0])
    add([["Mf12:1:1", "Mf12:1:0"]], [0])
    add([["Mf12:2:1", "Mf12:2:2", "Mf12:2:0", "Mf10:1:0", "Mi0.0:1:0", "Mi4.1:1:0", "Mi4.0:1:0", "Mc12:1:0"]], [0])
    add([["f12", "Mf12:1:0", "o"]], [0])
    add([["Mf10:1:0", "Mf12:1:0"]], [0, 0])
    add([["Mf10:1:0", "Mf12:1:0"], ["i4.1", "f12"]], [0, 1], how="cpdef")
    return D


def random_decl(rng, name, mem):
    def members():
        if mem:
            pool = []
            for n in ["i0.2", "i0.0", "i2.1", "i4.1", "i4.0", "i6.1", "i6.0", "f10", "f12", "c10", "c12"]:
                pool += ["M%s:1:0" % n, "M%s:1:1" % n, "M%s:2:0" % n, "M%s:2:1" % n, "M%s:2:2" % n]
            k = rng.randint(2, 4)
            ms = rng.sample(pool, k)
            if rng.random() < 0.25:
                ms.insert(rng.randrange(len(ms) + 1), rng.choice(["o", "f12", "i6.1", "B2"]))
            return ms
        style = rng.random()
        if style < 0.45:
            pool = [t for t, _ in INTS + FLOATS + CPLX] + ["b"]
        elif style < 0.75:
            pool = [t for t, _ in INTS + FLOATS + CPLX] + ["b", "o"] + ["B%d" % i for i in range(6)]
        else:
            pool = ["o", "E0", "E1", "E2", "E3"] + ["B%d" % i for i in range(6)] + ["i6.1", "f12"]
        return rng.sample(pool, rng.randint(2, 4))
    nft = 1 if rng.random() < 0.6 else 2
    fts = [members() for _ in range(nft)]
    if mem and nft == 2:
        fts[1] = rng.sample(["i4.1", "f12", "i6.1", "f10"], 2)
    if nft == 1:
        params = [0] * rng.choice([1, 1, 2])
    else:
        params = rng.choice([[0, 1], [0, 1], [0, 1, 0], [0, 0, 1], [0, 1, 1]])
    return mk_decl(name, fts, params, how=rng.choice(["def", "def", "cpdef"]))


# ---------------------------------------------------------------- workers
IDS = r'''
import pyload; pyload.install()
import json
from Cython.Compiler import PyrexTypes as P
pyload.assert_sources()
m = id(P.MemoryViewSliceType)
from Cython.Compiler import Builtin
cl = [P.CIntType, P.CBIntType, P.CFloatType, P.CComplexType, P.PyObjectType, P.BuiltinObjectType, P.PyExtensionType]
print(json.dumps("".join("1" if m < id(c) else "0" for c in cl)))
'''

WORKER = r'''
import sys, json, array, faulthandler
import numpy as np
spec = json.load(sys.stdin)
mods = {}
for mn in spec["mods"]:
    mods[mn] = __import__(mn)
SUBS = {}
class Plain: pass
NPDT = {("i",1):"int8",("u",1):"uint8",("i",2):"int16",("u",2):"uint16",("i",4):"int32",("u",4):"uint32",
        ("i",8):"int64",("u",8):"uint64",("f",4):"float32",("f",8):"float64",("c",8):"complex64",("c",16):"complex128"}
def mkbuf(a, helper):
    src, k, sz, nd, cc, fc = a[1:].split(":")
    src = int(src); sz = int(sz); nd = int(nd); cc = cc == "1"; fc = fc == "1"
    dt = NPDT[(k, sz)]
    if nd == 1:
        arr = (np.arange(4) + 1).astype(dt) if cc else (np.arange(8) + 1).astype(dt)[::2]
    elif nd == 2:
        base = (np.arange(12) + 1).astype(dt)
        if cc: arr = base.reshape(3, 4)
        elif fc: arr = np.asfortranarray(base.reshape(3, 4))
        else: arr = (np.arange(48) + 1).astype(dt).reshape(6, 8)[::2, ::2]
    else:
        arr = (np.arange(24) + 1).astype(dt).reshape(2, 3, 4)
    if src == 0: return arr
    if src == 2: return memoryview(arr)
    # the Cython memoryview object that wraps the numpy array itself (its .base is the array);
    # the slice object returned by the helper has that memoryview as its base
    if nd == 2: return helper.mk_f8_2(arr).base
    return (helper.mk_f8(arr) if k == "f" else helper.mk_i4(arr)).base
def mkarg(a, mod, helper):
    if a == "I": return 3
    if a == "T": return True
    if a == "F": return 1.5
    if a == "C": return 1 + 2j
    if a == "N": return None
    if a == "nf": return np.float64(2.5)
    if a == "nc": return np.complex128(1 + 1j)
    if a == "ni": return np.int64(5)
    if a == "O": return Plain()
    if a == "XS":
        if mod.__name__ not in SUBS:
            SUBS[mod.__name__] = type("PyA1", (mod.A1,), {})
        return SUBS[mod.__name__]()
    if a[0] == "L": return [b"ab", "ab", [1], {1: 2}, (1,), {1}][int(a[1:])]
    if a[0] == "X": return getattr(mod, "A" + a[1:].split(".")[0])()
    return mkbuf(a, helper)
def plain(v):
    if isinstance(v, tuple): return [plain(x) for x in v]
    if isinstance(v, (bool, int, str)) or v is None: return v
    if isinstance(v, float): return ["f", v.hex()]
    if isinstance(v, complex): return ["c", v.real.hex(), v.imag.hex()]
    if isinstance(v, (np.floating,)): return ["f", float(v).hex()]
    if isinstance(v, (np.integer,)): return int(v)
    if isinstance(v, (np.complexfloating,)): return ["c", float(v.real).hex(), float(v.imag).hex()]
    if isinstance(v, (bytes, list, dict, set)): return repr(v)
    try:
        return ["buf", np.asarray(v).tolist().__repr__()]
    except Exception:
        return ["obj", type(v).__name__]
helper = mods.get(spec.get("helper")) if spec.get("helper") else None
out = []
for c in spec["cases"]:
    mod = mods[c["mod"]]
    f = getattr(mod, c["fn"])
    try:
        if c["op"] == "call":
            args = [mkarg(a, mod, mod if hasattr(mod, "mk_f8") else helper) for a in c["args"]]
            r = f(*args)
            gen = None
            try:
                if c["numeric"]:
                    gen = plain(sum(args[1:], args[0]) if len(args) > 1 else args[0] + args[0])
                else:
                    gen = plain(tuple(args))
            except Exception as e:
                gen = ["exc", type(e).__name__]
            out.append({"ty": list(r[0]), "val": plain(r[1]), "gen": gen})
        elif c["op"] == "index":
            idx = c["idx"]
            if c["form"] == "tuple": idx = tuple(idx)
            elif c["form"] == "bar": idx = "|".join(idx)
            elif c["form"] == "type": idx = tuple({"int": int, "float": float, "str": str, "bytes": bytes, "list": list,
                                                    "dict": dict, "tuple": tuple, "set": set, "object": object,
                                                    "complex": complex, "bool": bool}.get(x, x) for x in idx)
            elif c["form"] == "one": idx = idx[0]
            g = f[idx]
            r = g(*[1 if k else None for k in c["numarg"]])
            out.append({"ty": list(r[0]), "same": g is f.__signatures__.get("|".join(c["idx"]))})
        elif c["op"] == "sigs":
            out.append({"keys": list(f.__signatures__)})
    except BaseException as e:
        out.append({"e": type(e).__name__, "m": str(e)[:200]})
print(json.dumps(out))
'''


def observed(d, r, tmap):
    """impl outcome string from a worker result"""
    if "e" in r:
        if r["e"] == "TypeError":
            return "TYPEERR"
        if r["e"] in ("ValueError", "BufferError"):
            return "VALUEERR"
        return "EXC " + r["e"]
    sig = [None] * len(d["fts"])
    for p, ty in zip(d["params"], r["ty"]):
        cands = [t for t in d["fts"][p][0] if typeof_text(t) == ty]
        if len(cands) != 1:
            return "BADTYPEOF " + ty
        if sig[p] is not None and sig[p] != cands[0]:
            return "INCONSISTENT " + ",".join(r["ty"])
        sig[p] = cands[0]
    return "RAN " + ",".join(sig)


def arg_tuples(ctx, d, bufargs, nmax):
    rng = ctx.rng
    pools = []
    for p in d["params"]:
        ms = d["fts"][p][0]
        pool = list(SCALARS)
        if any(kind(t) == "mem" for t in ms):
            pool = [a for a in pool if a not in ("L0",)]     # bytes is a read-only buffer: outside the model
            # buffers relevant to the members + a sample of the rest
            rel = [a for a in bufargs if any(kind(t) == "mem" and mem_parts(t)[1] == buf_parts(a)[3]
                                             and sizeof(mem_parts(t)[0]) == buf_parts(a)[2] for t in ms)]
            rest = [a for a in bufargs if a not in rel]
            pool += rel + rng.sample(rest, min(len(rest), 12))
        pools.append(pool)
    if len(pools) == 1:
        tuples = [(a,) for a in pools[0]]
    else:
        tuples = list(itertools.product(*pools))
        if len(tuples) > nmax:
            tuples = rng.sample(tuples, nmax)
    return tuples


def decl_fields(d):
    fts = ";".join("%d=%s" % (pos, ",".join(ms)) for ms, pos in d["fts"])
    return fts, ",".join(str(p) for p in d["params"])


def run(ctx):
    quick = ctx.tier == "quick"
    rng = ctx.rng
    r = cybuild.run_script(IDS, os.path.join(ctx.workdir, "ids"), name="ids.py")
    if r["json"] is None:
        ctx.corr_break("type class ids", "ids.py", r["err"][-500:], "7 bits")
        return
    bits = r["json"]
    ctx.extra["idlt_bits"] = bits
    # ---- declarations
    groups = {"c34_num": core_decls(), "c34_mem": core_mem_decls()}
    nrand_num, nrand_mem = (14, 3) if quick else (90, 16)
    for i in range(nrand_num):
        groups["c34_num"].append(random_decl(rng, "r%d" % i, False))
    for i in range(nrand_mem):
        groups["c34_mem"].append(random_decl(rng, "q%d" % i, True))
    if not quick:
        # split into several modules (parallel builds)
        ds = groups.pop("c34_num")
        for j in range(0, len(ds), 30):
            groups["c34_num%d" % (j // 30)] = ds[j:j + 30]
        ds = groups.pop("c34_mem")
        for j in range(0, len(ds), 8):
            groups["c34_mem%d" % (j // 8)] = ds[j:j + 8]
    modnames = sorted(groups)
    helper = [m for m in modnames if "mem" in m][0]
    specs = [dict(name=m, source=gen_module(groups[m], "mem" in m), workdir=ctx.workdir, cflags=["-O0"])
             for m in modnames]
    # argument-fetch part of the dispatcher (defaults / keywords / parameter kinds): props/C34_args.py
    import props.C34_args as argmod
    argpart = argmod.ArgsPart(ctx)
    argpart.start_dump()          # translates (capturing the dispatcher text) and compiles its own modules
    built = cybuild.build_many(specs, jobs=8)
    argpart.thread.join()
    for (so, err), sp in zip(built, specs):
        if err is not None:
            ctx.corr_break("build " + sp["name"], sp["source"][:3000], str(err)[:1500], "module builds")
            return
    # ---- cases
    bufargs = buffer_args(ctx.tier)
    cases, meta = [], []
    for m in modnames:
        for d in groups[m]:
            for tup in arg_tuples(ctx, d, bufargs, 60 if quick else 150):
                cases.append({"op": "call", "mod": m, "fn": d["name"], "args": list(tup), "numeric": numeric_only(d)})
                meta.append(("call", m, d, tup))
            # explicit indexing: every signature in three spellings + wrong names / arity
            sigs = list(itertools.product(*[ms for ms, _ in d["fts"]]))
            if len(sigs) > 6:
                sigs = rng.sample(sigs, 6)
            forms = ["tuple", "bar"] + (["one"] if len(d["fts"]) == 1 else []) + ["type"]
            for s in sigs:
                for form in forms:
                    idx = [key_text(t) for t in s]
                    cases.append({"op": "index", "mod": m, "fn": d["name"], "idx": idx, "form": form,
                                  "numarg": [kind(s[p]) in ("int", "bint", "float", "complex") for p in d["params"]]})
                    meta.append(("index", m, d, (idx, form, list(s))))
            bad = [[key_text(t) for t in sigs[0]] + ["int"], ["nosuch"] * len(d["fts"]),
                   [key_text(t).replace(" ", "") + " " for t in sigs[0]]]
            if len(d["fts"]) > 1:
                bad.append([key_text(sigs[0][0])])
            for idx in bad:
                cases.append({"op": "index", "mod": m, "fn": d["name"], "idx": idx, "form": "tuple",
                              "numarg": [True for p in d["params"]]})
                meta.append(("index", m, d, (idx, "tuple", None)))
            cases.append({"op": "sigs", "mod": m, "fn": d["name"]})
            meta.append(("sigs", m, d, None))
    wr = cybuild.run_script(WORKER, ctx.workdir, stdin_obj={"mods": modnames, "helper": helper, "cases": cases},
                            name="c34_worker.py", timeout=1500)
    if wr["json"] is None or len(wr["json"]) != len(cases):
        ctx.corr_break("worker", "c34_worker.py", (wr["err"] or wr["out"])[-800:], "one result per case")
        return
    res = wr["json"]
    # ---- model
    model = ctx.model("fused")
    q = []
    for (op, m, d, x) in meta:
        fts, ps = decl_fields(d)
        if op == "call":
            q.append("call %d %s %s %s %s" % (FX_FAST, bits, fts, ps, ",".join(norm_arg(a) for a in x)))
        elif op == "index":
            names = {}
            for ms, _ in d["fts"]:
                for t in ms:
                    names[key_text(t)] = t
            toks = [names.get(s, "?" + re.sub(r"[^A-Za-z0-9]", "_", s)) for s in x[0]]
            q.append("getitem %s %s" % (fts, ",".join(toks)))
        else:
            q.append("sort %s %s" % (bits, d["fts"][0][0] and ",".join(d["fts"][0][0])))
    mres = model.batch(q)
    # ---- compare
    for (op, m, d, x), r, ql, mr in zip(meta, res, q, mres):
        inp = {"module": m, "decl": {"fts": d["fts"], "params": d["params"], "how": d["how"]},
               "source": gen_module([d], has_mem(d))}
        if op == "call":
            args = [norm_arg(a) for a in x]
            inp["args"] = list(x)
            got = observed(d, r, None)
            parts = [s.strip() for s in mr.split(";")]
            if len(parts) != 3:
                ctx.corr_break("model protocol", ql, got, mr)
                continue
            mdisp, mcall, mdoc = parts
            exp = o_call(d, args)
            nontriv = any(o_exact(a, t) or o_sub(a, t) for (ms, pos) in d["fts"] for t in ms
                          for a in [args[pos]]) or exp == "TYPEERR"
            stratum = "%s/%dft/%dp/%s/%s" % (d["how"], len(d["fts"]), len(d["params"]),
                                               "mem" if has_mem(d) else "scalar",
                                               "raise" if exp == "TYPEERR" else "run")
            ctx.case(stratum, inp, sig=(m, d["name"], tuple(x)), nontrivial=nontriv)
            if mdoc != exp:
                ctx.corr_break("documented rules: Gallina doc_call vs Python oracle", inp, exp, mdoc)
            if got != mcall:
                ctx.corr_break("fused:call_cy", inp, got + (" (%s)" % r.get("m", "") if "e" in r else ""), mcall + " / " + mdisp)
            if got != exp:
                ctx.fail(classify(d, args, exp), inp, got + (" (%s)" % r.get("m", "") if "e" in r else ""), exp,
                         note="model: %s" % mr)
            elif "e" not in r and r.get("gen") is not None and all(
                    o_exact(a, t) or t == "o" or (kind(t) in ("builtin", "ext") and a != "N")
                    for a, t in zip(args, [got[4:].split(",")[p] for p in d["params"]])):
                # result value vs the generic Python source (values are representable by construction)
                if r["gen"] != r["val"] and not (isinstance(r["gen"], list) and r["gen"][:1] == ["exc"]):
                    ctx.fail("specialisation_result_differs_from_generic_source", inp, r["val"], r["gen"])
        elif op == "index":
            idx, form, sig = x
            inp["index"] = {"idx": idx, "form": form}
            ctx.case("index/%s/%s" % (form, "named" if sig else "wrong"), inp, sig=(m, d["name"], tuple(idx), form))
            if "e" in r:
                got = "KEYERROR" if r["e"] == "KeyError" else "EXC " + r["e"]
            else:
                o = observed(d, {"ty": r["ty"]}, None)
                got = "FOUND " + o[4:] if o.startswith("RAN ") else o
                if not r["same"]:
                    got += " (not the __signatures__ entry)"
            # Python type objects are turned into their __name__: float means the C float member
            exp = ("FOUND " + ",".join(sig)) if sig else "KEYERROR"
            if got != mr:
                ctx.corr_break("fused:getitem", inp, got + (" " + r.get("m", "") if "e" in r else ""), mr)
            if got != exp:
                ctx.fail("explicit_index_selects_other_specialisation", inp, got, exp)
        else:
            ctx.case("signatures", inp, sig=(m, d["name"], "sigs"))
            exp = ["|".join(key_text(t) for t in s) for s in itertools.product(*[ms for ms, _ in d["fts"]])]
            if "e" in r or r["keys"] != exp:
                ctx.fail("signatures_dict_not_the_product_in_declared_order", inp, r, exp)
    argpart.finish(sys.modules[__name__], bits)
    ctx.extra["declarations"] = sum(len(v) for v in groups.values())
    ctx.extra["modules"] = modnames


def replay(ctx, obj):
    inp = obj["input"]
    print(inp.get("source", ""))
    print("args:", inp.get("args"), "index:", inp.get("index"))
    print("observed:", obj.get("observed"), "expected:", obj.get("expected"))
