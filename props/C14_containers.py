"""C14 helper: container iteration (dict/set/str/bytes/bytearray/C arrays) compared differentially with
CPython running the same function bodies as plain Python.  Lines ending in '#PYX' exist only in the
Cython source, lines ending in '#PY' only in the Python source."""
import json, itertools
import cybuild

TEMPLATE = r'''
def _mut_dict(d, op, key):
    if op == 'add': d[key] = 'new'
    elif op == 'del': del d[key]
    elif op == 'set': d[key] = 'changed'
    elif op == 'clear': d.clear()
    elif op == 'swap':
        d.pop(key); d[('swapped', key)] = 'new'
    elif op == 'addel':
        d[('tmp', key)] = 1; del d[('tmp', key)]

def _mut_set(s, op, key):
    if op == 'add': s.add(key)
    elif op == 'del': s.discard(key)
    elif op == 'clear': s.clear()
    elif op == 'swap':
        s.discard(key); s.add(('swapped', key))
    elif op == 'addel':
        s.add(('tmp', key)); s.discard(('tmp', key))

def _wrap(f, *args):
    log = []
    try:
        r = f(log, *args)
        return [log, r, None]
    except Exception as e:
        return [log, None, [type(e).__name__, str(e)]]

def dict_keys(log, d, hist, brk):
    cdef dict dd = d  #PYX
    dd = d  #PY
    n = 0; k = 'unset'; e = False
    for k in dd:
        log.append(k); n += 1
        if n in hist: _mut_dict(dd, *hist[n])
        if n >= brk: break
    else:
        e = True
    return k, e

def dict_keys_m(log, d, hist, brk):
    cdef dict dd = d  #PYX
    dd = d  #PY
    n = 0; k = 'unset'; e = False
    for k in dd.keys():
        log.append(k); n += 1
        if n in hist: _mut_dict(dd, *hist[n])
        if n >= brk: break
        if n % 2: continue
        log.append('even')
    else:
        e = True
    return k, e

def dict_values(log, d, hist, brk):
    cdef dict dd = d  #PYX
    dd = d  #PY
    n = 0; v = 'unset'; e = False
    for v in dd.values():
        log.append(v); n += 1
        if n in hist: _mut_dict(dd, *hist[n])
        if n >= brk: break
    else:
        e = True
    return v, e

def dict_items(log, d, hist, brk):
    cdef dict dd = d  #PYX
    dd = d  #PY
    n = 0; k = v = 'unset'; e = False
    for k, v in dd.items():
        log.append((k, v)); n += 1
        if n in hist: _mut_dict(dd, *hist[n])
        if n >= brk: break
    else:
        e = True
    return (k, v), e

def dict_items_t(log, d, hist, brk):
    cdef dict dd = d  #PYX
    dd = d  #PY
    n = 0; t = 'unset'; e = False
    for t in dd.items():
        log.append(t); n += 1
        if n in hist: _mut_dict(dd, *hist[n])
        if n >= brk: break
    else:
        e = True
    return t, e

def dict_untyped(log, d, hist, brk):
    n = 0; k = v = 'unset'; e = False
    for k, v in d.items():
        log.append((k, v)); n += 1
        if n in hist: _mut_dict(d, *hist[n])
        if n >= brk: break
    else:
        e = True
    return (k, v), e

def dict_enum(log, d, hist, brk):
    cdef dict dd = d  #PYX
    dd = d  #PY
    n = 0; k = i = 'unset'; e = False
    for i, k in enumerate(dd, 3):
        log.append((i, k)); n += 1
        if n in hist: _mut_dict(dd, *hist[n])
        if n >= brk: break
    else:
        e = True
    return (i, k), e

def set_iter(log, s, hist, brk):
    cdef set ss = s  #PYX
    ss = s  #PY
    n = 0; x = 'unset'; e = False
    for x in ss:
        log.append(x); n += 1
        if n in hist: _mut_set(ss, *hist[n])
        if n >= brk: break
        if n % 2: continue
        log.append('even')
    else:
        e = True
    return x, e

def fset_iter(log, s, hist, brk):
    cdef frozenset ss = frozenset(s)  #PYX
    ss = frozenset(s)  #PY
    n = 0; x = 'unset'; e = False
    for x in ss:
        log.append(x); n += 1
        if n >= brk: break
    else:
        e = True
    return x, e

def set_untyped(log, s, hist, brk):
    n = 0; x = 'unset'; e = False
    for x in s:
        log.append(x); n += 1
        if n in hist: _mut_set(s, *hist[n])
        if n >= brk: break
    else:
        e = True
    return x, e

def str_iter(log, s, brk):
    cdef str ss = s  #PYX
    ss = s  #PY
    n = 0; c = 'unset'; e = False
    for c in ss:
        log.append(c); n += 1
        if n >= brk: break
        if c == 'a': continue
        log.append(n)
    else:
        e = True
    return c, e

def str_iter_ucs4(log, s, brk):
    cdef str ss = s  #PYX
    cdef Py_UCS4 c = u'?'  #PYX
    ss = s; c = '?'  #PY
    n = 0; e = False
    for c in ss:
        log.append(c); n += 1
        if n >= brk: break
    else:
        e = True
    return c, e

def str_rev(log, s, brk):
    cdef str ss = s  #PYX
    ss = s  #PY
    n = 0; c = 'unset'; e = False
    for c in reversed(ss):
        log.append(c); n += 1
        if n >= brk: break
    else:
        e = True
    return c, e

def str_enum(log, s, brk):
    cdef str ss = s  #PYX
    cdef Py_ssize_t i = -5  #PYX
    ss = s; i = -5  #PY
    n = 0; c = 'unset'; e = False
    for i, c in enumerate(ss):
        log.append((i, c)); n += 1
        if n >= brk: break
    else:
        e = True
    return (i, c), e

def str_slice(log, s, a, b, brk):
    cdef str ss = s  #PYX
    ss = s  #PY
    n = 0; c = 'unset'; e = False
    for c in ss[a:b]:
        log.append(c); n += 1
        if n >= brk: break
    else:
        e = True
    return c, e

def bytes_iter(log, s, brk):
    cdef bytes ss = s  #PYX
    ss = s  #PY
    n = 0; c = 'unset'; e = False
    for c in ss:
        log.append(c); n += 1
        if n >= brk: break
    else:
        e = True
    return c, e

def bytes_iter_uchar(log, s, brk):
    cdef bytes ss = s  #PYX
    cdef unsigned char c = 63  #PYX
    ss = s; c = 63  #PY
    n = 0; e = False
    for c in ss:
        log.append(c); n += 1
        if n >= brk: break
        if c & 1: continue
        log.append('even')
    else:
        e = True
    return c, e

def bytes_rev(log, s, brk):
    cdef bytes ss = s  #PYX
    ss = s  #PY
    n = 0; c = 'unset'; e = False
    for c in reversed(ss):
        log.append(c); n += 1
        if n >= brk: break
    else:
        e = True
    return c, e

def bytes_slice(log, s, a, b, brk):
    cdef bytes ss = s  #PYX
    ss = s  #PY
    n = 0; c = 'unset'; e = False
    for c in ss[a:b]:
        log.append(c); n += 1
        if n >= brk: break
    else:
        e = True
    return c, e

def bytes_enum(log, s, brk):
    cdef bytes ss = s  #PYX
    cdef int i = -5  #PYX
    ss = s; i = -5  #PY
    n = 0; c = 'unset'; e = False
    for i, c in enumerate(ss, 2):
        log.append((i, c)); n += 1
        if n >= brk: break
    else:
        e = True
    return (i, c), e

def bytearray_iter(log, s, hist, brk):
    cdef bytearray ss = bytearray(s)  #PYX
    ss = bytearray(s)  #PY
    n = 0; c = 'unset'; e = False
    for c in ss:
        log.append(c); n += 1
        if n in hist:
            op = hist[n]
            if op == 'append': ss.append(7)
            elif op == 'pop': ss.pop()
            elif op == 'clear': del ss[:]
            elif op == 'set': ss[-1] = 9
        if n >= brk: break
    else:
        e = True
    return c, e

def bytearray_rev(log, s, hist, brk):
    cdef bytearray ss = bytearray(s)  #PYX
    ss = bytearray(s)  #PY
    n = 0; c = 'unset'; e = False
    for c in reversed(ss):
        log.append(c); n += 1
        if n in hist:
            op = hist[n]
            if op == 'append': ss.append(7)
            elif op == 'pop': ss.pop()
            elif op == 'clear': del ss[:]
            elif op == 'set': ss[0] = 9
        if n >= brk: break
    else:
        e = True
    return c, e

def carray_iter(log, vals, brk):
    cdef int[6] arr  #PYX
    cdef int x = -1, j  #PYX
    arr = list(vals) + [0] * (6 - len(vals)); x = -1  #PY
    for j in range(6): arr[j] = vals[j] if j < len(vals) else 0  #PYX
    n = 0; e = False
    for x in arr:
        log.append(x); n += 1
        if n >= brk: break
        if x & 1: continue
        log.append('even')
    else:
        e = True
    return x, e

def carray_slice(log, vals, a, b, brk):
    cdef int[6] arr  #PYX
    cdef int x = -1, j  #PYX
    arr = list(vals) + [0] * (6 - len(vals)); x = -1  #PY
    for j in range(6): arr[j] = vals[j] if j < len(vals) else 0  #PYX
    n = 0; e = False
    for x in arr[a:b]:
        log.append(x); n += 1
        if n >= brk: break
    else:
        e = True
    return x, e

def carray_ptr(log, vals, a, b, brk):
    cdef int[6] arr  #PYX
    cdef int* p = arr  #PYX
    cdef int x = -1, j  #PYX
    arr = list(vals) + [0] * (6 - len(vals)); x = -1; p = arr  #PY
    for j in range(6): arr[j] = vals[j] if j < len(vals) else 0  #PYX
    n = 0; e = False
    for x in p[a:b]:
        log.append(x); n += 1
        if n >= brk: break
    else:
        e = True
    return x, e

def carray_rev(log, vals, brk):
    cdef int[6] arr  #PYX
    cdef int x = -1, j  #PYX
    arr = list(vals) + [0] * (6 - len(vals)); x = -1  #PY
    for j in range(6): arr[j] = vals[j] if j < len(vals) else 0  #PYX
    n = 0; e = False
    for x in reversed(arr):
        log.append(x); n += 1
        if n >= brk: break
    else:
        e = True
    return x, e

def lit_str(log, brk):
    n = 0; c = 'unset'; e = False
    for c in "h\xe9l\u20aco\U0001F600":
        log.append(c); n += 1
        if n >= brk: break
    else:
        e = True
    return c, e

def lit_bytes(log, brk):
    cdef unsigned char c = 63  #PYX
    c = 63  #PY
    n = 0; e = False
    for c in b"ab\x00\xff":
        log.append(c); n += 1
        if n >= brk: break
    else:
        e = True
    return c, e

def lit_tuple(log, brk):
    cdef int x = -1  #PYX
    x = -1  #PY
    n = 0; e = False
    for x in (3, 1, 4, 1, 5):
        log.append(x); n += 1
        if n >= brk: break
    else:
        e = True
    return x, e

def lit_tuple_rev(log, brk):
    cdef int x = -1  #PYX
    x = -1  #PY
    n = 0; e = False
    for x in reversed([3, 1, 4, 1, 5]):
        log.append(x); n += 1
        if n >= brk: break
    else:
        e = True
    return x, e

def list_rev(log, l, hist, brk):
    cdef list ll = l  #PYX
    ll = l  #PY
    n = 0; x = 'unset'; e = False
    for x in reversed(ll):
        log.append(x); n += 1
        if n in hist:
            if hist[n] == 'append': ll.append(99)
            elif hist[n] == 'pop': ll.pop()
            elif hist[n] == 'clear': del ll[:]
        if n >= brk: break
    else:
        e = True
    return x, e

def list_fwd(log, l, hist, brk):
    cdef list ll = l  #PYX
    ll = l  #PY
    n = 0; x = 'unset'; e = False
    for x in ll:
        log.append(x); n += 1
        if n in hist:
            if hist[n] == 'append' and len(ll) < 12: ll.append(99)
            elif hist[n] == 'pop': ll.pop()
            elif hist[n] == 'clear': del ll[:]
        if n >= brk: break
    else:
        e = True
    return x, e

def none_dict(log):
    cdef dict dd = None  #PYX
    dd = None  #PY
    for k in dd:
        log.append(k)
    return 0, 0

def none_set(log):
    cdef set dd = None  #PYX
    dd = None  #PY
    for k in dd:
        log.append(k)
    return 0, 0

def none_str(log):
    cdef str dd = None  #PYX
    dd = None  #PY
    for k in dd:
        log.append(k)
    return 0, 0

def none_bytes(log):
    cdef bytes dd = None  #PYX
    dd = None  #PY
    for k in dd:
        log.append(k)
    return 0, 0
'''


def source(pyx):
    out = ["# cython: language_level=3"] if pyx else []
    for line in TEMPLATE.split("\n"):
        s = line.rstrip()
        if s.endswith("#PYX"):
            if pyx:
                out.append(s[:-4].rstrip())
        elif s.endswith("#PY"):
            if not pyx:
                out.append(s[:-3].rstrip())
        else:
            out.append(s)
    return "\n".join(out) + "\n"


DRIVER = r"""
import sys, json, importlib, types
spec = json.load(sys.stdin)
cy = importlib.import_module("c14_cont")
py = types.ModuleType("c14_cont_py")
exec(compile(spec["pysrc"], "c14_cont_py", "exec"), py.__dict__)
def conv(x):
    # JSON -> python arguments: {"__d": [[k,v]..]} dict, {"__s": [...]} set, {"__b": hex} bytes, {"__h": {...}} history
    if isinstance(x, dict):
        if "__d" in x: return {conv(k): conv(v) for k, v in x["__d"]}
        if "__s" in x: return set(conv(k) for k in x["__s"])
        if "__b" in x: return bytes.fromhex(x["__b"])
        if "__h" in x: return {int(k): (tuple(conv(i) for i in v) if isinstance(v, list) else v) for k, v in x["__h"].items()}
        if "__t" in x: return tuple(conv(i) for i in x["__t"])
    if isinstance(x, list): return [conv(i) for i in x]
    return x
out = []
for fn, args in spec["cases"]:
    a1 = [conv(a) for a in args]; a2 = [conv(a) for a in args]
    r1 = cy._wrap(getattr(cy, fn), *a1)
    r2 = py._wrap(getattr(py, fn), *a2)
    same = repr(r1).lower() == repr(r2).lower() and repr(a1) == repr(a2)
    out.append([same, repr(r1)[:400], repr(r2)[:400]])
sys.stdout.write("\n" + json.dumps(out) + "\n")
"""


def D(pairs):
    return {"__d": [[k, v] for k, v in pairs]}


def H(h):
    return {"__h": {str(k): v for k, v in h.items()}}


def cases(quick, rng):
    C = []
    # ---- dict / set with mutation histories
    dict_fns = ["dict_keys", "dict_keys_m", "dict_values", "dict_items", "dict_items_t", "dict_untyped", "dict_enum"]
    sizes = [0, 1, 3, 5] if quick else [0, 1, 2, 3, 5, 8, 9]
    for n in sizes:
        keys = ["k%d" % i for i in range(n)]
        if n >= 3:
            keys[1] = 7           # mixed key types
        d = [(k, "v%d" % i) for i, k in enumerate(keys)]
        hists = [{}]
        for at in ([1, n] if quick else [1, 2, n]):
            if at < 1 or at > n:
                continue
            hists += [{at: ["add", "zz"]}, {at: ["set", keys[0]]}, {at: ["clear", None]}, {at: ["addel", "zz"]}]
            hists += [{at: ["del", keys[-1]]}, {at: ["del", keys[0]]}, {at: ["swap", keys[0]]}, {at: ["swap", keys[-1]]}]
            if at + 1 <= n:
                hists += [{at: ["add", "zz"], at + 1: ["del", "zz"]}, {at: ["del", keys[-1]], at + 1: ["add", "yy"]}]
        for h in hists:
            for fn in dict_fns:
                for brk in ([99] if h else [99, 2]):
                    C.append((fn, [D(d), H(h), brk], "dict/" + ("mutation" if h else "plain")))
        skeys = [{"__t": [i, "x"]} if i == 2 else i * 3 for i in range(n)]
        for h in hists:
            h2 = {}
            for at, (op, key) in h.items():
                if op == "set":
                    continue
                kk = key
                if key in keys:
                    kk = skeys[keys.index(key)]
                h2[at] = [op, kk]
            for fn in ("set_iter", "set_untyped", "fset_iter"):
                if fn == "fset_iter" and h2:
                    continue
                for brk in ([99] if h2 else [99, 2]):
                    C.append((fn, [{"__s": skeys}, H(h2), brk], "set/" + ("mutation" if h2 else "plain")))
    # ---- str / bytes
    strs = ["", "a", "abc", "a\xe9b", "€abĀ", "x\U0001F600y", "\udc80a", "aXa" * 3]
    for s in strs:
        for brk in (99, 2):
            for fn in ("str_iter", "str_iter_ucs4", "str_rev", "str_enum"):
                C.append((fn, [s, brk], "str"))
        for a, b in [(0, 2), (1, None), (None, -1), (-2, 99), (2, 1), (-99, 2)]:
            C.append(("str_slice", [s, a, b, 99], "str/slice"))
    byts = ["", "61", "616263", "00ff807f", "0102030405060708"]
    for s in byts:
        for brk in (99, 2):
            for fn in ("bytes_iter", "bytes_iter_uchar", "bytes_rev", "bytes_enum"):
                C.append((fn, [{"__b": s}, brk], "bytes"))
        for a, b in [(0, 2), (1, None), (None, -1), (-2, 99), (2, 1), (-99, 2)]:
            C.append(("bytes_slice", [{"__b": s}, a, b, 99], "bytes/slice"))
        for h in [{}, {1: "append"}, {1: "pop"}, {2: "clear"}, {1: "set"}, {1: "pop", 2: "pop"}, {1: "append", 2: "append"}]:
            for fn in ("bytearray_iter", "bytearray_rev"):
                C.append((fn, [{"__b": s}, H(h), 20], "bytearray/" + ("mutation" if h else "plain")))
    # ---- C arrays / literal sequences
    for vals in ([], [5], [1, 2, 3], [9, 8, 7, 6, 5, 4], [-1, 0, 2 ** 31 - 1, -2 ** 31]):
        for brk in (99, 2):
            for fn in ("carray_iter", "carray_rev"):
                C.append((fn, [vals, brk], "carray"))
        for a, b in [(0, 6), (1, 4), (2, 2), (3, 1), (0, 1), (5, 6)]:
            C.append(("carray_slice", [vals, a, b, 99], "carray/slice"))
            C.append(("carray_ptr", [vals, a, b, 99], "carray/ptr"))
    for fn in ("lit_str", "lit_bytes", "lit_tuple", "lit_tuple_rev"):
        for brk in (99, 1, 3):
            C.append((fn, [brk], "literal-seq"))
    for l in ([], [1], [1, 2, 3], list(range(6))):
        for h in [{}, {1: "append"}, {1: "pop"}, {2: "clear"}, {1: "pop", 2: "pop"}]:
            for fn in ("list_rev", "list_fwd"):
                C.append((fn, [l, H(h), 30], "list/" + ("mutation" if h else "plain")))
    for fn in ("none_dict", "none_set", "none_str", "none_bytes"):
        C.append((fn, [], "none"))
    return C


def classify(fn, args, r1, r2):
    """from the input: a dict loop whose history replaces a key by another one (size unchanged)"""
    hist = {}
    for a in args:
        if isinstance(a, dict) and "__h" in a:
            hist = a["__h"]
    ops = [v[0] for v in hist.values() if isinstance(v, list)]
    if fn.startswith("dict") and "swap" in ops:
        return "dict_same_size_key_replacement_not_detected"
    return "container_iteration_differs_" + fn.split("_")[0]


def run(ctx, quick):
    cs = cases(quick, ctx.rng)
    main = [c for c in cs if c[2] != "none"]
    r = cybuild.run_script(DRIVER, ctx.workdir, stdin_obj={"pysrc": source(False), "cases": [[c[0], c[1]] for c in main]},
                           timeout=900, name="cont_driver.py")
    if r["json"] is None:
        ctx.corr_break("container driver", "all cases", (r["err"] or r["out"])[-1500:], "results for every case")
        return
    nrep = {}
    for (fn, args, stratum), (same, r1, r2) in zip(main, r["json"]):
        inp = {"module": "c14_cont", "func": fn, "args": args}
        ctx.case("container/" + stratum, inp, sig=(fn, json.dumps(args, sort_keys=True)))
        if not same:
            kl = classify(fn, args, r1, r2)
            nrep[kl] = nrep.get(kl, 0) + 1
            if nrep[kl] <= (300 if kl in getattr(ctx, "known_classes", {}) else 3):
                ctx.fail(kl, inp, r1, r2, note="compiled vs the same body run by CPython")
    # iteration over a typed variable holding None: one subprocess per case (a crash is an observed outcome);
    # only the exception type is compared (the message text is not part of the property)
    for fn, args, stratum in cs:
        if stratum != "none":
            continue
        inp = {"module": "c14_cont", "func": fn, "args": args}
        ctx.case("container/none", inp, sig=(fn,))
        res = cybuild.call_cases(ctx.workdir, [["c14_cont._wrap", []]], setup="import c14_cont", alarm=20) if False else None
        r = cybuild.run_script("import c14_cont, json\nr = c14_cont._wrap(c14_cont.%s)\nprint(json.dumps(r[2]))\n" % fn,
                               ctx.workdir, timeout=120, name="none_driver.py")
        got = r["json"][0] if (r["rc"] == 0 and r["json"]) else "CRASH rc=%s %s" % (r["rc"], (r["err"] or "")[-160:].strip())
        if got != "TypeError":
            ctx.fail("typed_set_holding_None_iterated_without_check" if fn == "none_set" else "none_iteration_differs",
                     inp, got, "TypeError", note="CPython: 'NoneType' object is not iterable")
