"""C06 — C double arithmetic and float parsing match CPython (DESIGN 7/C06)."""
import json, math, os, re, struct, unicodedata
import cybuild

TITLE = "C double arithmetic and float parsing match CPython"
EXTRACTS = ["FloatOps", "AsDouble"]

# Which repaired variant of the model corresponds to the tree under test.  After a proposed fix
# has been applied to /repo flip the matching flag(s) to True (see proposed_fixes/C06-*.md):
#   mod  : CMath.c ModFloat branches on r != 0 / copysign           (C06-mod_float.diff)
#   fdiv : DivNode emits __Pyx_floordiv_<T> mirroring float_floor_div (C06-float_floordiv.diff)
#   us   : underscore rule "digit on both sides" in both _Copy loops  (C06-asdouble.diff)
#   le   : `i < end` in __Pyx__PyUnicode_AsDouble_Copy               (C06-asdouble.diff)
#   sp   : unicode path strips exactly what CPython's float() strips  (C06-asdouble.diff)
FIX = {"mod": True, "fdiv": True, "us": True, "le": True, "sp": True}

RULE = ("doubles: all 17x17 pairs of special values (+-0, +-inf, nan, +-min subnormal, +-min normal, +-max, +-1, "
        "+-0.1, +-5) plus PRNG pairs (random bit patterns, near-integer quotients, equal/opposite magnitudes) for each "
        "of + - * / // % and the six comparisons, int(d)/round(d) on the operands; strings: a float grammar (sign, "
        "digits, point, exponent) with an underscore inserted at every position, every ASCII/non-ASCII space as "
        "prefix/suffix, inf/nan spellings and near misses, non-ASCII digits, lengths 38-41 and 200+, plus a malformed "
        "random stream; each string as str (typed and object), bytes and bytearray; distinct by (function, input)")
EXPLANATION = ("theorems: ModFloat (repaired) = CPython float_rem for every pair of doubles and every fmod; the current "
               "ModFloat is refuted (x % inf = nan, +0 remainder for negative divisors) and proved equal on the exact "
               "complement; floor(a/b) refuted against float_floor_div, repaired helper = float_floor_div; the float() "
               "pre-scanner (repaired) never writes outside its buffer, and whatever it hands to the C parser is the "
               "stripped input without underscores with CPython's underscore rule satisfied and is what CPython hands "
               "to the same parser; current scanner refuted (1e+_5, off-by-one copy, 0x1c-0x1f stripped). "
               "partial: + - * / and comparisons are the same IEEE operation on both sides (compared only), "
               "int()/round() of doubles and C float (binary32) operands are compared differentially only.")
TRUSTED = ["libm fmod/floor: exact Gallina implementations fmod_exact/floor_exact run in the model; the theorems hold for "
           "every fmod (the repaired code calls it exactly like CPython does)",
           "Coq.Floats.SpecFloat operations (prec 53, emax 1024) as the meaning of C double + - * / and comparisons",
           "PyOS_string_to_double: the same C parser is called by both sides; the harness emulates 'consumes the whole "
           "string' with a regular expression for the strtod grammar",
           "Py_UNICODE_ISSPACE / Py_UNICODE_TODECIMAL tables transcribed in M_AsDouble.v / taken from unicodedata",
           "oracle: CPython 3.12 float.__mod__, __floordiv__, float(), int(), round() in the check process",
           "AddressSanitizer (gcc 12) as the observer of out-of-bounds writes"]
ASSUMPTIONS = ["IEEE-754 binary64 doubles, SSE2 arithmetic, gcc without -ffast-math",
               "bytes/bytearray/str buffers carry a terminating NUL (CPython object layout)",
               "sign of a NaN result is not compared (NaN-ness is)"]

INF = float("inf")
NAN = float("nan")

# ----------------------------------------------------------------------------- doubles

def tok(x):
    """double -> model token (spec_float constructor)"""
    if x != x:
        return "n"
    bits = struct.unpack("<Q", struct.pack("<d", x))[0]
    s, E, Fr = bits >> 63, (bits >> 52) & 0x7ff, bits & ((1 << 52) - 1)
    if E == 0x7ff:
        return "i%d" % s
    if E == 0 and Fr == 0:
        return "z%d" % s
    if E == 0:
        return "f%d:%d:%d" % (s, Fr, -1074)
    return "f%d:%d:%d" % (s, Fr | (1 << 52), E - 1075)


def untok(t):
    """model token -> canonical text (float.hex() / 'nan' / exception name)"""
    if t == "n":
        return "nan"
    if t[0] == "z":
        return (-0.0 if t[1] == "1" else 0.0).hex()
    if t[0] == "i":
        return (-INF if t[1] == "1" else INF).hex()
    if t[0] == "f":
        s, m, e = t[1:].split(":")
        v = math.ldexp(int(m), int(e))
        return (-v if s == "1" else v).hex()
    return t


def fhex(x):
    return "nan" if x != x else x.hex()


SPECIALS = [0.0, -0.0, INF, -INF, NAN, 5e-324, -5e-324, 2.2250738585072014e-308, -2.2250738585072014e-308,
            1.7976931348623157e308, -1.7976931348623157e308, 1.0, -1.0, 0.1, -0.1, 5.0, -5.0]

BINOPS = [("add", "+"), ("sub", "-"), ("mul", "*"), ("tdiv", "/"), ("fdiv", "//"), ("mod", "%"),
          ("lt", "<"), ("le", "<="), ("eq", "=="), ("ne", "!="), ("gt", ">"), ("ge", ">=")]


def ops_source():
    L = ["# cython: language_level=3", ""]
    for nm, sym in BINOPS:
        L += ["def ap_%s(list xs, list ys):" % nm, "    cdef double a, b", "    cdef Py_ssize_t i", "    out = []",
              "    for i in range(len(xs)):", "        a = xs[i]; b = ys[i]",
              "        try:", "            out.append(a %s b)" % sym,
              "        except ZeroDivisionError:", "            out.append('ZeroDivisionError')",
              "        except Exception as e:", "            out.append(type(e).__name__)",
              "    return out", ""]
    for nm, expr in [("int", "int(a)"), ("round", "round(a)")]:
        L += ["def un_%s(list xs):" % nm, "    cdef double a", "    out = []", "    for x in xs:", "        a = x",
              "        try:", "            out.append(%s)" % expr,
              "        except Exception as e:", "            out.append(type(e).__name__)",
              "    return out", ""]
    return "\n".join(L)


# ---- a double CONSTANT combined with an untyped operand (Optimize.c: PyFloatBinop fast paths for exact float / int
#      operands, zero-division tests, fallback to the generic number protocol)
OC_CONSTS = ["1.5", "-2.25", "0.0", "2.0", "1e300", "0.5"]
OC_OPS = [("add", "+"), ("sub", "-"), ("mul", "*"), ("tdiv", "/"), ("fdiv", "//"), ("mod", "%"), ("eq", "=="), ("ne", "!="),
          ("lt", "<"), ("ge", ">=")]
OC_ARGS = ["0", "1", "-1", "7", "2**30", "-2**30", "2**53 + 1", "2**62", "2**70", "-2**70", "10**400", "True", "False",
           "0.0", "-0.0", "1.5", "-2.25", "float('inf')", "float('-inf')", "float('nan')", "5e-324", "None", "'s'", "1j",
           "Fraction(1, 2)", "Fraction(0)", "Dec('0')"]


def objconst_source():
    L = ["# cython: language_level=3", ""]
    for ci, c in enumerate(OC_CONSTS):
        for nm, sym in OC_OPS:
            L += ["def oc_%s_l%d(x):" % (nm, ci), "    return %s %s x" % (c, sym), "",
                  "def oc_%s_r%d(x):" % (nm, ci), "    return x %s %s" % (sym, c), "",
                  "def oc_%s_i%d(x):" % (nm, ci), "    x %s= %s" % (sym, c) if nm not in ("eq", "ne", "lt", "ge") else "    pass",
                  "    return x", ""]
    return "\n".join(L)


OC_WORKER = r"""
import sys, json, math
from fractions import Fraction
from decimal import Decimal as Dec
import c06oc
spec = json.load(sys.stdin)
def canon(v):
    if isinstance(v, float):
        return "float:" + (v.hex() if v == v else "nan")
    return type(v).__name__ + ":" + repr(v)
out = []
for fn, arg, pyexpr in spec:
    x = eval(arg)
    try:
        g = canon(getattr(c06oc, fn)(x))
    except BaseException as e:
        g = "EXC:" + type(e).__name__
    x = eval(arg)
    try:
        e_ = canon(eval(pyexpr, {"x": x}))
    except BaseException as e:
        e_ = "EXC:" + type(e).__name__
    out.append([g, e_])
print(json.dumps(out))
"""


def run_objconst(ctx, quick):
    cases = []
    for ci, c in enumerate(OC_CONSTS):
        for nm, sym in OC_OPS:
            for a in OC_ARGS:
                cases.append(("oc_%s_l%d" % (nm, ci), a, "%s %s x" % (c, sym)))
                cases.append(("oc_%s_r%d" % (nm, ci), a, "x %s %s" % (sym, c)))
                if nm not in ("eq", "ne", "lt", "ge"):
                    cases.append(("oc_%s_i%d" % (nm, ci), a, "x %s %s" % (sym, c)))
    if quick:
        cases = [c for i, c in enumerate(cases) if i % 3 == ctx.rng.randrange(3) or "0" == c[1] or c[1] in ("0.0", "-0.0", "False")]
    res = cybuild.run_script(OC_WORKER, ctx.workdir, stdin_obj=cases, timeout=900)
    if res["json"] is None:
        ctx.corr_break("objconst worker", "c06oc", "rc=%s %s" % (res["rc"], (res["err"] or "")[-600:]), "worker runs")
        return
    for (fn, a, expr), (g, e_) in zip(cases, res["json"]):
        inp = {"function": fn, "x": a, "python": expr}
        ctx.case("objconst/%s" % fn.split("_")[1], inp, sig=(fn, a))
        if g != e_:
            zero = a in ("0", "0.0", "-0.0", "False", "Fraction(0)", "Dec('0')")
            ctx.fail("float_constant_binop_%s" % ("zero_operand" if zero else "wrong_result"), inp, g, e_)


def rand_double(rng):
    k = rng.random()
    if k < 0.35:
        return struct.unpack("<d", struct.pack("<Q", rng.getrandbits(64)))[0]
    if k < 0.55:
        return rng.choice([-1, 1]) * rng.randrange(0, 1 << 20) / rng.choice([1, 2, 4, 8, 3, 10, 1000])
    if k < 0.75:
        return rng.choice([-1, 1]) * math.ldexp(rng.random(), rng.randrange(-60, 60))
    if k < 0.85:
        return rng.choice([-1, 1]) * math.ldexp(rng.randrange(1, 1 << 53), rng.randrange(-1080, 970))
    return rng.choice(SPECIALS)


def rand_pairs(rng, n):
    ps = []
    while len(ps) < n:
        a = rand_double(rng)
        k = rng.random()
        if k < 0.25 and a == a and abs(a) != INF and a != 0:
            # quotient close to an integer: b = a / n, perturbed by a few ulps
            q = rng.randrange(1, 1 << rng.randrange(1, 30))
            b = a / q
            for _ in range(rng.randrange(0, 3)):
                b = math.nextafter(b, rng.choice([-INF, INF]))
            b = b * rng.choice([-1, 1])
        elif k < 0.35:
            b = rng.choice([a, -a, 2 * a if abs(a) < 1e300 else a, a / 2])
        elif k < 0.45:
            b = rng.choice([0.1, 0.2, 0.3, 0.7, 1e-3, 3.0, 7.0, 10.0, -0.1, -3.0, -10.0, 0.01])
        else:
            b = rand_double(rng)
        ps.append((a, b))
    return ps


def py_binop(sym, a, b):
    try:
        r = eval("a %s b" % sym, {"a": a, "b": b})
    except ZeroDivisionError:
        return "ZeroDivisionError"
    if isinstance(r, bool):
        return repr(r)
    return fhex(r)


def is_fin(x):
    return x == x and abs(x) != INF


def classify_op(nm, a, b):
    """finding class of a failing (op, a, b), from the input only"""
    if nm == "mod":
        if abs(b) == INF and is_fin(a) and (a == 0 or (a < 0) == (b < 0)):
            return "mod_inf_divisor_gives_nan"
        if is_fin(a) and is_fin(b) and b < 0 and math.copysign(1, a) > 0 and math.fmod(a, b) == 0:
            return "mod_zero_remainder_sign_negative_divisor"
    if nm == "fdiv":
        if abs(b) == INF and is_fin(a) and a != 0 and (a < 0) != (b < 0):
            return "floordiv_inf_divisor_opposite_sign"
        if abs(a) == INF and is_fin(b) and b != 0:
            return "floordiv_inf_dividend"
        if is_fin(a) and is_fin(b) and b != 0 and a != 0 and fhex(float(math.floor(a / b)) if is_fin(a / b) else a / b) != fhex(a // b):
            # floor of the rounded quotient differs from CPython's fmod-based floor division
            return "floordiv_rounded_quotient"
    return nm + "_wrong_result"


def run_doubles(ctx, quick):
    model = ctx.model("floatops")
    pairs = [(a, b) for a in SPECIALS for b in SPECIALS]
    nspecial = len(pairs)
    pairs += rand_pairs(ctx.rng, 1000 if quick else 30000)
    xs = [p[0] for p in pairs]
    ys = [p[1] for p in pairs]
    calls = [["c06ops.ap_%s" % nm, [xs, ys]] for nm, _ in BINOPS]
    calls += [["c06ops.un_int", [xs]], ["c06ops.un_round", [xs]]]
    res = cybuild.call_cases(ctx.workdir, calls, setup="import c06ops", alarm=300)
    mcmd = {"add": "add", "sub": "sub", "mul": "mul", "tdiv": "tdiv", "lt": "lt", "le": "le", "eq": "eq",
            "fdiv": "fdiv %d" % FIX["fdiv"], "mod": "mod %d" % FIX["mod"]}
    for (nm, sym), r in zip(BINOPS, res):
        if "e" in r:
            ctx.corr_break("ops:" + nm, {"op": nm}, r, "list of results")
            continue
        got = [(x["r"].strip("'") if x["t"] != "float" else x["r"]) for x in r["r"]]
        # model
        if nm in ("ne", "gt", "ge"):
            base = {"ne": "eq", "gt": "lt", "ge": "le"}[nm]
            q = ["%s %s %s" % (base, tok(b), tok(a)) if nm != "ne" else "eq %s %s" % (tok(a), tok(b)) for a, b in pairs]
            mr = model.batch(q)
            mr = [repr((m == "0") if nm == "ne" else (m == "1")) for m in mr]
        else:
            mr = model.batch(["%s %s %s" % (mcmd[nm], tok(a), tok(b)) for a, b in pairs])
            mr = [repr(m == "1") for m in mr] if nm in ("lt", "le", "eq") else [untok(m) for m in mr]
        nbad = 0
        for i, ((a, b), g, m) in enumerate(zip(pairs, got, mr)):
            exp = py_binop(sym, a, b)
            inp = {"op": nm, "a": fhex(a), "b": fhex(b)}
            stratum = "double/%s/%s" % (nm, "special" if i < nspecial else "prng")
            ctx.case(stratum, inp, sig=(nm, fhex(a), fhex(b)))
            if g != m and nbad < 8:
                ctx.corr_break("floatops:" + nm, inp, g, m); nbad += 1
            if g != exp:
                ctx.fail(classify_op(nm, a, b), inp, g, exp, note="model says %s" % m)
        # the model of CPython's own algorithm against CPython (validates the specification side)
        if nm in ("mod", "fdiv"):
            pr = model.batch(["%s %s %s" % ("pymod" if nm == "mod" else "pyfdiv", tok(a), tok(b)) for a, b in pairs])
            nbad = 0
            for (a, b), p in zip(pairs, pr):
                if untok(p) != py_binop(sym, a, b) and nbad < 8:
                    ctx.corr_break("floatops:py_" + nm + " vs CPython", {"a": fhex(a), "b": fhex(b)},
                                   py_binop(sym, a, b), untok(p)); nbad += 1
    ctx.extra.setdefault("exhaustive_domains", []).append(
        "17x17 special doubles for each of %d binary operators" % len(BINOPS))
    # int(d), round(d): differential only
    for nm, r, f in [("int", res[-2], int), ("round", res[-1], round)]:
        if "e" in r:
            ctx.corr_break("ops:" + nm, {"op": nm}, r, "list of results")
            continue
        for x, g in zip(xs, r["r"]):
            try:
                exp = repr(f(x))
            except Exception as e:
                exp = type(e).__name__
            gv = g["r"].strip("'")
            ctx.case("double/%s" % nm, {"op": nm, "a": fhex(x)}, sig=(nm, fhex(x)))
            if gv != exp:
                ctx.fail("%s_of_double_wrong" % nm, {"op": nm, "a": fhex(x)}, gv, exp)


# ----------------------------------------------------------------------------- strings

ASCII_WS = [" ", "\t", "\n", "\x0b", "\x0c", "\r"]
SEP_WS = ["\x1c", "\x1d", "\x1e", "\x1f"]
UNI_WS = ["\x85", "\xa0", "\u1680", "\u2000", "\u2003", "\u200a", "\u2028", "\u2029", "\u202f", "\u205f", "\u3000"]
NOT_WS = ["\x00", "\x7f", "\u200b", "\ufeff", "\x08", "\x0e", "\u180e"]
UNI_DIGITS = ["\u0660", "\u0669", "\uff10", "\uff19", "\u0966", "\xb2", "\u2460", "\U0001d7d8"]

STR_SRC = """# cython: language_level=3
def many_str(list ss):
    cdef str s
    out = []
    for o in ss:
        s = o
        try:
            out.append(float(s))
        except Exception as e:
            out.append(type(e).__name__)
    return out
def many_bytes(list ss):
    cdef bytes s
    out = []
    for o in ss:
        s = o
        try:
            out.append(float(s))
        except Exception as e:
            out.append(type(e).__name__)
    return out
def many_ba(list ss):
    cdef bytearray s
    out = []
    for o in ss:
        s = o
        try:
            out.append(float(s))
        except Exception as e:
            out.append(type(e).__name__)
    return out
def many_obj(list ss):
    out = []
    for s in ss:
        try:
            out.append(float(s))
        except Exception as e:
            out.append(type(e).__name__)
    return out
def one_str(str s):
    return float(s)
def one_obj(s):
    return float(s)
"""

STRTOD_RE = re.compile(r"[+-]?(\d+\.?\d*|\.\d+)([eE][+-]?\d+)?")
INFNAN_RE = re.compile(r"[+-]?(inf(inity)?|nan)", re.I)


def gen_strings(rng, quick):
    S = []
    bases = ["0", "1", "12", "1.5", ".5", "5.", "1e5", "1E5", "1e+5", "1e-5", "1.5e10", "12.34e-56", "1e400", "1e-400",
             "123456789", "0.000001", "1.e5", ".5e1", "00012", "9" * 20, "1.7976931348623157e308", "4.9e-324"]
    signs = ["", "+", "-"]
    for b in bases:
        for sg in signs:
            S.append(sg + b)
    # an underscore (or two) at every position
    for b in bases + ["+1e+5", "-1.5e-10", "+12.5"]:
        for i in range(len(b) + 1):
            S.append(b[:i] + "_" + b[i:])
        for _ in range(3):
            i, j = sorted((rng.randrange(len(b) + 1), rng.randrange(len(b) + 1)))
            S.append(b[:i] + "_" + b[i:j] + "_" + b[j:])
    # whitespace prefixes / suffixes
    allws = ASCII_WS + SEP_WS + UNI_WS + NOT_WS
    for w in allws:
        for b in ["1.5", "1_0", "inf", "-nan", "1e+_5", "12"]:
            S += [w + b, b + w, w + b + w, w + w + b + " ", b[:1] + w + b[1:]]
    for _ in range(120 if quick else 1500):
        b = rng.choice(bases + ["1_000", "1_0.0_1e1_0", "inf", "nan", "Infinity"])
        pre = "".join(rng.choice(allws) for _ in range(rng.randrange(0, 3)))
        suf = "".join(rng.choice(allws) for _ in range(rng.randrange(0, 3)))
        S.append(pre + rng.choice(signs) + b + suf)
    S += ["", " ", "  ", " ", "  ", "\x1c", "+", "-", ".", "_", "e5", "+.", "-_", " +", " .", " ._"]
    # inf / nan spellings and near misses
    for w in ["inf", "infinity", "nan"]:
        for sg in signs:
            S += [sg + w, sg + w.upper(), sg + w.title(), sg + "".join(rng.choice([c, c.upper()]) for c in w)]
            S += [sg + w[:-1], sg + w + "x", sg + w + "_", sg + "_" + w, sg + w[:2] + "_" + w[2:], sg + sg + w,
                  " " + sg + w, sg + w + " ", " " + sg + w + "\x1c", "\x1d" + sg + w + "\xa0",
                  sg + w + "\x00", sg + " " + w, sg + w[:3] + "inite", sg + w + "1"]
    S += ["infinit", "infinityy", "in", "i", "n", "na", "nani", "iNfInItY", "-iNf", "+NaN", "nan()", "infe5", "1inf", "0xinf"]
    # non-ASCII digits
    for d in UNI_DIGITS:
        S += [d, "1" + d, d + "." + d, d + "_" + d, " " + d, d + "e" + d, "-" + d, d * 40, "1_" + d, d + "_1"]
    # lengths 38..41 (stack buffer boundary) and 200+
    for n in [37, 38, 39, 40, 41, 42, 200, 257]:
        for pre in ["", " ", " ", "\xa0　"]:
            for suf in ["", " ", " "]:
                body = "1" * n
                S.append(pre + body + suf)
                S.append(pre + body[: n // 2] + "." + body[n // 2 + 1:] + suf)
                S.append(pre + body[: n - 4] + "e+05"[: 4] + suf)
                S.append(pre + "-" + body[1:] + suf)
        # underscores making the digit count cross 40 while the length does not, and vice versa
        for k in [1, 2, 5]:
            body = list("7" * n)
            for j in range(1, k + 1):
                body[(j * n) // (k + 1)] = "_"
            S += ["".join(body), " " + "".join(body), "".join(body) + " ", "".join(body) + "_",
                  "_" + "".join(body), "".join(body).replace("_", "__", 1)]
        S.append("1_" * (n // 2) + "1")
        S.append(" " + "1_" * (n // 2) + "1")
    # malformed stream
    alpha = "0123456789" * 2 + "__..eE+-  \t\x00xXninfatyINFAT １\x7f\x1c\xa0"
    for _ in range(300 if quick else 20000):
        S.append("".join(rng.choice(alpha) for _ in range(rng.randrange(1, 12))))
    for _ in range(200 if quick else 8000):
        # mutated valid numbers
        b = list(rng.choice(signs) + rng.choice(bases))
        for _ in range(rng.randrange(1, 3)):
            i = rng.randrange(len(b) + 1)
            if rng.random() < 0.5:
                b.insert(i, rng.choice("_eE.+-0 \x1c \x00"))
            elif b and i < len(b):
                b[i] = rng.choice("_eE.+-9")
        S.append("".join(b))
    seen, out = set(), []
    for s in S:
        if s not in seen:
            seen.add(s); out.append(s)
    return out


def cps(s):
    return ",".join(str(ord(c)) for c in s) if len(s) else "-"


def cpb(b):
    return ",".join(str(c) for c in b) if len(b) else "-"


def dec_of(c):
    try:
        return unicodedata.decimal(c)
    except ValueError:
        return -1


def finish(cl):
    """what `PyOS_string_to_double(s, &end, NULL)` + `end == last` gives for the char list cl:
    ('val', hex) | ('noconv',) -> ValueError raised by the parser | ('notwhole',)"""
    try:
        s = "".join(chr(c) for c in cl)
    except ValueError:
        return ("notwhole",)
    m = STRTOD_RE.match(s) or INFNAN_RE.match(s)
    if m is None or m.end() == 0:
        # inf/nan spellings never reach this point with a digit or '.' first; a lone sign/point: no conversion
        return ("noconv",)
    if m.end() != len(s):
        return ("notwhole",)
    return ("val", fhex(float(s)))


def py_float(x):
    try:
        return fhex(float(x))
    except Exception as e:
        return type(e).__name__


def predict(mres, orig):
    """outcome predicted by the scanner model for input `orig` (str/bytes)"""
    if mres == "FB":
        return py_float(orig)
    if mres.startswith("SP "):
        _, n, k = mres.split()
        return "nan" if k == "1" else fhex(-INF if n == "1" else INF)
    if mres.startswith("P"):
        body = mres[2:].strip()
        cl = [int(t) for t in body.split(",")] if body not in ("", "-") else []
        f = finish(cl)
        if f[0] == "val":
            return f[1]
        if f[0] == "noconv":
            return "ValueError"
        return py_float(orig)
    if mres in ("OOBW", "OOBR"):
        return None           # undefined behaviour in C: no value predicted
    return "!model:" + mres


SEP_RE = re.compile("[\x1c-\x1f]")
EXPUS_RE = re.compile(r"[eE][+-]_")


def classify_str(kind, s):
    """finding class of a failing float(s), from the input only"""
    txt = s if isinstance(s, str) else bytes(s).decode("latin-1")
    if EXPUS_RE.search(txt):
        return "underscore_after_exponent_sign_accepted"
    if kind in ("str", "obj") and isinstance(s, str) and not s.isascii() and SEP_RE.search(s):
        core = s.strip().lstrip("+-").lower()
        if core in ("inf", "infinity", "nan"):
            return "uni_infnan_ascii_separator_stripped"
    return "float_%s_wrong_result" % kind


def run_strings(ctx, quick, asan_ok):
    model = ctx.model("asdouble")
    strs = gen_strings(ctx.rng, quick)
    byt = [s.encode("utf-8", "surrogatepass") for s in strs]
    # a few raw byte strings that are not valid UTF-8
    byt += [b"\xa01.5", b"1.5\xa0", b"\x851", b"1\xff", b"\xe2\x80\x831_0", b"1_0\x00", b"1\x00_0", b" 1_0\x00 "]
    calls = [["c06str.many_str", [strs]], ["c06str.many_obj", [strs]],
             ["c06str.many_bytes", [{"py": "[bytes.fromhex(x) for x in %r]" % [b.hex() for b in byt]}]],
             ["c06str.many_ba", [{"py": "[bytearray.fromhex(x) for x in %r]" % [b.hex() for b in byt]}]],
             ["c06str.many_obj", [{"py": "[bytes.fromhex(x) for x in %r]" % [b.hex() for b in byt]}]]]
    res = cybuild.call_cases(ctx.workdir, calls, setup="import c06str", alarm=600)
    fl = "%d %d %d" % (FIX["le"], FIX["us"], FIX["sp"])
    m_str = model.batch(["ss %s %s" % (fl, cps(s)) for s in strs])
    m_byt = model.batch(["sb %d %s" % (FIX["us"], cpb(b)) for b in byt])
    p_str = model.batch(["ps %s %s" % (cps(s), ",".join(str(dec_of(c)) for c in s) if s else "-") for s in strs])
    p_byt = model.batch(["pb %s" % cpb(b) for b in byt])
    oob = []
    plan = [("str", strs, m_str, res[0]), ("obj", strs, m_str, res[1]), ("bytes", byt, m_byt, res[2]),
            ("bytearray", byt, m_byt, res[3]), ("obj", byt, m_byt, res[4])]
    for kind, inputs, mres, r in plan:
        if "e" in r:
            ctx.corr_break("str:" + kind, {"kind": kind}, r, "list of results")
            continue
        got = [(x["r"].strip("'") if x["t"] != "float" else x["r"]) for x in r["r"]]
        nbad = 0
        for s, m, g in zip(inputs, mres, got):
            exp = py_float(s)
            shown = s if isinstance(s, str) else "hex:" + s.hex()
            inp = {"kind": kind, "s": shown}
            nonascii = (isinstance(s, str) and not s.isascii())
            stratum = "float(%s)/%s/%s" % (kind, "nonascii" if nonascii else "ascii",
                                           {"F": "fallback", "S": "infnan", "P": "parse", "O": "oob"}.get(m[0], "?"))
            ctx.case(stratum, inp, sig=(kind, shown))
            pred = predict(m, s)
            if pred is None:
                if kind == "str":
                    oob.append(s)
            elif pred != g and nbad < 8:
                ctx.corr_break("asdouble:scan_" + kind, inp, g, "%s (model %s)" % (pred, m[:60])); nbad += 1
            if g != exp:
                ctx.fail(classify_str(kind, s), inp, g, exp, note="model says %s" % m[:80])
    # CPython's own pre-scan as modelled (specification side of the theorems) against CPython
    nbad = 0
    for inputs, pres in [(strs, p_str), (byt, p_byt)]:
        for s, p in zip(inputs, pres):
            if p == "ERR":
                pv = "ValueError"
            else:
                body = p[2:].strip()
                f = finish([int(t) for t in body.split(",")] if body not in ("", "-") else [])
                pv = f[1] if f[0] == "val" else "ValueError"
            if pv != py_float(s) and nbad < 8:
                ctx.corr_break("asdouble:py_scan vs CPython", {"s": s if isinstance(s, str) else "hex:" + s.hex()},
                               py_float(s), "%s (model %s)" % (pv, p[:60])); nbad += 1
    ctx.count("pyscan-model-vs-cpython", len(strs) + len(byt))
    # out-of-bounds writes: model verdict against AddressSanitizer, one call per string
    if not asan_ok:
        ctx.note("ASan build unavailable: OOB predictions not replayed")
        return
    clean = [s for s, m in zip(strs, m_str) if m not in ("OOBW", "OOBR") and not s.isascii()]
    clean = sorted(clean, key=len, reverse=True)[:25] + ctx.rng.sample(clean, min(len(clean), 60 if quick else 600))
    oob = sorted(oob, key=len)
    if len(oob) > (5 if quick else 60):
        # shortest (stack buffer), longest (heap buffer) and a sample
        k = 5 if quick else 60
        oob = oob[:2] + oob[-2:] + ctx.rng.sample(oob[2:-2], k - 4)
    ar = asan_calls(os.path.join(ctx.workdir, "asan"), oob + clean)
    for i, (s, r) in enumerate(zip(oob + clean, ar)):
        predicted = i < len(oob)
        hit = r.get("e") == "CRASH"
        inp = {"kind": "str", "s": s, "asan": True}
        ctx.case("float(str)/asan/%s" % ("oob-predicted" if predicted else "clean-predicted"), inp, sig=("asan", s))
        if r.get("e") == "WORKER":
            ctx.corr_break("asdouble:asan worker", inp, r, "runs")
            break
        if hit != predicted:
            ctx.corr_break("asdouble:oob", inp, "ASan: %s" % (r.get("m", "")[-160:] if hit else "no report"),
                           "model: %s" % ("OOBWrite" if predicted else "in bounds"))
        if hit:
            ctx.fail("uni_copy_off_by_one_buffer_overflow" if predicted else "float_str_memory_error", inp,
                     "AddressSanitizer: " + r.get("m", "")[-200:], "no out-of-bounds access")


ASAN_LIB = "/usr/lib/gcc/x86_64-linux-gnu/12/libasan.so"

ASAN_DRIVER = """
import sys, json
spec = json.load(sys.stdin)
import c06asan
for i in range(spec["start"], len(spec["strs"])):
    print(json.dumps({"begin": i}), flush=True)
    try:
        r = {"i": i, "r": repr(c06asan.one_str(spec["strs"][i]))}
    except Exception as e:
        r = {"i": i, "e": type(e).__name__}
    print(json.dumps(r), flush=True)
"""


def asan_calls(workdir, strs):
    """one_str(s) for each s under AddressSanitizer (callworker's RLIMIT_AS is incompatible with the
    ASan shadow mapping, hence a driver of our own); an ASan report kills the process: the case
    is marked CRASH with the report tail and the run resumes after it."""
    env = {"ASAN_OPTIONS": "detect_leaks=0", "PYTHONMALLOC": "malloc", "LD_PRELOAD": ASAN_LIB}
    out = [None] * len(strs)
    start = 0
    while start < len(strs):
        r = cybuild.run_script(ASAN_DRIVER, workdir, {"strs": strs, "start": start}, timeout=600, extra_env=env,
                               name="asan_driver.py")
        begun = None
        for line in r["out"].splitlines():
            try:
                d = json.loads(line)
            except Exception:
                continue
            if "begin" in d:
                begun = d["begin"]
            elif "i" in d:
                out[d["i"]] = d
                begun = None
        if begun is None:
            if any(o is None for o in out[start:]):
                for k in range(start, len(strs)):
                    if out[k] is None:
                        out[k] = {"e": "WORKER", "m": "rc=%s %s" % (r["rc"], r["err"][-300:])}
            break
        m = re.search(r"AddressSanitizer: ([a-z-]+).*?(WRITE|READ) of size (\d+)(?:.*?in (\w+))?", r["err"], re.S)
        out[begun] = {"e": "CRASH", "m": " ".join(x or "" for x in m.groups()) if m else r["err"][-200:]}
        start = begun + 1
    return out


def build_all(ctx):
    specs = [dict(name="c06ops", source=ops_source(), workdir=ctx.workdir),
             dict(name="c06str", source=STR_SRC, workdir=ctx.workdir),
             dict(name="c06oc", source=objconst_source(), workdir=ctx.workdir, cflags=["-O0"]),
             dict(name="c06asan", source=STR_SRC, workdir=os.path.join(ctx.workdir, "asan"),
                  cflags=["-O1", "-g", "-fsanitize=address", "-fno-omit-frame-pointer"])]
    built = cybuild.build_many(specs, jobs=4)
    ok = True
    for (so, err), sp in list(zip(built, specs))[:3]:
        if err is not None:
            ctx.corr_break("build " + sp["name"], sp["name"], str(err)[:1500], "module builds")
            ok = False
    asan_ok = built[3][1] is None and os.path.exists(ASAN_LIB)
    return ok, asan_ok


def run(ctx):
    quick = ctx.tier == "quick"
    ok, asan_ok = build_all(ctx)
    if not ok:
        return
    import time
    t0 = time.time()
    run_doubles(ctx, quick)
    t1 = time.time()
    run_strings(ctx, quick, asan_ok)
    run_objconst(ctx, quick)
    ctx.note("wall: doubles %.1fs, strings+asan %.1fs" % (t1 - t0, time.time() - t1))


def replay(ctx, obj):
    inp = obj["input"]
    ok, asan_ok = build_all(ctx)
    if "op" in inp:
        a, b = float.fromhex(inp["a"]) if inp["a"] != "nan" else NAN, None
        if "b" in inp:
            b = float.fromhex(inp["b"]) if inp["b"] != "nan" else NAN
            r = cybuild.call_cases(ctx.workdir, [["c06ops.ap_%s" % inp["op"], [[a], [b]]]], setup="import c06ops")
        else:
            r = cybuild.call_cases(ctx.workdir, [["c06ops.un_%s" % inp["op"], [[a]]]], setup="import c06ops")
    else:
        s = inp["s"]
        kind = inp["kind"]
        arg = s
        if s.startswith("hex:"):
            arg = {"py": ("bytearray" if kind == "bytearray" else "bytes") + ".fromhex(%r)" % s[4:]}
        if inp.get("asan"):
            r = asan_calls(os.path.join(ctx.workdir, "asan"), [s])
        else:
            r = cybuild.call_cases(ctx.workdir, [["c06str.one_obj", [arg]]], setup="import c06str")
    print("replayed:", json.dumps(inp), "->", r[0], "expected", obj.get("expected"))
