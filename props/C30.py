"""C30 — cdef dataclasses behave like standard dataclasses (DESIGN 7/C30)."""
import os, re, json, itertools
import cybuild, framework

TITLE = "cdef dataclasses behave like standard dataclasses"
EXTRACTS = ["Dataclass"]
RULE = ("a case = (decorator options, what the class body defines itself, field list of <= 5 fields with "
        "default kind none/value/factory, init, repr, compare, hash None/True/False, field kw_only, InitVar, type "
        "object/int/double/str).  Level 1 (decisions): every case is run through the real Dataclass.py inside the "
        "real compiler front end and the generated method source (def __init__(...), __repr__, __eq__, the four "
        "ordering methods, __hash__, __match_args__, compile errors) is parsed; the same class text is executed "
        "by CPython with dataclasses.dataclass and its decisions are derived from inspect.signature and behaviour. "
        "Level 2 (compiled): a sample is built to extension modules and the same operations are run on the cdef "
        "class and on the Python class (constructor calls by position/keyword/omission, repr, six comparisons against "
        "per-field variants, hash, frozen set/del, fields/asdict/astuple/replace/copy, special values None/nan/sets).  "
        "Exhaustive in the thorough tier (sampled in quick): all 256 option sets on two fixed field lists, all 72 flag "
        "sets of one field, all default/init patterns of two fields; the rest PRNG.  Distinct by the case text; "
        "non-trivial = at least one field or a non-default option")
EXPLANATION = ("theorems (all field lists / options): __init__ parameter list incl. the non-default-after-default error, "
               "repr/compare/hash field tuples, the 16-row hash action table (also re-proved by computation over the "
               "tables dumped from the running Dataclass.py and dataclasses.py), __match_args__, attribute sources, "
               "rejected classes: Cython decision = dataclasses.py decision on the stated complement of the finding "
               "classes (each finding has a _refuted theorem); the generated comparison cascade = tuple comparison for "
               "element types obeying the comparison contract (integers do). partial: only the synthesis decisions are "
               "modelled; the generated method bodies themselves (C code of __init__/__repr__/__eq__/__hash__, type "
               "conversions of typed fields, frozen enforcement via readonly attributes, fields()/asdict()/replace()) "
               "are compared by test only")
LEVEL_TEXT = ("partial: machine-checked equality of the synthesis decisions of Dataclass.py with those of CPython 3.12 "
              "dataclasses.py for all field lists and option combinations (modulo the registered finding classes, each "
              "refuted by a witness), tied to the code by parsing the method source Dataclass.py really generates and by "
              "compiled behaviour vs dataclasses.dataclass; the generated C is not modelled")
TRUSTED = ["CPython 3.12 dataclasses module as the property oracle (run, not modelled) and its transcription py_* in M_Dataclass.v (tied by test)",
           "the parser of the generated method source in props/C30.py (parse_cy_text)",
           "inspect.signature and instance behaviour as observers of the Python class's decisions",
           "gcc as a conforming C compiler for the generated modules"]
ASSUMPTIONS = ["CPython 3.12 dataclasses semantics", "no inheritance between dataclasses, no ClassVar, no KW_ONLY sentinel, no slots"]

# flags to flip after the proposed fixes are applied to the tree (env C30_FX_<NAME>=1 overrides)
FX = {"HASH_IS_NONE": os.environ.get("C30_FX_HASH_IS_NONE", "1"),     # proposed_fixes/C30-hash_ignores_compare_false.diff
      "MATCH_INIT": os.environ.get("C30_FX_MATCH_INIT", "1")}         # proposed_fixes/C30-match_args_includes_init_false.diff

OPT_NAMES = ["init", "repr", "eq", "order", "unsafe_hash", "frozen", "match_args", "kw_only"]
OPT_DEFAULT = dict(init=True, repr=True, eq=True, order=False, unsafe_hash=False, frozen=False, match_args=True, kw_only=False)
FNAMES = ["a", "b", "c", "d", "e"]
TYPES = {  # cython annotation, python annotation, default literal, factory, sample values
    "object": ("object", "object", "5", "list", [1, 2, 3]),
    "int": ("int", "int", "5", "int", [1, 2, 3]),
    "double": ("double", "float", "2.5", "float", [1.5, 2.5, 3.5]),
    "str": ("str", "str", "'s'", "str", ["p", "q", "r"]),
}


# ------------------------------------------------------------------ cases

def mk_field(name, d="n", init=True, repr_=True, cmp=True, hash_=None, kw=None, iv=False, typ="object"):
    return dict(name=name, d=d, init=init, repr=repr_, cmp=cmp, hash=hash_, kw=kw, iv=iv, typ=typ)


def mk_case(fields, opts=None, user=None):
    o = dict(OPT_DEFAULT)
    o.update(opts or {})
    u = dict(init=False, repr=False, eq=False, hash=0, match_args=False, post_init=False)
    u.update(user or {})
    return dict(opts=o, user=u, fields=fields)


def case_key(c):
    return json.dumps(c, sort_keys=True)


def rand_field(rng, name, rich):
    d = rng.choice("nnvvf")
    typ = rng.choice(["object"] * 5 + ["int", "double", "str"])
    f = mk_field(name, d=d, typ=typ)
    if rng.random() < 0.3:
        f["init"] = False
    if rng.random() < 0.25:
        f["repr"] = False
    if rng.random() < 0.3:
        f["cmp"] = False
    if rng.random() < 0.3:
        f["hash"] = rng.choice([True, False])
    if rich and rng.random() < 0.04:
        f["kw"] = rng.choice([True, False])
    if rng.random() < 0.1:
        f.update(iv=True, typ="object", repr=True, cmp=True, hash=None)
        if f["d"] == "f" and not (rich and rng.random() < 0.2):
            f["d"] = "v"
        f["init"] = True       # InitVar with init=False: the generated __init__ names an unbound variable on both sides
    return f


def rand_case(rng, rich=True):
    n = rng.choice([0, 1, 2, 2, 3, 3, 4, 5, 5])
    fields = [rand_field(rng, FNAMES[i], rich) for i in range(n)]
    if rng.random() < 0.5:
        # sort out most default-order errors so that not every case is an error case
        seen = False
        for f in fields:
            if f["init"]:
                if f["d"] != "n":
                    seen = True
                elif seen and rng.random() < 0.85:
                    f["d"] = "v"
    opts = {}
    for k in OPT_NAMES:
        if rng.random() < 0.3:
            opts[k] = not OPT_DEFAULT[k]
    if opts.get("order") and not opts.get("eq", True) and rng.random() < 0.8:
        opts["eq"] = True
    user = {}
    if rich:
        for k, p in [("init", 0.06), ("repr", 0.06), ("eq", 0.06), ("match_args", 0.05)]:
            if rng.random() < p:
                user[k] = True
        if rng.random() < 0.1:
            user["hash"] = rng.choice([1, 2, 2])
    if any(f["iv"] for f in fields) or rng.random() < 0.1:
        user["post_init"] = rng.random() < 0.85
    return mk_case(fields, opts, user)


def exhaustive_cases(quick, rng):
    out = []
    two = [[mk_field("a"), mk_field("b", d="v", cmp=False), mk_field("c", d="f", hash_=True, repr_=False)],
           [mk_field("a", d="v", init=False), mk_field("b", hash_=False)]]
    combos = list(itertools.product([False, True], repeat=8))
    if quick:
        combos = rng.sample(combos, 40)
    for fl in two:
        for bits in combos:
            out.append(("exh/options", mk_case([dict(f) for f in fl], dict(zip(OPT_NAMES, bits)))))
    one = list(itertools.product("nvf", [True, False], [True, False], [True, False], [None, True, False]))
    if quick:
        one = rng.sample(one, 24)
    for d, i, r, c, h in one:
        out.append(("exh/one-field", mk_case([mk_field("a", d=d, init=i, repr_=r, cmp=c, hash_=h)],
                                              dict(unsafe_hash=True, order=True))))
    pats = list(itertools.product("nvf", [True, False], "nvf", [True, False], [False, True]))
    if quick:
        pats = rng.sample(pats, 24)
    for d1, i1, d2, i2, kw in pats:
        out.append(("exh/two-field-defaults", mk_case([mk_field("a", d=d1, init=i1), mk_field("b", d=d2, init=i2)],
                                                       dict(kw_only=kw))))
    return out


# ------------------------------------------------------------------ rendering

def render(case, cname, cy):
    o, u = case["opts"], case["user"]
    args = ", ".join("%s=%s" % (k, o[k]) for k in OPT_NAMES if o[k] != OPT_DEFAULT[k])
    L = ["@dataclass(%s)" % args if args else "@dataclass",
         ("cdef class %s:" if cy else "class %s:") % cname]
    for f in case["fields"]:
        cyt, pyt, lit, fac, _ = TYPES[f["typ"]]
        ann = cyt if cy else pyt
        if f["iv"]:
            ann = "InitVar[%s]" % ann
        kws = []
        if f["d"] == "v":
            kws.append("default=%s" % lit)
        elif f["d"] == "f":
            kws.append("default_factory=%s" % fac)
        for k, dflt in (("init", True), ("repr", True), ("hash", None), ("compare", True), ("kw_only", None)):
            v = f[{"compare": "cmp", "kw_only": "kw"}.get(k, k)]
            if v != dflt:
                kws.append("%s=%s" % (k, v))
        if not kws:
            L.append("    %s: %s" % (f["name"], ann))
        elif kws == ["default=%s" % lit]:
            L.append("    %s: %s = %s" % (f["name"], ann, lit))
        else:
            L.append("    %s: %s = field(%s)" % (f["name"], ann, ", ".join(kws)))
    ivs = [f["name"] for f in case["fields"] if f["iv"]]
    if u["init"]:
        L += ["    def __init__(self, *args, **kw):", "        _LOG.append(('user_init', args, sorted(kw.items())))"]
    if u["repr"]:
        L += ["    def __repr__(self):", "        return 'USER_REPR'"]
    if u["eq"]:
        L += ["    def __eq__(self, other):", "        return 'USER_EQ'"]
    if u["hash"] == 1:
        L += ["    __hash__ = None"]
    elif u["hash"] == 2:
        L += ["    def __hash__(self):", "        return 77"]
    if u["match_args"]:
        L += ["    __match_args__ = ('zz',)"]
    if u["post_init"]:
        L += ["    def __post_init__(self%s):" % "".join(", " + n for n in ivs),
              "        _LOG.append(('post_init', (%s)))" % "".join(n + ", " for n in ivs)]
    if len(L) == 2:
        L.append("    pass")
    return L


CY_HEADER = ["# cython: language_level=3", "cimport cython", "from cython.dataclasses cimport dataclass, field",
             "from dataclasses import InitVar", "_LOG = []", ""]
PY_HEADER = ["from dataclasses import dataclass, field, InitVar", "_LOG = []", ""]


def cy_module(cases, prefix="C"):
    L = list(CY_HEADER)
    spans = []
    for i, c in enumerate(cases):
        body = render(c, "%s%d" % (prefix, i), True)
        spans.append((len(L) + 1, len(L) + len(body)))
        L += body + [""]
    return "\n".join(L) + "\n", spans


# ------------------------------------------------------------------ level 1: decisions of the running Dataclass.py

L1_RUNNER = r'''
import pyload; pyload.install()
import sys, os, json, io, re, contextlib
from Cython.Compiler import Main, Options, Dataclass, ParseTreeTransforms, Errors
pyload.assert_sources()
class Stop(Exception): pass
captured = {}
cur = [None]
orig_handle = Dataclass.handle_cclass_dataclass
def handle(node, args, tr):
    cur[0] = node.class_name
    captured[cur[0]] = {"text": None, "extra": []}
    try:
        return orig_handle(node, args, tr)
    finally:
        cur[0] = None
Dataclass.handle_cclass_dataclass = handle
orig_gt = Dataclass.TemplateCode.generate_tree
def gt(self, *a, **k):
    if cur[0] is not None:
        ex = []
        for st in self.extra_stats:
            ex.append("%s = %s" % (getattr(st.lhs, "name", "?"), "None" if st.rhs.is_none else type(st.rhs).__name__))
        captured[cur[0]] = {"text": self.writer.getvalue(), "extra": ex}
    return orig_gt(self, *a, **k)
Dataclass.TemplateCode.generate_tree = gt
ADT = ParseTreeTransforms.AnalyseDeclarationsTransform
orig_call = ADT.__call__
def call(self, root):
    r = orig_call(self, root)
    raise Stop()
ADT.__call__ = call
spec = json.load(sys.stdin)
out = []
for m in spec["modules"]:
    captured.clear()
    err = io.StringIO()
    crash = None
    directives = dict(Options.get_directive_defaults()); directives["language_level"] = 3
    opts = Main.CompilationOptions(Main.default_options, compiler_directives=directives, output_file=m["src"][:-4] + ".c")
    try:
        with contextlib.redirect_stderr(err):
            Main.compile(m["src"], opts)
        crash = "pipeline did not stop"
    except Stop:
        pass
    except BaseException as e:
        import traceback
        crash = traceback.format_exc()[-1500:]
    errors = []
    for mm in re.finditer(r"^[^\n:]*\.pyx:(\d+):(\d+): (.*)$", err.getvalue(), re.M):
        errors.append([int(mm.group(1)), mm.group(3)])
    out.append({"captured": dict(captured), "errors": errors, "crash": crash, "stderr_tail": err.getvalue()[-600:] if crash else ""})
pyload.assert_sources()
print(json.dumps(out))
'''


def name_id(n):
    return str(FNAMES.index(n) + 1)


def ids(names_):
    return ".".join(name_id(n) for n in names_) if names_ else "_"


def parse_cy_text(case, cap, errs):
    """decisions of the running Dataclass.py from the method source it generated (same string format as
    ocaml/drv_dataclass.ml).  Raises ValueError when the text has an unexpected shape."""
    text = cap["text"]
    rej = bool(errs)
    sig_err = None
    for ln, msg in errs:
        m = re.match(r"non-default argument '(\w+)' follows default argument", msg)
        if m:
            sig_err = m.group(1)
    hash_err = any("Cannot overwrite attribute __hash__" in msg for _, msg in errs)
    if text is None:
        raise ValueError("no generated text captured")
    # split into top-level blocks
    blocks, curb = [], None
    for line in text.split("\n"):
        if not line.strip():
            continue
        if not line.startswith(" "):
            curb = [line]
            blocks.append(curb)
        else:
            if curb is None:
                raise ValueError("indented line first: %r" % line)
            curb.append(line)
    defs, match = {}, None
    for b in blocks:
        m = re.match(r"def (\w+)\((.*)\):$", b[0])
        if m:
            if m.group(1) in defs:
                raise ValueError("duplicate def " + m.group(1))
            defs[m.group(1)] = (m.group(2), [x.strip() for x in b[1:]])
        elif b[0].startswith("__match_args__ = "):
            match = list(eval(b[0][len("__match_args__ = "):]))
        elif b[0].startswith("__pyx_recursive_repr_guard"):
            pass
        else:
            raise ValueError("unexpected block %r" % b[0])
    real = [f for f in case["fields"] if not f["iv"]]
    # __init__
    body, post = None, None
    if sig_err is not None:
        sig = "ERR:" + name_id(sig_err)
    elif "__init__" not in defs:
        sig = "NONE"
    else:
        a, lines = defs["__init__"]
        parts = [p.strip() for p in a.split(",")]
        selfname = parts[0]
        kw, ps = False, []
        for p in parts[1:]:
            if p == "*":
                kw = True
                continue
            m = re.match(r"(\w+)(: [\w\[\]\.]+)?( = DATACLASS_PLACEHOLDER_\d+)?$", p)
            if not m:
                raise ValueError("param %r" % p)
            ps.append(name_id(m.group(1)) + ("k" if kw else "p") + ("1" if m.group(3) else "0"))
        sig = "OK:" + (".".join(ps) if ps else "_")
        if not lines or not re.match(r"with DATACLASS_PLACEHOLDER_\d+\(%s\):$" % selfname, lines[0]):
            raise ValueError("init body head %r" % lines[:1])
        srcs = {}
        for l in lines[1:]:
            m = re.match(re.escape(selfname) + r"\.__post_init__\((.*)\)$", l)
            if m:
                post = [x.strip() for x in m.group(1).split(",") if x.strip()]
                continue
            if l == "pass":
                continue
            m = re.match(re.escape(selfname) + r"\.(\w+) = (.*)$", l)
            if not m:
                raise ValueError("init line %r" % l)
            n, rhs = m.group(1), m.group(2)
            if rhs == n:
                s = "P"
            elif re.match(r"DATACLASS_PLACEHOLDER_\d+\(\) if %s is DATACLASS_PLACEHOLDER_\d+ else %s$" % (n, n), rhs):
                s = "PF"
            elif re.match(r"DATACLASS_PLACEHOLDER_\d+\(\)$", rhs):
                s = "F"
            elif re.match(r"DATACLASS_PLACEHOLDER_\d+$", rhs):
                s = "D"
            else:
                raise ValueError("init rhs %r" % l)
            if n in srcs:
                raise ValueError("double assignment " + n)
            srcs[n] = s
        order = [n for n in srcs]
        if order != [f["name"] for f in real if f["name"] in srcs]:
            raise ValueError("assignment order %r" % order)
        body = [(f["name"], srcs.get(f["name"], "Z")) for f in real]
    # __repr__
    rep = None
    if "__repr__" in defs:
        a, lines = defs["__repr__"]
        rl = [l for l in lines if l.startswith("return f'")]
        if a != "self" or len(rl) != 1:
            raise ValueError("repr shape")
        m = re.match(r"return f'\{name\}\((.*)\)'$", rl[0])
        if not m:
            raise ValueError("repr line %r" % rl[0])
        rep = []
        for item in [x for x in m.group(1).split(", ") if x]:
            mm = re.match(r"(\w+)=\{self\.(\w+)!r\}$", item)
            if not mm or mm.group(1) != mm.group(2):
                raise ValueError("repr item %r" % item)
            rep.append(mm.group(1))

    def cascade(fn, strict_op, final):
        a, lines = defs[fn]
        if a != "self, other":
            raise ValueError(fn + " args")
        i = 0
        while i < len(lines) and not lines[i].startswith("with DATACLASS_PLACEHOLDER"):
            i += 1
        head = lines[:i]
        if not any("other.__class__ is not self.__class__: return NotImplemented" in h for h in head):
            raise ValueError(fn + " lacks the class test")
        rest = lines[i + 1:]
        if not rest or rest[-1] != "return %s" % final:
            raise ValueError("%s final %r" % (fn, rest[-1:]))
        rest = rest[:-1]
        names_ = []
        j = 0
        while j < len(rest):
            if strict_op:
                m = re.match(r"if self\.(\w+) %s other_cast\.(\w+): return True$" % re.escape(strict_op), rest[j])
                if not m or m.group(1) != m.group(2):
                    raise ValueError("%s line %r" % (fn, rest[j]))
                j += 1
                if j >= len(rest):
                    raise ValueError(fn + " truncated")
            m2 = re.match(r"if self\.(\w+) != other_cast\.(\w+): return False$", rest[j])
            if not m2 or m2.group(1) != m2.group(2) or (strict_op and m2.group(1) != m.group(1)):
                raise ValueError("%s line %r" % (fn, rest[j]))
            names_.append(m2.group(1))
            j += 1
        return names_
    eq = cascade("__eq__", None, "True") if "__eq__" in defs else None
    ordf = None
    present = [k for k in ("__lt__", "__le__", "__gt__", "__ge__") if k in defs]
    if present:
        if len(present) != 4:
            raise ValueError("only some ordering methods: %r" % present)
        got = [cascade("__lt__", "<", "False"), cascade("__le__", "<", "True"),
               cascade("__gt__", ">", "False"), cascade("__ge__", ">", "True")]
        if any(g != got[0] for g in got):
            raise ValueError("ordering methods use different fields")
        ordf = got[0]
    # __hash__
    extra = cap["extra"]
    if hash_err:
        h = "ERR"
    elif "__hash__" in defs:
        a, lines = defs["__hash__"]
        m = re.match(r"return hash\(\((.*)\)\)$", lines[-1])
        if not m or extra:
            raise ValueError("hash shape %r %r" % (lines, extra))
        items = [x for x in m.group(1).split(",") if x.strip()]
        hn = []
        for it in items:
            mm = re.match(r"\s*self\.(\w+)$", it)
            if not mm:
                raise ValueError("hash item %r" % it)
            hn.append(mm.group(1))
        if hn and not m.group(1).endswith(","):
            raise ValueError("hash tuple lacks the trailing comma")
        h = "ADD:" + ids(hn)
    elif extra:
        if extra != ["__hash__ = None"]:
            raise ValueError("extra stats %r" % extra)
        h = "NONE"
    else:
        h = "KEEP"
    unknown = set(defs) - {"__init__", "__repr__", "__eq__", "__lt__", "__le__", "__gt__", "__ge__", "__hash__"}
    if unknown:
        raise ValueError("unexpected methods %r" % sorted(unknown))
    d = {"rej": "1" if rej else "0", "sig": sig,
         "repr": ids(rep) if rep is not None else "-", "eq": ids(eq) if eq is not None else "-",
         "ord": ids(ordf) if ordf is not None else "-", "hash": h,
         "match": ids(match) if match is not None else "-",
         "body": (".".join("%s=%s" % (name_id(n), s) for n, s in body) if body else "_") if body is not None else None,
         "post": (ids(post) if post is not None else "-") if body is not None else None}
    other_errs = [msg for _, msg in errs if not ("follows default argument" in msg or "Cannot overwrite attribute __hash__" in msg
                                                 or "unexpected keyword argument 'kw_only'" in msg)]
    d["other_errors"] = other_errs
    return d


def parse_dec(line):
    d = dict(kv.split("=", 1) for kv in line.split(" "))
    return d


def model_line(who, case):
    o, u = case["opts"], case["user"]
    ob = {None: "n", True: "t", False: "f"}
    fs = ",".join("%s:%s:%d:%d:%d:%s:%s:%d" % (name_id(f["name"]), f["d"], f["init"], f["repr"], f["cmp"],
                                                   ob[f["hash"]], ob[f["kw"]], f["iv"]) for f in case["fields"]) or "-"
    return "dec %s %s %s %s" % (who, "".join("1" if o[k] else "0" for k in OPT_NAMES),
                                "%d%d%d%d%d%d" % (u["init"], u["repr"], u["eq"], u["hash"], u["match_args"], u["post_init"]), fs)


# ------------------------------------------------------------------ the property oracle: CPython's dataclasses

PY_ORACLE = r'''
import sys, json, inspect, dataclasses
from dataclasses import MISSING
FN = ["a", "b", "c", "d", "e"]
def nid(n): return str(FN.index(n) + 1)
def ids(l): return ".".join(nid(n) for n in l) if l else "_"
VALS = {"object": [1, 2, 3], "int": [1, 2, 3], "double": [1.5, 2.5, 3.5], "str": ["p", "q", "r"]}
DEFAULT = {"object": 5, "int": 5, "double": 2.5, "str": "s"}
FACT = {"object": [], "int": 0, "double": 0.0, "str": ""}
def make(cls, case, vals):
    x = object.__new__(cls)
    for f in case["fields"]:
        if not f["iv"]:
            object.__setattr__(x, f["name"], vals[f["name"]])
    return x
def derive(case, src):
    ns = {}
    try:
        exec(src, ns)
    except BaseException as e:
        m = None
        import re
        mm = re.match(r"non-default argument '(\w+)' follows default argument", str(e))
        return {"rej": "1", "exc": type(e).__name__, "msg": str(e)[:200], "sig": ("ERR:" + nid(mm.group(1))) if mm else None}
    P = ns["P"]; LOG = ns["_LOG"]
    u = case["user"]; o = case["opts"]
    real = [f for f in case["fields"] if not f["iv"]]
    d = {"rej": "0"}
    gen_init = "__init__" in P.__dict__ and not u["init"]
    if gen_init:
        ps = []
        for n, p in list(inspect.signature(P.__init__).parameters.items())[1:]:
            k = {p.POSITIONAL_OR_KEYWORD: "p", p.KEYWORD_ONLY: "k"}[p.kind]
            ps.append(nid(n) + k + ("0" if p.default is p.empty else "1"))
        d["sig"] = "OK:" + (".".join(ps) if ps else "_")
    else:
        d["sig"] = "NONE"
    base = {f["name"]: VALS[f["typ"]][0] for f in real}
    if "__repr__" in P.__dict__ and not u["repr"]:
        import re
        r = repr(make(P, case, base))
        inner = r[r.index("(") + 1:-1]
        d["repr"] = ids([x.split("=")[0] for x in inner.split(", ") if x])
    else:
        d["repr"] = "-"
    def differ(opf):
        out = []
        for f in real:
            v2 = dict(base); v2[f["name"]] = VALS[f["typ"]][1]
            if opf(make(P, case, base), make(P, case, v2)):
                out.append(f["name"])
        return out
    if "__eq__" in P.__dict__ and not u["eq"]:
        assert make(P, case, base) == make(P, case, base)
        d["eq"] = ids(differ(lambda x, y: not (x == y)))
    else:
        d["eq"] = "-"
    if "__lt__" in P.__dict__:
        fl = differ(lambda x, y: x < y)
        # relative order of the compared fields inside the tuple
        for i in range(len(fl) - 1):
            v1 = dict(base); v2 = dict(base)
            t1 = [f for f in real if f["name"] == fl[i]][0]["typ"]; t2 = [f for f in real if f["name"] == fl[i + 1]][0]["typ"]
            v1[fl[i]] = VALS[t1][0]; v2[fl[i]] = VALS[t1][1]
            v1[fl[i + 1]] = VALS[t2][1]; v2[fl[i + 1]] = VALS[t2][0]
            assert make(P, case, v1) < make(P, case, v2), "tuple order"
            assert make(P, case, v1) <= make(P, case, v2) and make(P, case, v2) > make(P, case, v1) and make(P, case, v2) >= make(P, case, v1)
        x = make(P, case, base)
        assert not (x < make(P, case, base)) and x <= make(P, case, base) and x >= make(P, case, base)
        d["ord"] = ids(fl)
    else:
        d["ord"] = "-"
    hd = P.__dict__.get("__hash__", MISSING)
    body_none = (u["hash"] == 1) or (u["eq"] and u["hash"] == 0)   # the class body itself leaves None there
    if hd is MISSING:
        d["hash"] = "KEEP"
    elif hd is None:
        d["hash"] = "NONE|KEEP" if body_none else "NONE"
    elif u["hash"] == 2:
        assert hd(make(P, case, base)) == 77
        d["hash"] = "KEEP"
    else:
        x = make(P, case, base)
        hf = []
        for f in real:
            v2 = dict(base); v2[f["name"]] = VALS[f["typ"]][1]
            if hash(make(P, case, v2)) != hash(x):
                hf.append(f["name"])
        assert hash(x) == hash(tuple(base[n] for n in hf)), "hash is not the tuple hash"
        d["hash"] = "ADD:" + ids(hf)
    ma = P.__dict__.get("__match_args__", MISSING)
    d["match"] = "-" if (ma is MISSING or u["match_args"]) else ids(list(ma))
    if gen_init:
        params = [f for f in case["fields"] if f["init"]]
        full = {f["name"]: VALS[f["typ"]][2] for f in params}
        mini = {f["name"]: VALS[f["typ"]][2] for f in params if f["d"] == "n"}
        def classify(x, f, passed):
            try:
                v = getattr(x, f["name"])
            except AttributeError:
                return "unset"
            if f["name"] in passed and v == passed[f["name"]]: return "param"
            if f["d"] == "v" and v == DEFAULT[f["typ"]]: return "default"
            if f["d"] == "f" and v == FACT[f["typ"]] and type(v) is type(FACT[f["typ"]]): return "factory"
            if v is None or v == 0: return "zero"
            return "other:%r" % (v,)
        del LOG[:]
        x1 = P(**full); log1 = list(LOG); del LOG[:]
        x2 = P(**mini); log2 = list(LOG)
        body = []
        for f in real:
            pair = (classify(x1, f, full), classify(x2, f, mini))
            s = {("param", "param"): "P", ("param", "default"): "P", ("param", "factory"): "PF", ("default", "default"): "D",
                 ("factory", "factory"): "F", ("unset", "unset"): "U", ("zero", "zero"): "Z"}.get(pair, "?%s/%s" % pair)
            body.append("%s=%s" % (nid(f["name"]), s))
        d["body"] = ".".join(body) if body else "_"
        if u["post_init"]:
            assert len(log1) == 1 and log1[0][0] == "post_init", log1
            ivs = [f for f in case["fields"] if f["iv"]]
            # which InitVars, in which order: identify by the values passed
            got = []
            for v in log1[0][1]:
                cand = [f["name"] for f in ivs if (full.get(f["name"], DEFAULT["object"]) == v)]
                got.append(cand[0] if len(cand) >= 1 else "?")
            # all InitVars of a case get the same value: the count and membership are what is observable
            d["post"] = ids([f["name"] for f in ivs]) if len(got) == len(ivs) else "?%r" % (got,)
        else:
            assert not log1, log1
            d["post"] = "-"
    return d
spec = json.load(sys.stdin)
out = []
for case, src in spec:
    try:
        out.append(derive(case, src))
    except BaseException as e:
        import traceback
        out.append({"harness_error": traceback.format_exc()[-800:]})
print(json.dumps(out))
'''


def classify(case, comp):
    o, u, fs = case["opts"], case["user"], case["fields"]
    if any(f["kw"] is not None for f in fs):
        return "field_kw_only_unsupported"
    if comp in ("rej", "sig"):
        if o["order"] and not o["eq"]:
            return "order_without_eq_accepted"
        if any(f["iv"] and f["d"] == "f" for f in fs):
            return "initvar_default_factory_accepted"
        if u["init"] and o["init"]:
            return "user_init_skips_default_order_check"
    if comp in ("rej", "hash") and u["hash"] == 1 and u["eq"]:
        return "hash_none_with_user_eq_treated_explicit"
    if comp == "match" and not o["kw_only"] and any(not f["init"] for f in fs):
        return "match_args_includes_init_false"
    if comp == "hash" and any((not f["iv"]) and f["hash"] is None and not f["cmp"] for f in fs):
        return "hash_ignores_compare_false"
    if comp == "body" and any((not f["iv"]) and (not f["init"]) and f["d"] == "n" for f in fs):
        return "init_false_no_default_reads_zero"
    return "decision_mismatch_" + comp


COMPS = ["sig", "repr", "eq", "ord", "hash", "match", "body", "post"]


def same(k, observed_py, other):
    """py observation vs a decision string; a None left by the class body hides set-None vs keep"""
    if k == "hash" and observed_py == "NONE|KEEP":
        return other in ("NONE", "KEEP")
    return observed_py == other


def level1(ctx, tagged_cases):
    wd = os.path.join(ctx.workdir, "l1")
    os.makedirs(wd, exist_ok=True)
    cases = [c for _, c in tagged_cases]
    per = 60
    mods = []
    for k in range(0, len(cases), per):
        src, spans = cy_module(cases[k:k + per])
        p = os.path.join(wd, "l1_%d.pyx" % (k // per))
        with open(p, "w") as f:
            f.write(src)
        mods.append({"src": p, "spans": spans, "first": k})
    import concurrent.futures as cf
    nproc = min(8, len(mods))
    chunks = [mods[k::nproc] for k in range(nproc)]

    def one(k):
        return cybuild.run_script(L1_RUNNER, os.path.join(wd, "p%d" % k), {"modules": [{"src": m["src"]} for m in chunks[k]]},
                                  timeout=3000, name="l1_runner.py")
    with cf.ThreadPoolExecutor(max_workers=nproc) as ex:
        rr = list(ex.map(one, range(nproc)))
    by_src = {}
    for k, r in enumerate(rr):
        if r["json"] is None:
            ctx.corr_break("level1 runner", "l1_runner.py", (r["err"] or r["out"])[-1500:], "a JSON result")
            return None
        for m, x in zip(chunks[k], r["json"]):
            by_src[m["src"]] = x
    res = {"json": [by_src[m["src"]] for m in mods]}
    cy_obs = [None] * len(cases)
    for m, r in zip(mods, res["json"]):
        if r["crash"]:
            ctx.corr_break("level1 compile", m["src"], r["crash"] + r.get("stderr_tail", ""), "front end runs up to AnalyseDeclarations")
            continue
        for j, (lo, hi) in enumerate(m["spans"]):
            errs = [e for e in r["errors"] if lo <= e[0] <= hi]
            cap = r["captured"].get("C%d" % j)
            cy_obs[m["first"] + j] = (cap, errs)
        stray = [e for e in r["errors"] if not any(lo <= e[0] <= hi for lo, hi in m["spans"])]
        if stray:
            ctx.corr_break("level1 stray errors", m["src"], stray[:5], "errors only inside class bodies")
    # python oracle
    pyspec = []
    for c in cases:
        pyspec.append([c, "\n".join(PY_HEADER + render(c, "P", False)) + "\n"])
    pres = cybuild.run_script(PY_ORACLE, wd, pyspec, timeout=3000, name="py_oracle.py")
    if pres["json"] is None:
        ctx.corr_break("python oracle", "py_oracle.py", (pres["err"] or pres["out"])[-1500:], "a JSON result")
        return None
    model = ctx.model("dataclass")
    mcy = model.batch([model_line("cy" + FX["HASH_IS_NONE"] + FX["MATCH_INIT"], c) for c in cases])
    mpy = model.batch([model_line("py", c) for c in cases])
    decs = []
    for i, (tag, c) in enumerate(tagged_cases):
        inp = {"case": c, "cython_source": "\n".join(render(c, "C", True))}
        ctx.case("decisions/" + tag, inp, sig=case_key(c), nontrivial=bool(c["fields"]) or c["opts"] != OPT_DEFAULT)
        decs.append(None)
        if cy_obs[i] is None:
            continue
        cap, errs = cy_obs[i]
        if cap is None:
            ctx.corr_break("level1 capture", inp, "handle_cclass_dataclass not called", "called once per class")
            continue
        try:
            cy = parse_cy_text(c, cap, errs)
        except ValueError as e:
            ctx.corr_break("level1 generated text shape", inp, {"text": cap["text"], "error": str(e)}, "the shape the model assumes")
            continue
        py = pres["json"][i]
        if "harness_error" in py:
            ctx.corr_break("python oracle derivation", inp, py["harness_error"], "derivable decisions")
            continue
        m_cy, m_py = parse_dec(mcy[i]), parse_dec(mpy[i])
        decs[i] = (cy, py, m_cy, m_py)
        if cy["other_errors"]:
            ctx.corr_break("level1 unexpected compile error", inp, cy["other_errors"], "no other errors")
            continue
        # --- tie: model of Cython vs the running Dataclass.py
        if cy["rej"] != m_cy["rej"]:
            ctx.corr_break("cy_rejected", inp, {"errors": errs}, m_cy["rej"])
        for k in COMPS:
            if cy.get(k) is None:
                continue
            if cy["rej"] == "1" and k in ("body", "post"):
                continue
            if cy[k] != m_cy[k]:
                ctx.corr_break("cy_decide." + k, inp, cy[k], m_cy[k])
        # --- tie: transcription of dataclasses.py vs the running dataclasses module
        if py["rej"] != m_py["rej"]:
            ctx.corr_break("py_rejected", inp, py, m_py["rej"])
        elif py["rej"] == "1":
            if py.get("sig") and py["sig"] != m_py["sig"]:
                ctx.corr_break("py_decide.sig(error)", inp, py, m_py["sig"])
        else:
            for k in COMPS:
                if k in py and not same(k, py[k], m_py[k]):
                    ctx.corr_break("py_decide." + k, inp, py[k], m_py[k])
        # --- property: Cython's decisions vs CPython's
        if cy["rej"] != py["rej"]:
            ctx.fail(classify(c, "rej"), inp, {"cython": "rejected" if cy["rej"] == "1" else "accepted", "errors": errs},
                     {"dataclasses": "rejected" if py["rej"] == "1" else "accepted", "exc": py.get("exc"), "msg": py.get("msg")})
            continue
        if py["rej"] == "1":
            if py.get("sig") and cy["sig"] != py["sig"]:
                ctx.fail(classify(c, "sig"), inp, cy["sig"], py["sig"], "different offending field")
            continue
        for k in COMPS:
            if cy.get(k) is None or k not in py:
                continue
            if not same(k, py[k], cy[k]):
                ctx.fail(classify(c, k), inp, {k: cy[k]}, {k: py[k]})
    return decs


# ------------------------------------------------------------------ Gen_HashAction.v

HASH_DUMP = r'''
import pyload; pyload.install()
import sys, json, itertools
from collections import OrderedDict
from Cython.Compiler import Dataclass, Errors, Nodes
pyload.assert_sources()
class _E: pass
class Scope:
    def __init__(self, has): self.has = has
    def lookup_here(self, n): return _E() if (n == "__hash__" and self.has) else None
    lookup = lookup_here
class _Src:
    def get_error_description(self): return "<c30>"
    def get_lines(self, *a, **k): return []
    def get_filenametable_entry(self): return "<c30>"
    def get_description(self): return "<c30>"
class Node:
    pos = (_Src(), 1, 0)
    class_name = "C"
    def __init__(self, has): self.scope = Scope(has)
rows = []
for unsafe, eq, frozen, expl in itertools.product([False, True], repeat=4):
    code = Dataclass.TemplateCode()
    Errors.init_thread()
    errs = Errors.hold_errors()
    Dataclass.generate_hash_code(code, unsafe, eq, frozen, Node(expl), OrderedDict(), critical_section_placeholder_name="CS")
    Errors.release_errors(ignore=True)
    text = code.writer.getvalue(); extra = code.extra_stats
    if errs: act = "ARaise"
    elif "def __hash__" in text: act = "AAdd"
    elif extra:
        st = extra[0]
        assert isinstance(st, Nodes.SingleAssignmentNode) and st.lhs.name == "__hash__" and st.rhs.is_none
        act = "ASetNone"
    else: act = "ANothing"
    assert (act == "AAdd") == bool(text.strip()) and (act == "ASetNone") == bool(extra)
    rows.append([unsafe, eq, frozen, expl, act])
import dataclasses
py = []
for k, v in dataclasses._hash_action.items():
    py.append(list(k) + [{None: "ANothing", dataclasses._hash_set_none: "ASetNone", dataclasses._hash_add: "AAdd",
                          dataclasses._hash_exception: "ARaise"}[v]])
print(json.dumps({"cy": rows, "py": py}))
'''


def pre_coq(ctx):
    wd = os.path.join(ctx.workdir, "hashtab")
    res = cybuild.run_script(HASH_DUMP, wd, None, timeout=600, name="hash_dump.py")
    if res["json"] is None:
        raise RuntimeError("hash action dump failed: " + (res["err"] or res["out"])[-1500:])
    d = res["json"]
    ctx._c30_tables = d

    def rows(rs):
        return ";\n  ".join("(%s, %s, %s, %s, %s)" % tuple(["true" if x else "false" for x in r[:4]] + [r[4]]) for r in rs)
    txt = ("(* generated by props/C30.py on every run: cy_hash_rows from the running Dataclass.generate_hash_code,\n"
           "   py_hash_rows from the running dataclasses._hash_action *)\n"
           "From Coq Require Import List Bool.\nFrom CyVerif Require Import Model.M_Dataclass.\nImport ListNotations.\n"
           "Definition cy_hash_rows : list (bool * bool * bool * bool * action) := [\n  %s ].\n"
           "Definition py_hash_rows : list (bool * bool * bool * bool * action) := [\n  %s ].\n" % (rows(d["cy"]), rows(d["py"])))
    p = os.path.join(framework.COQ, "theories", "Gen", "Gen_HashAction.v")
    os.makedirs(os.path.dirname(p), exist_ok=True)
    if not os.path.exists(p) or open(p).read() != txt:
        with open(p, "w") as f:
            f.write(txt)


# ------------------------------------------------------------------ run

def run(ctx):
    quick = ctx.tier == "quick"
    rng = ctx.rng
    tables = getattr(ctx, "_c30_tables", None)
    if tables:
        for r in tables["cy"]:
            pr = [x for x in tables["py"] if x[:4] == r[:4]]
            inp = {"unsafe_hash": r[0], "eq": r[1], "frozen": r[2], "explicit_hash": r[3]}
            ctx.case("hash-action-table", inp, sig=tuple(r[:4]))
            if not pr or pr[0][4] != r[4]:
                ctx.fail("hash_action_table_row", inp, r[4], pr[0][4] if pr else None)
        ctx.extra["exhaustive_domains"] = ["hash action table: all 16 (unsafe_hash, eq, frozen, explicit __hash__) rows"]
    tagged = exhaustive_cases(quick, rng)
    seen = set(case_key(c) for _, c in tagged)
    n_rand = int(os.environ.get("C30_NRAND", 0)) or (220 if quick else 5000)
    while n_rand > 0:
        c = rand_case(rng)
        k = case_key(c)
        if k in seen:
            continue
        seen.add(k)
        tagged.append(("random/%d-fields" % len(c["fields"]), c))
        n_rand -= 1
    decs = level1(ctx, tagged)
    level2(ctx, tagged, decs)


L2_WORKER = r"""
import sys, json, dataclasses, importlib, copy
from dataclasses import MISSING
def tval(typ, i):
    return {"object": 10 + i, "int": 10 + i, "double": 10.5 + i, "str": "s%d" % i}[typ]
def norm(e):
    return "AttributeError" if isinstance(e, AttributeError) else type(e).__name__
def ops(cls, case, LOG):
    out = []
    name = cls.__name__
    real = [f for f in case["fields"] if not f["iv"]]
    P = [f for f in case["fields"] if f["init"]]
    def snap(x):
        r = []
        for f in real:
            try: r.append(repr(getattr(x, f["name"])))
            except AttributeError: r.append("<unset>")
        return r
    def tr(fn):
        del LOG[:]
        try:
            v = fn()
            return ["ok", v, repr(LOG)]
        except BaseException as e:
            return ["exc", norm(e)]
    def add(op, fn):
        out.append([op, tr(fn)])
    add("is_dataclass", lambda: dataclasses.is_dataclass(cls))
    add("match_args", lambda: repr(getattr(cls, "__match_args__", "<none>")))
    add("params", lambda: repr(cls.__dataclass_params__))
    add("fields", lambda: [[f.name, f.init, f.repr, f.compare, f.hash, f.default is MISSING, f.default_factory is MISSING,
                            f._field_type.name] for f in dataclasses.fields(cls)])
    add("fields_kw_only", lambda: [[f.name, f.kw_only if isinstance(f.kw_only, bool) else "MISSING"] for f in dataclasses.fields(cls)])
    if not case["opts"]["init"] or case["user"]["init"]:
        # no synthesised __init__: what remains is plain extension-type behaviour (a cdef class without
        # __init__ accepts and ignores any arguments; its attributes are None, never unset)
        return out
    import re as _re
    def clean(s):
        return _re.sub(r"<[\w\.]*CLS object at 0x[0-9a-f]+>", "<CLS object>", s.replace(name, "CLS"))
    n = len(P)
    for k in range(n + 2):
        add("construct/pos%d" % k, lambda: snap(cls(*[tval(P[i]["typ"] if i < n else "object", i) for i in range(k)])))
    allkw = {f["name"]: tval(f["typ"], i) for i, f in enumerate(P)}
    add("construct/kw-all", lambda: snap(cls(**allkw)))
    for f in P:
        kw = dict(allkw); del kw[f["name"]]
        add("construct/kw-omit-" + f["name"], lambda: snap(cls(**kw)))
    if n >= 2:
        h = n // 2
        add("construct/mixed", lambda: snap(cls(*[tval(P[i]["typ"], i) for i in range(h)], **{P[i]["name"]: tval(P[i]["typ"], i) for i in range(h, n)})))
    add("construct/kw-unknown", lambda: snap(cls(zz=1, **allkw)))
    def mk(changed=None, j=7):
        kw = dict(allkw)
        if changed is not None:
            f = [g for g in P if g["name"] == changed][0]
            kw[changed] = tval(f["typ"], j)
        return cls(**kw)
    try:
        x0 = mk(); x0b = mk()
    except BaseException:
        return out
    add("repr", lambda: clean(repr(x0)))
    add("str", lambda: clean(str(x0)))
    import operator
    OPS = [("eq", operator.eq), ("ne", operator.ne), ("lt", operator.lt), ("le", operator.le), ("gt", operator.gt), ("ge", operator.ge)]
    for on, of in OPS:
        add("cmp/%s/copy" % on, lambda: repr(of(x0, x0b)))
        add("cmp/%s/self" % on, lambda: repr(of(x0, x0)))
        add("cmp/%s/other-type" % on, lambda: repr(of(x0, 5)))
        for f in P:
            if f["iv"]:
                continue
            for j in (0, 7):       # smaller / larger than the base value of any field
                y = mk(f["name"], j)
                add("cmp/%s/%s/%d" % (on, f["name"], j), lambda: repr(of(x0, y)))
                add("cmp/%s/%s/%d/rev" % (on, f["name"], j), lambda: repr(of(y, x0)))
    def hprobe():
        h = hash(x0)
        if h == hash(x0b):
            return ["value", h]
        return ["identity"]
    add("hash", hprobe)
    for f in P:
        if not f["iv"]:
            add("hash/changed-" + f["name"], lambda: hash(mk(f["name"])) == hash(x0))
    add("asdict", lambda: repr(dataclasses.asdict(x0)))
    add("astuple", lambda: repr(dataclasses.astuple(x0)))
    if P:
        f = P[0]
        add("replace", lambda: clean(repr(dataclasses.replace(x0, **{f["name"]: tval(f["typ"], 3)}))))
    add("replace/none", lambda: clean(repr(dataclasses.replace(x0))))
    add("copy", lambda: clean(repr(copy.copy(x0))))
    for f in real:
        if case["opts"]["frozen"]:
            add("frozen/del-" + f["name"], lambda: delattr(mk(), f["name"]))
        def st():
            x = mk(); setattr(x, f["name"], tval(f["typ"], 9)); return snap(x)
        add(("frozen" if case["opts"]["frozen"] else "mutable") + "/set-" + f["name"], st)
    return out
spec = json.load(sys.stdin)
res = []
for m in spec["modules"]:
    try:
        cm = importlib.import_module(m["name"])
    except BaseException as e:
        res.append({"import_error": "%s: %s" % (type(e).__name__, str(e)[:500])}); continue
    per = []
    for j, (case, pysrc) in enumerate(m["classes"]):
        ns = {"__name__": "pyside"}
        exec(pysrc, ns)
        try:
            a = ops(getattr(cm, "C%d" % j), case, cm._LOG)
            b = ops(ns["C%d" % j], case, ns["_LOG"])
            per.append({"cy": a, "py": b})
        except BaseException as e:
            import traceback
            per.append({"harness_error": traceback.format_exc()[-800:]})
    res.append({"classes": per})
print(json.dumps(res))
"""

SPECIAL_WORKER = r"""
import sys, json, dataclasses
import c30_special as cm
from dataclasses import dataclass, field
@dataclass(order=True)
class S:
    a: object
    b: object = 0
def tr(fn):
    try: return repr(fn())
    except BaseException as e: return "exc:" + type(e).__name__
nan = float("nan")
out = {}
for nm, cls in (("cy", cm.S), ("py", S)):
    out[nm] = {
      "none_le_none": tr(lambda: cls(None) <= cls(None)),
      "none_ge_none": tr(lambda: cls(None) >= cls(None)),
      "none_first_then_int_lt": tr(lambda: cls(None, 1) < cls(None, 2)),
      "int_then_none_lt": tr(lambda: cls(1, None) < cls(2, None)),
      "complex_le": tr(lambda: cls(1j) <= cls(1j)),
      "nan_same_object_eq": tr(lambda: cls(nan) == cls(nan)),
      "nan_same_object_le": tr(lambda: cls(nan) <= cls(nan)),
      "nan_different_objects_eq": tr(lambda: cls(float("nan")) == cls(float("nan"))),
      "sets_lt": tr(lambda: cls({1}) < cls({1, 2})),
      "sets_le_incomparable": tr(lambda: cls({1}) <= cls({2})),
      "list_lt": tr(lambda: cls([1, 2]) < cls([1, 3])),
      "mixed_types_eq": tr(lambda: cls(1) == cls("1")),
      "mixed_types_lt": tr(lambda: cls(1) < cls("1")),
      "bool_int_eq": tr(lambda: cls(True) == cls(1)),
      "float_int_hash_eq": tr(lambda: cls(1.0) == cls(1)),
    }
print(json.dumps(out))
"""

SPECIAL_SRC = "\n".join(CY_HEADER + ["@dataclass(order=True)", "cdef class S:", "    a: object", "    b: object = 0", ""])


def classify_op(case, op):
    o, u, fs = case["opts"], case["user"], case["fields"]
    real = [f for f in fs if not f["iv"]]
    if op == "fields_kw_only":
        return "fields_kw_only_missing"
    if op == "match_args":
        return classify(case, "match")
    reads = op.split("/")[0] in ("construct", "repr", "str", "cmp", "hash", "asdict", "astuple", "replace", "copy", "frozen", "mutable")
    if reads and any((not f["init"]) and f["d"] == "n" for f in real):
        return "init_false_no_default_reads_zero"
    if op.startswith("hash") and any(f["hash"] is None and not f["cmp"] for f in real):
        return "hash_ignores_compare_false"
    if op.startswith("replace") and any(f["iv"] and f["d"] == "v" for f in fs):
        return "initvar_default_attribute_none"
    return "behaviour_mismatch_" + op.split("/")[0]


def replay(ctx, obj):
    inp = obj.get("input", obj)
    case = inp.get("case") if isinstance(inp, dict) else None
    if not case:
        print(json.dumps(obj, indent=1))
        print("(special-value probe: reproduces with the quick check)")
        return
    tagged = [("replay", case)]
    decs = level1(ctx, tagged)
    level2(ctx, tagged, decs)


def level2(ctx, tagged, decs):
    quick = ctx.tier == "quick"
    rng = ctx.rng
    wd = os.path.join(ctx.workdir, "l2")
    os.makedirs(wd, exist_ok=True)
    ok = [i for i, d in enumerate(decs or []) if d is not None and d[0]["rej"] == "0" and d[1]["rej"] == "0"
          and not d[0]["other_errors"]]
    want = 36 if quick else 330
    # prefer variety: cases with fields first
    rng.shuffle(ok)
    ok.sort(key=lambda i: 0 if tagged[i][1]["fields"] else 1)
    chosen = ok[:want]
    per = 6
    mods = []
    for k in range(0, len(chosen), per):
        idx = chosen[k:k + per]
        cases = [tagged[i][1] for i in idx]
        src, _ = cy_module(cases)
        name = "c30_m%d" % (k // per)
        pys = ["\n".join(PY_HEADER + render(c, "C%d" % j, False)) + "\n" for j, c in enumerate(cases)]
        mods.append({"name": name, "src": src, "idx": idx, "classes": [[c, p] for c, p in zip(cases, pys)]})
    specs = [dict(name=m["name"], source=m["src"], workdir=wd, cflags=["-O0"]) for m in mods]
    specs.append(dict(name="c30_special", source=SPECIAL_SRC, workdir=wd, cflags=["-O0"]))
    built = cybuild.build_many(specs, jobs=8)
    good = []
    for m, (so, err) in zip(mods, built[:-1]):
        if err is not None:
            ctx.corr_break("level2 build", {"module": m["name"], "cases": [c for c, _ in m["classes"]]}, str(err)[-1500:],
                           "builds (level 1 saw no compile error)")
        else:
            good.append(m)
    res = cybuild.run_script(L2_WORKER, wd, {"modules": [{"name": m["name"], "classes": m["classes"]} for m in good]},
                             timeout=3000, name="l2_worker.py")
    if res["json"] is None:
        ctx.corr_break("level2 worker", "l2_worker.py", (res["err"] or res["out"])[-1500:], "a JSON result")
    else:
        for m, r in zip(good, res["json"]):
            if "import_error" in r:
                ctx.corr_break("level2 import", m["name"], r["import_error"], "importable module")
                continue
            for (case, _), i, pc in zip(m["classes"], m["idx"], r["classes"]):
                inp = {"case": case, "cython_source": "\n".join(render(case, "C", True))}
                if "harness_error" in pc:
                    ctx.corr_break("level2 ops", inp, pc["harness_error"], "operations run")
                    continue
                a, b = pc["cy"], pc["py"]
                if [x[0] for x in a] != [x[0] for x in b]:
                    # different op lists: an instance could be built on one side only
                    na, nb = [x[0] for x in a], [x[0] for x in b]
                    ctx.fail(classify_op(case, "construct/kw-all"), inp, {"ops": len(na)}, {"ops": len(nb)}, "instances constructible on one side only")
                n = 0
                for (op, ra), (_, rb) in zip(a, b):
                    n += 1
                    if ra != rb:
                        ctx.fail(classify_op(case, op), dict(inp, op=op), {"cython": ra}, {"dataclasses": rb})
                ctx.count("behaviour/%s" % tagged[i][0], n, distinct_sigs=[(case_key(case), x[0]) for x in a])
                # tie: behaviour of the compiled class vs the model's decisions
                m_cy = decs[i][2]
                obs = dict((x[0], x[1]) for x in a)
                ma = obs.get("match_args")
                if ma and ma[0] == "ok" and m_cy["match"] != "-":
                    exp = [FNAMES[int(t) - 1] for t in m_cy["match"].split(".")] if m_cy["match"] != "_" else []
                    if ma[1] != repr(tuple(exp)):
                        ctx.corr_break("cy_match_args(compiled)", inp, ma[1], exp)
                hp = obs.get("hash")
                if hp and not (hp[0] == "exc" and m_cy["hash"].startswith("ADD:")):
                    kind = "unhashable" if hp[0] == "exc" else hp[1][0]
                    exp = {"NONE": ["unhashable"], "KEEP": ["identity", "value", "unhashable"], "ERR": []}.get(m_cy["hash"], ["value"])
                    if kind not in exp:
                        ctx.corr_break("cy_hash(compiled)", inp, hp, m_cy["hash"])
                    if m_cy["hash"].startswith("ADD:"):
                        hn = [FNAMES[int(t) - 1] for t in m_cy["hash"][4:].split(".")] if m_cy["hash"] != "ADD:_" else []
                        for f in case["fields"]:
                            r = obs.get("hash/changed-" + f["name"])
                            if r and r[0] == "ok" and (r[1] is False) != (f["name"] in hn):
                                ctx.corr_break("cy_hash_names(compiled)", inp, {f["name"]: r}, m_cy["hash"])
    # special values
    if built[-1][1] is not None:
        ctx.corr_break("level2 build special", SPECIAL_SRC, str(built[-1][1])[-800:], "builds")
        return
    sres = cybuild.run_script(SPECIAL_WORKER, wd, None, timeout=600, name="special_worker.py")
    if sres["json"] is None:
        ctx.corr_break("special worker", "special_worker.py", (sres["err"] or sres["out"])[-1500:], "a JSON result")
        return
    model = ctx.model("dataclass")
    mo = model.batch(["ord le N:N", "ord ge N:N", "ord lt N:N,1:2", "ord lt 1:2,N:N", "equ n7:n7", "equ n7:n8"])
    exp_model = {"none_le_none": mo[0], "none_ge_none": mo[1], "none_first_then_int_lt": mo[2], "int_then_none_lt": mo[3],
                 "nan_same_object_eq": mo[4], "nan_different_objects_eq": mo[5]}
    for k, cyv in sres["json"]["cy"].items():
        pyv = sres["json"]["py"][k]
        inp = {"class": "@dataclass(order=True) cdef class S: a: object; b: object = 0", "probe": k}
        ctx.case("special-values", inp, sig=k)
        if cyv != pyv:
            klass = ("order_unorderable_equal_field" if k in ("none_le_none", "none_ge_none", "none_first_then_int_lt", "complex_le")
                     else "eq_identity_shortcut_missing" if k in ("nan_same_object_eq", "nan_same_object_le")
                     else "special_value_mismatch")
            ctx.fail(klass, inp, cyv, pyv)
        if k in exp_model:
            mc, mp = exp_model[k].split(" ")
            conv = {"T": "True", "F": "False", "E": "exc:TypeError", "1": "True", "0": "False"}
            if conv[mc] != cyv:
                ctx.corr_break("cy_order/cy_equal(special)", inp, cyv, mc)
            if conv[mp] != pyv:
                ctx.corr_break("py_order/py_equal(special)", inp, pyv, mp)
