"""C31 — match statements behave like CPython (DESIGN 7/C31)."""
import json, os
import cybuild

TITLE = "match statements behave like CPython"
EXTRACTS = ["Match"]
RULE = ("generated match statements (1-4 cases, pattern nesting <= 3; literal, value, capture, wildcard, sequence "
        "with/without star, mapping with/without **rest, class with positional+keyword sub-patterns on user "
        "classes with __match_args__ and on builtin self-matching types, or, as, guards) x subjects derived from the "
        "patterns (instantiate, then mutate) and random ones (ints, bools, None, str, bytes, tuples, lists, dicts, "
        "custom collections.abc.Sequence/Mapping subclasses, class instances); the same source text is compiled by the "
        "compiler under test and executed by CPython; distinct by (statement source, subject); non-trivial = at "
        "least one structured pattern or a guard")
EXPLANATION = ("theorems: for ALL class tables, case lists and subjects of the model, match_cy (decision structure of "
               "MatchCaseNodes: length tests ==/>=, front/back indexing, wildcard skipping, key sorting, up-front "
               "duplicate checks, keyword-before-positional sub-pattern tests, if-chains for simple cases) = match_ref "
               "(PEP 634/CPython 3.12: selected case, bindings incl. those of guard-failed cases, exception, guard "
               "trace) under the explicit complement of the four finding classes (C31_match_eq_partial), and with only "
               "the three ordering classes excluded for the variant with the as-target repair (C31_match_eq_fixed_as); "
               "the four findings are proved as refutation theorems on concrete witnesses; guards are evaluated only "
               "after a successful pattern, in case order; the index arithmetic never reads out of bounds. "
               "partial: call traces on custom Sequence/Mapping subjects (number/order of __len__/__getitem__/get) are "
               "only compared by the run (known classes); floats, sets, inheritance between user classes, keyword "
               "sub-patterns on builtin types, typed (C-level) subjects and the size==nKeys shortcut of "
               "DoubleStarCapture are not modelled.")
LEVEL_TEXT = ("partial: universally quantified equality of the Cython decision structure and PEP 634 semantics on the "
              "modelled fragment minus four refuted classes; call traces and unmodelled subject kinds tested only")
TRUSTED = ["CPython 3.12 executing the same source text is the property oracle",
           "match_ref is a hand transcription of compile.c/ceval.c (checked against CPython on every case of the run)",
           "gcc as a conforming C compiler for the generated module",
           "the token codec of ocaml/drv_match.ml and props/C31.py"]
ASSUMPTIONS = ["names bound by one pattern are pairwise distinct and or-alternatives bind the same names (both compilers "
               "reject anything else), so the order of target assignments is unobservable",
               "subjects are Python objects (no C-typed subject specialisation)"]

# set to "1" once proposed_fixes/C31-as_target_bound_to_pattern_value.diff is applied
FX_AS = os.environ.get("C31_FX_AS", "1")
# set to "1" once proposed_fixes/C31-simple_or_pattern_inside_class_or_mapping_pattern_crashes.diff is applied
FX_OR = os.environ.get("C31_FX_OR", "1")

NVARS = 6
ATTRS = ["x", "y", "z", "w"]
# user classes: id -> __match_args__ (None = attribute absent)
CLASSES = {0: ("x", "y"), 1: ("x",), 2: None, 3: ("x", "y", "x"), 4: ("x", "y", "z")}
# dotted-name constants: name -> lit
KCONST = [("i1", ("i", 1)), ("j1", ("i", 1)), ("i2", ("i", 2)), ("z0", ("i", 0)), ("s0", ("s", 0)),
          ("s1", ("s", 1)), ("nn", ("n",)), ("tt", ("b", 1))]
BUILTIN = {"I": "int", "B": "bool", "S": "str", "Y": "bytes", "T": "tuple", "L": "list", "D": "dict"}

SUPPORT = r'''
import collections.abc
TRACE = []
GLOG = []
class U:
    pass
def g(i, val):
    GLOG.append(i)
    return val
class K:
%(kconst)s
class Base:
    def __init__(self, **kw):
        self.__dict__.update(kw)
%(classes)s
class S(collections.abc.Sequence):
    def __init__(self, l): self.l = list(l)
    def __len__(self):
        TRACE.append('S.len'); return len(self.l)
    def __getitem__(self, i):
        TRACE.append('S.get %%r' %% (i,)); return self.l[i]
class M(collections.abc.Mapping):
    def __init__(self, d): self.d = dict(d)
    def __len__(self):
        TRACE.append('M.len'); return len(self.d)
    def __getitem__(self, k):
        TRACE.append('M.get %%r' %% (k,)); return self.d[k]
    def __iter__(self):
        TRACE.append('M.iter'); return iter(self.d)
UCLS = {%(ucls)s}
def enc(o):
    if o is None: return 'n'
    if o is True or o is False: return 'b %%d' %% o
    if type(o) is int: return 'i %%d' %% o
    if type(o) is str: return 's ' + o[1:]
    if type(o) is bytes: return 'y ' + o[1:].decode()
    if type(o) is tuple: return ' '.join(['t %%d' %% len(o)] + [enc(x) for x in o])
    if type(o) is list: return ' '.join(['l %%d' %% len(o)] + [enc(x) for x in o])
    if type(o) is S: return ' '.join(['q %%d' %% len(o.l)] + [enc(x) for x in o.l])
    if type(o) is dict: return ' '.join(['d 0 %%d' %% len(o)] + [enc(k) + ' ' + enc(v) for k, v in o.items()])
    if type(o) is M: return ' '.join(['d 1 %%d' %% len(o.d)] + [enc(k) + ' ' + enc(v) for k, v in o.d.items()])
    if type(o) in UCLS:
        d = o.__dict__
        return ' '.join(['o %%d %%d' %% (UCLS[type(o)], len(d))] + ['%%d %%s' %% ('xyzw'.index(a), enc(v)) for a, v in d.items()])
    return '?' + type(o).__name__
'''

WORKER = r'''
import sys, json
import c31_support as sp
from c31_support import *
spec = json.load(sys.stdin)
start = spec["start"]
idx = 0
for modbase, cases in spec["mods"]:
    if idx + len(cases) <= start:
        idx += len(cases); continue
    mods = []
    for pre in ("py_", "cy_"):
        try:
            mods.append(__import__(pre + modbase))
        except Exception as e:
            mods.append(None)
    for fn, subj in cases:
        if idx < start:
            idx += 1; continue
        print(json.dumps({"begin": idx})); sys.stdout.flush()
        row = []
        for m in mods:
            if m is None:
                row.append(["IMPORT", []]); continue
            del sp.TRACE[:]; del sp.GLOG[:]
            try:
                v = eval(subj)
                del sp.TRACE[:]
                sel, env = getattr(m, fn)(v)
                items = sorted((int(k[1:]), sp.enc(w)) for k, w in env.items() if w is not sp.U)
                r = "%s g %s env %s" % ("none" if sel < 0 else "sel %d" % sel,
                                        ",".join(map(str, sp.GLOG)) or "-", json.dumps(items))
            except Exception as e:
                r = "err %s g %s" % (type(e).__name__, ",".join(map(str, sp.GLOG)) or "-")
            row.append([r, list(sp.TRACE)])
        print(json.dumps({"i": idx, "row": row})); sys.stdout.flush()
        idx += 1
'''


def run_worker(ctx, spec, total):
    """one result row per case; a case that kills the worker yields a CRASH row and the run resumes"""
    rows = [None] * total
    start, crashes = 0, 0
    while start < total and crashes < 600:
        spec["start"] = start
        res = cybuild.run_script(WORKER, ctx.workdir, stdin_obj=spec, timeout=1500)
        begun = None
        for line in (res["out"] or "").splitlines():
            try:
                d = json.loads(line)
            except Exception:
                continue
            if "begin" in d:
                begun = d["begin"]
            elif "i" in d:
                rows[d["i"]] = d["row"]
                begun = None
        if all(r is not None for r in rows[start:]):
            break
        if begun is None:
            return rows, "worker died outside a case: rc=%s %s" % (res["rc"], (res["err"] or "")[-800:])
        rows[begun] = [["?", []], ["CRASH rc=%s %s" % (res["rc"], (res["err"] or "")[-300:].replace("\n", " ")), []]]
        start = begun + 1
        crashes += 1
    if any(r is None for r in rows):
        return rows, "too many worker crashes (%d)" % crashes
    return rows, None


def support_source():
    kc = "\n".join("    %s = %s" % (n, lit_src(l)) for n, l in KCONST)
    cl = "\n".join("class U%d(Base):\n    %s" % (i, ("__match_args__ = %r" % (ma,)) if ma is not None else "pass")
                   for i, ma in CLASSES.items())
    uc = ", ".join("U%d: %d" % (i, i) for i in CLASSES)
    return SUPPORT % {"kconst": kc, "classes": cl, "ucls": uc}


# ---------------- rendering ----------------
def lit_src(l):
    return {"i": lambda: str(l[1]), "b": lambda: "True" if l[1] else "False", "n": lambda: "None",
            "s": lambda: "'s%d'" % l[1]}[l[0]]()


def lit_tok(l):
    return "n" if l[0] == "n" else "%s %d" % (l[0], l[1])


def cls_src(c):
    return BUILTIN[c] if isinstance(c, str) else "U%d" % c[1]


def cls_tok(c):
    return c if isinstance(c, str) else "U %d" % c[1]


def pat_src(p):
    t = p[0]
    if t == "L":
        return lit_src(p[1])
    if t == "V":
        return "K." + KCONST[p[1]][0]
    if t == "C":
        return "a%d" % p[1]
    if t == "W":
        return "_"
    if t == "S":
        items = [pat_src(q) for q in p[1]]
        if p[2] is not None:
            items.append("*_" if p[2][0] == "w" else "*a%d" % p[2][1])
        items += [pat_src(q) for q in p[3]]
        return "[" + ", ".join(items) + "]"
    if t == "M":
        items = ["%s: %s" % (lit_src(k) if kind == "l" else "K." + KCONST[k][0], pat_src(q)) for kind, k, q in p[1]]
        if p[2] is not None:
            items.append("**a%d" % p[2])
        return "{" + ", ".join(items) + "}"
    if t == "K":
        items = [pat_src(q) for q in p[2]] + ["%s=%s" % (ATTRS[a], pat_src(q)) for a, q in p[3]]
        return "%s(%s)" % (cls_src(p[1]), ", ".join(items))
    if t == "O":
        return "(" + " | ".join(pat_src(q) for q in p[1]) + ")"
    if t == "A":
        return "(%s as a%d)" % (pat_src(p[1]), p[2])
    raise ValueError(p)


def pat_tok(p):
    t = p[0]
    if t == "L":
        return "L " + lit_tok(p[1])
    if t == "V":
        return "V " + lit_tok(KCONST[p[1]][1])
    if t == "C":
        return "C %d" % p[1]
    if t == "W":
        return "W"
    if t == "S":
        st = "0" if p[2] is None else ("1" if p[2][0] == "w" else "2 %d" % p[2][1])
        return " ".join(["S %d" % len(p[1])] + [pat_tok(q) for q in p[1]] + [st, str(len(p[3]))] + [pat_tok(q) for q in p[3]])
    if t == "M":
        its = ["%s %s %s" % (kind, lit_tok(k if kind == "l" else KCONST[k][1]), pat_tok(q)) for kind, k, q in p[1]]
        return " ".join(["M %d" % len(p[1])] + its + ["0" if p[2] is None else "1 %d" % p[2]])
    if t == "K":
        return " ".join(["K", cls_tok(p[1]), str(len(p[2]))] + [pat_tok(q) for q in p[2]] + [str(len(p[3]))]
                        + ["%d %s" % (a, pat_tok(q)) for a, q in p[3]])
    if t == "O":
        return " ".join(["O %d" % len(p[1])] + [pat_tok(q) for q in p[1]])
    if t == "A":
        return "A %s %d" % (pat_tok(p[1]), p[2])
    raise ValueError(p)


def guard_src(g, i):
    if g is None:
        return ""
    if g[0] == "c":
        return " if g(%d, %s)" % (i, "True" if g[1] else "False")
    return " if g(%d, a%d == %s)" % (i, g[1], lit_src(g[2]))


def guard_tok(g):
    if g is None:
        return "g0"
    if g[0] == "c":
        return "gc %d" % g[1]
    return "ge %d %s" % (g[1], lit_tok(g[2]))


def val_src(v):
    t = v[0]
    if t in "ibns":
        return lit_src(v)
    if t == "y":
        return "b'y%d'" % v[1]
    if t == "t":
        return "(" + "".join(val_src(x) + ", " for x in v[1]) + ")"
    if t == "l":
        return "[" + ", ".join(val_src(x) for x in v[1]) + "]"
    if t == "q":
        return "S([" + ", ".join(val_src(x) for x in v[1]) + "])"
    if t == "d":
        body = "{" + ", ".join("%s: %s" % (lit_src(k), val_src(x)) for k, x in v[2]) + "}"
        return "M(%s)" % body if v[1] else body
    if t == "o":
        return "U%d(%s)" % (v[1], ", ".join("%s=%s" % (ATTRS[a], val_src(x)) for a, x in v[2]))
    raise ValueError(v)


def val_tok(v):
    t = v[0]
    if t in "ibns":
        return lit_tok(v)
    if t == "y":
        return "y %d" % v[1]
    if t in "tlq":
        return " ".join(["%s %d" % (t, len(v[1]))] + [val_tok(x) for x in v[1]])
    if t == "d":
        return " ".join(["d %d %d" % (v[1], len(v[2]))] + [lit_tok(k) + " " + val_tok(x) for k, x in v[2]])
    if t == "o":
        return " ".join(["o %d %d" % (v[1], len(v[2]))] + ["%d %s" % (a, val_tok(x)) for a, x in v[2]])
    raise ValueError(v)


def ctab_tok():
    items = [(i, ma) for i, ma in CLASSES.items() if ma is not None]
    return " ".join([str(len(items))] + ["%d %d %s" % (i, len(ma), " ".join(str(ATTRS.index(a)) for a in ma))
                                          for i, ma in items])


def stmt_src(name, cases):
    L = ["def %s(v):" % name, "    " + " = ".join("a%d" % i for i in range(NVARS)) + " = U", "    sel = -1", "    match v:"]
    for i, (p, g) in enumerate(cases):
        L += ["        case %s%s:" % (pat_src(p), guard_src(g, i)), "            sel = %d" % i]
    L += ["    return sel, {" + ", ".join("'a%d': a%d" % (i, i) for i in range(NVARS)) + "}", ""]
    return "\n".join(L)


def stmt_tok(cases):
    return " ".join([str(len(cases))] + [pat_tok(p) + " " + guard_tok(g) for p, g in cases])


# ---------------- generation ----------------
class Gen:
    def __init__(self, rng, odd):
        self.rng = rng
        self.odd = odd       # probability of the shapes that fall into the finding classes
        self.free = []

    def lit(self):
        r = self.rng
        return r.choice([("i", 0), ("i", 1), ("i", 2), ("i", -1), ("i", 7), ("s", 0), ("s", 1), ("n",), ("b", 1), ("b", 0)])

    def keylit(self):
        return self.rng.choice([("i", 1), ("i", 2), ("i", 7), ("s", 0), ("s", 1)])

    def name(self):
        return self.free.pop() if self.free else None

    def leaf(self, allow_irref=True):
        r = self.rng
        k = r.random()
        if k < 0.35:
            return ("L", self.lit())
        if k < 0.5:
            return ("V", r.randrange(len(KCONST)))
        if allow_irref and k < 0.8:
            x = self.name()
            return ("C", x) if x is not None else ("W",)
        if allow_irref:
            return ("W",)
        return ("L", self.lit())

    def pat(self, depth, allow_irref=True):
        r = self.rng
        if depth <= 0 or r.random() < 0.25:
            return self.leaf(allow_irref)
        k = r.random()
        if k < 0.3:
            npre = r.randrange(0, 3)
            pre = [self.pat(depth - 1) for _ in range(npre)]
            star, post = None, []
            if r.random() < 0.45:
                if r.random() < 0.4:
                    star = ("w",)
                else:
                    x = self.name()
                    star = ("c", x) if x is not None else ("w",)
                post = [self.pat(depth - 1) for _ in range(r.randrange(0, 3))]
            return ("S", pre, star, post)
        if k < 0.5:
            n = r.randrange(0, 3)
            ok, used = [], {}
            for _ in range(n):
                if r.random() < 0.3:
                    ki = r.choice([i for i, (_, l) in enumerate(KCONST) if l[0] != "b" and l != ("i", 0)])
                    kind, k_, cv = "v", ki, canon(KCONST[ki][1])
                else:
                    k_ = self.keylit()
                    kind, cv = "l", canon(k_)
                if cv in used:
                    # literal/literal duplicates are compile-time errors; the others are run-time ValueErrors
                    if (kind == "l" and used[cv] == "l") or r.random() >= self.odd * 3:
                        continue
                used.setdefault(cv, kind)
                if kind == "v":
                    used[cv] = "v"
                ok.append((kind, k_, self.pat(depth - 1)))
            rest = None
            if r.random() < 0.35:
                rest = self.name()
            return ("M", ok, rest)
        if k < 0.75:
            if r.random() < 0.3:
                c = r.choice("IBSYTLD")
                pos = [self.pat(depth - 1)] if r.random() < 0.6 else []
                if r.random() < self.odd:
                    pos.append(self.leaf())
                return ("K", c, pos, [])
            ci = r.choice([0, 0, 1, 2, 4] + ([3] if r.random() < self.odd * 2 else []))
            ma = CLASSES[ci] or ()
            maxpos = len(ma) + (1 if r.random() < self.odd else 0)
            npos = r.randrange(0, maxpos + 1)
            pos = [self.pat(depth - 1) for _ in range(npos)]
            kw = []
            cand = [a for a in range(len(ATTRS))
                    if (ATTRS[a] not in ma[:npos]) or r.random() < self.odd]
            r.shuffle(cand)
            for a in cand[:r.randrange(0, 3)]:
                kw.append((a, self.pat(depth - 1)))
            return ("K", ("U", ci), pos, kw)
        if k < 0.88:
            # or-pattern: alternatives bind the same names; only the last one may be irrefutable
            n = r.randrange(2, 4)
            x = self.name() if r.random() < 0.5 else None
            alts = []
            for j in range(n):
                sub = Gen(r, self.odd)
                sub.free = []
                q = sub.pat(depth - 1, allow_irref=False)
                if x is not None:
                    q = ("A", q, x) if r.random() < 0.6 else ("S", [q], None, [("C", x)])
                alts.append(q)
            return ("O", alts)
        x = self.name()
        q = self.pat(depth - 1, allow_irref=False)
        return ("A", q, x) if x is not None else q

    def names_of(self, p, acc):
        t = p[0]
        if t == "C":
            acc.add(p[1])
        elif t == "S":
            for q in p[1] + p[3]:
                self.names_of(q, acc)
            if p[2] is not None and p[2][0] == "c":
                acc.add(p[2][1])
        elif t == "M":
            for _, _, q in p[1]:
                self.names_of(q, acc)
            if p[2] is not None:
                acc.add(p[2])
        elif t == "K":
            for q in p[2]:
                self.names_of(q, acc)
            for _, q in p[3]:
                self.names_of(q, acc)
        elif t == "O":
            self.names_of(p[1][0], acc)
        elif t == "A":
            self.names_of(p[1], acc); acc.add(p[2])
        return acc

    def stmt(self):
        r = self.rng
        ncases = r.randrange(1, 5)
        cases = []
        for i in range(ncases):
            self.free = list(range(NVARS)); r.shuffle(self.free)
            last = i == ncases - 1
            p = self.pat(r.choice([1, 2, 2, 3]), allow_irref=True)
            g = None
            names = sorted(self.names_of(p, set()))
            if r.random() < 0.35:
                if names and r.random() < 0.7:
                    g = ("e", r.choice(names), self.lit())
                else:
                    g = ("c", int(r.random() < 0.5))
            if irrefutable(p) and g is None and not last:
                g = ("c", int(r.random() < 0.5))
            cases.append((p, g))
        return cases

    # ---- subjects ----
    def scalar(self):
        r = self.rng
        return r.choice([("i", 0), ("i", 1), ("i", 2), ("i", -1), ("i", 7), ("s", 0), ("s", 1), ("n",), ("b", 1), ("b", 0),
                         ("y", 0), ("i", 3)])

    def rand_val(self, depth):
        r = self.rng
        if depth <= 0 or r.random() < 0.35:
            return self.scalar()
        k = r.random()
        if k < 0.5:
            return (r.choice("tlq"), [self.rand_val(depth - 1) for _ in range(r.randrange(0, 4))])
        if k < 0.75:
            keys = r.sample([("i", 1), ("i", 2), ("i", 7), ("s", 0), ("s", 1), ("n",)], r.randrange(0, 4))
            return ("d", int(r.random() < 0.3), [(k_, self.rand_val(depth - 1)) for k_ in keys])
        attrs = r.sample(range(len(ATTRS)), r.randrange(0, 4))
        return ("o", r.choice(list(CLASSES)), [(a, self.rand_val(depth - 1)) for a in attrs])

    def inst(self, p):
        """a value that (mostly) matches p"""
        r = self.rng
        t = p[0]
        if t in ("L", "V"):
            l = p[1] if t == "L" else KCONST[p[1]][1]
            if l == ("i", 1) and r.random() < 0.3:
                return ("b", 1)
            if l == ("i", 0) and r.random() < 0.3:
                return ("b", 0)
            if l == ("b", 1) and r.random() < 0.3:
                return ("i", 1)
            return l
        if t in ("C", "W"):
            return self.rand_val(1)
        if t == "S":
            mid = [self.rand_val(1) for _ in range(r.randrange(0, 3))] if p[2] is not None else []
            return (r.choice("tlq"), [self.inst(q) for q in p[1]] + mid + [self.inst(q) for q in p[3]])
        if t == "M":
            items, seen = [], set()
            for kind, k_, q in p[1]:
                l = k_ if kind == "l" else KCONST[k_][1]
                if l in seen:
                    continue
                seen.add(l)
                items.append((l, self.inst(q)))
            for l in [("i", 7), ("s", 1), ("i", 2)]:
                if l not in seen and r.random() < 0.3:
                    seen.add(l)
                    items.append((l, self.rand_val(1)))
            r.shuffle(items)
            return ("d", int(r.random() < 0.3), items)
        if t == "K":
            c = p[1]
            if isinstance(c, str):
                base = {"I": [("i", 1), ("i", 7), ("b", 1)], "B": [("b", 1), ("b", 0)], "S": [("s", 0), ("s", 1)],
                        "Y": [("y", 0)], "T": [("t", [("i", 1)])], "L": [("l", [("i", 1), ("i", 2)])],
                        "D": [("d", 0, [(("i", 1), ("i", 2))])]}[c]
                if p[2] and r.random() < 0.6:
                    v = self.inst(p[2][0])
                    if v[0] in {"I": "ib", "B": "b", "S": "s", "Y": "y", "T": "t", "L": "l", "D": "d"}[c]:
                        return v
                return r.choice(base)
            ma = CLASSES[c[1]] or ()
            attrs, seen = [], set()
            for i, q in enumerate(p[2]):
                if i < len(ma) and ATTRS.index(ma[i]) not in seen:
                    seen.add(ATTRS.index(ma[i]))
                    attrs.append((ATTRS.index(ma[i]), self.inst(q)))
            for a, q in p[3]:
                if a not in seen:
                    seen.add(a)
                    attrs.append((a, self.inst(q)))
            for a in range(len(ATTRS)):
                if a not in seen and r.random() < 0.25:
                    attrs.append((a, self.rand_val(1)))
            return ("o", c[1], attrs)
        if t == "O":
            return self.inst(r.choice(p[1]))
        if t == "A":
            return self.inst(p[1])
        raise ValueError(p)

    def mutate(self, v):
        r = self.rng
        t = v[0]
        k = r.random()
        if t in "tlq":
            if k < 0.25:
                return (r.choice("tlq"), v[1])
            if k < 0.45 and v[1]:
                i = r.randrange(len(v[1]))
                return (t, v[1][:i] + v[1][i + 1:])
            if k < 0.6:
                i = r.randrange(len(v[1]) + 1)
                return (t, v[1][:i] + [self.rand_val(1)] + v[1][i:])
            if v[1]:
                i = r.randrange(len(v[1]))
                return (t, v[1][:i] + [self.mutate(v[1][i])] + v[1][i + 1:])
            return v
        if t == "d":
            if k < 0.2:
                return ("d", 1 - v[1], v[2])
            if k < 0.45 and v[2]:
                i = r.randrange(len(v[2]))
                return ("d", v[1], v[2][:i] + v[2][i + 1:])
            if v[2]:
                i = r.randrange(len(v[2]))
                return ("d", v[1], v[2][:i] + [(v[2][i][0], self.mutate(v[2][i][1]))] + v[2][i + 1:])
            return v
        if t == "o":
            if k < 0.2:
                return ("o", r.choice(list(CLASSES)), v[2])
            if k < 0.45 and v[2]:
                i = r.randrange(len(v[2]))
                return ("o", v[1], v[2][:i] + v[2][i + 1:])
            if v[2]:
                i = r.randrange(len(v[2]))
                return ("o", v[1], v[2][:i] + [(v[2][i][0], self.mutate(v[2][i][1]))] + v[2][i + 1:])
            return v
        return self.scalar() if k < 0.7 else self.rand_val(2)

    def subjects(self, cases, n):
        r = self.rng
        out, seen = [], set()
        tries = 0
        while len(out) < n and tries < 10 * n:
            tries += 1
            k = r.random()
            if k < 0.15:
                v = self.rand_val(3)
            else:
                v = self.inst(r.choice(cases)[0])
                while r.random() < 0.45:
                    v = self.mutate(v)
            s = val_src(v)
            if s not in seen:
                seen.add(s)
                out.append(v)
        return out


def irrefutable(p):
    t = p[0]
    if t in ("C", "W"):
        return True
    if t == "A":
        return irrefutable(p[1])
    if t == "O":
        return any(irrefutable(q) for q in p[1])
    return False


# ---------------- classification (from the statement's shape only) ----------------
def subpats(p):
    t = p[0]
    if t == "S":
        return p[1] + p[3]
    if t == "M":
        return [q for _, _, q in p[1]]
    if t == "K":
        return p[2] + [q for _, q in p[3]]
    if t == "O":
        return p[1]
    if t == "A":
        return [p[1]]
    return []


def walk(p):
    yield p
    for q in subpats(p):
        for x in walk(q):
            yield x


def canon(l):
    return ("num", int(l[1])) if l[0] in "ib" else l


def map_dup(p):
    if p[0] != "M":
        return False
    ks = [canon(k if kind == "l" else KCONST[k][1]) for kind, k, _ in p[1]]
    return len(set(ks)) != len(ks)


def cls_names(p):
    c = p[1]
    ma = () if isinstance(c, str) else (CLASSES[c[1]] or ())
    return list(ma[:len(p[2])]) + [ATTRS[a] for a, _ in p[3]]


def cls_dup(p):
    if p[0] != "K":
        return False
    n = cls_names(p)
    return len(set(n)) != len(n)


def cls_toomany(p):
    if p[0] != "K":
        return False
    c = p[1]
    allowed = 1 if isinstance(c, str) else len(CLASSES[c[1]] or ())
    return len(p[2]) > allowed


def can_raise(p):
    return any(map_dup(q) or cls_dup(q) or cls_toomany(q) for q in walk(p))


def reorders(p):
    if p[0] == "M":
        return any(kind == "v" for kind, _, _ in p[1])
    if p[0] == "K":
        return bool(p[2]) and bool(p[3])
    return False


def as_value(p):
    if p[0] != "A":
        return False
    q = strip_as(p[1])
    if q[0] == "L":
        return q[1][0] == "i"
    if q[0] == "V":
        return KCONST[q[1]][1][0] in "ib"
    return False


def strip_as(p):
    while p[0] == "A":
        p = p[1]
    return p


def simple_or_in_keyed(p):
    """class/mapping pattern with a direct sub-pattern that is an or-pattern of plain literals/values"""
    if p[0] not in "MK":
        return False
    for q in subpats(p):
        q = strip_as(q)
        if q[0] == "O" and all(a[0] in "LVW" for a in q[1]):
            return True
    return False


def has_custom(v, kind):
    t = v[0]
    if t == "q" and kind == "q":
        return True
    if t == "d" and v[1] and kind == "M":
        return True
    if t in "tlq":
        return any(has_custom(x, kind) for x in v[1])
    if t in "do":
        return any(has_custom(x, kind) for _, x in v[2])
    return False


def classify(cases, subject, what):
    pats = [q for p, _ in cases for q in walk(p)]
    if what == "trace":
        if has_custom(subject, "q"):
            return "match_custom_sequence_call_trace"
        if has_custom(subject, "M"):
            return "match_custom_mapping_call_trace"
        return "call_trace_mismatch"
    if any(map_dup(q) for q in pats):
        return "mapping_duplicate_value_key_checked_before_subject"
    if any(cls_dup(q) for q in pats):
        return "class_duplicate_attribute_checked_before_lookup"
    if FX_AS != "1" and any(as_value(q) for q in pats):
        return "as_target_bound_to_pattern_value"
    if any(reorders(q) and any(can_raise(s) for s in subpats(q)) for q in pats):
        return "subpattern_test_order_masks_error"
    return "match_result_mismatch"


# ---------------- run ----------------
def norm_model(line):
    """model result line -> same text as the worker's"""
    if line.startswith("err"):
        return line
    head, _, env = line.partition(" env ")
    parts = env.split(" ; ")
    final = {}
    for item in parts[1:]:
        x, _, val = item.partition(" ")
        final.setdefault(int(x), val)       # latest binding first
    return "%s env %s" % (head, json.dumps(sorted(final.items())).replace("(", "[").replace(")", "]"))


def build_all(ctx, mods):
    with open(os.path.join(ctx.workdir, "c31_support.py"), "w") as f:
        f.write(support_source())
    specs = []
    for base, stmts in mods:
        src = "# cython: language_level=3\nfrom c31_support import *\n\n" + "\n".join(stmt_src(n, c) for n, c, _ in stmts)
        with open(os.path.join(ctx.workdir, "py_" + base + ".py"), "w") as f:
            f.write(src)
        specs.append(dict(name="cy_" + base, source=src, workdir=ctx.workdir, cflags=["-O0"]))
    return cybuild.build_many(specs, jobs=6), specs


FIXED = [
    # (cases, subjects): the witnesses of the refutation theorems and a few corner shapes
    ([(("M", [("v", 0, ("L", ("i", 1))), ("v", 1, ("L", ("i", 2)))], None), None), (("W",), None)],
     [("i", 5), ("d", 0, []), ("d", 0, [(("i", 1), ("i", 1))]), ("d", 0, [(("i", 1), ("i", 1)), (("i", 2), ("i", 3))])]),
    ([(("K", ("U", 0), [("L", ("i", 1)), ("L", ("i", 2))], [(1, ("L", ("i", 3)))]), None), (("W",), None)],
     [("o", 0, []), ("i", 5), ("o", 0, [(0, ("i", 1)), (1, ("i", 2))])]),
    ([(("K", ("U", 0), [("K", ("U", 1), [("L", ("i", 1)), ("L", ("i", 2))], [])], [(2, ("L", ("i", 5)))]), None), (("W",), None)],
     [("o", 0, [(0, ("o", 1, [(0, ("i", 1))])), (2, ("i", 4))]), ("o", 0, [(0, ("o", 1, [(0, ("i", 1))])), (2, ("i", 5))]),
      ("o", 0, [(0, ("o", 1, [(0, ("i", 1))]))])]),
    ([(("M", [("v", 2, ("K", ("U", 1), [("L", ("i", 1)), ("L", ("i", 2))], [])), ("l", ("i", 7), ("L", ("i", 5)))], None), None),
      (("W",), None)],
     [("d", 0, [(("i", 2), ("o", 1, [(0, ("i", 1))])), (("i", 7), ("i", 4))]),
      ("d", 0, [(("i", 2), ("o", 1, [(0, ("i", 1))])), (("i", 7), ("i", 5))])]),
    # or-pattern of plain values directly inside a class pattern (segfault before the repair)
    ([(("K", ("U", 0), [("O", [("L", ("i", 1)), ("L", ("i", 7))])], [(2, ("L", ("i", 1)))]), None), (("W",), None)],
     [("o", 1, [(0, ("s", 1))]), ("o", 0, [(0, ("i", 7)), (2, ("i", 1))]), ("o", 0, [(0, ("i", 2)), (2, ("i", 1))])]),
    ([(("A", ("L", ("i", 1)), 0), ("e", 0, ("i", 1))), (("W",), None)], [("b", 1), ("i", 1), ("i", 2)]),
    ([(("A", ("V", 0), 0), None), (("W",), None)], [("b", 1), ("i", 1)]),
    ([(("A", ("A", ("L", ("i", 0)), 2), 3), None), (("W",), None)], [("b", 0), ("i", 0), ("i", 1)]),
    ([(("S", [("C", 0)], ("c", 1), [("C", 2)]), None), (("S", [("C", 0), ("W",), ("L", ("i", 3))], None, []), None)],
     [("q", [("i", 1), ("i", 2), ("i", 3), ("i", 4)]), ("q", [("i", 1), ("i", 2), ("i", 3)]), ("q", [("i", 1)]),
      ("l", [("i", 1), ("i", 2), ("i", 3)]), ("s", 0), ("y", 0)]),
    ([(("M", [("l", ("i", 1), ("C", 0)), ("l", ("i", 2), ("W",))], 1), None)],
     [("d", 1, [(("i", 1), ("i", 1)), (("i", 2), ("i", 2)), (("i", 7), ("i", 3))]), ("d", 1, [(("i", 1), ("i", 1))]),
      ("d", 0, [(("i", 1), ("i", 1)), (("i", 2), ("i", 2))])]),
    ([(("K", "I", [("C", 0)], []), ("e", 0, ("i", 1))), (("K", "S", [], []), None), (("K", "I", [("W",), ("W",)], []), None)],
     [("b", 1), ("i", 1), ("i", 2), ("s", 0), ("n",)]),
]


def run(ctx):
    quick = ctx.tier == "quick"
    nmods, per_mod, nsubj = (3, 30, 7) if quick else (16, 60, 14)
    gen = Gen(ctx.rng, 0.06)
    mods = []
    fixed = [("fx%d" % i, c, s) for i, (c, s) in enumerate(FIXED)]
    mods.append(("m_fixed", fixed))
    for mi in range(nmods):
        stmts = []
        for si in range(per_mod):
            cases = gen.stmt()
            stmts.append(("f%d_%d" % (mi, si), cases, gen.subjects(cases, nsubj)))
        mods.append(("m%d" % mi, stmts))
    built, specs = build_all(ctx, mods)
    for (so, err), sp in zip(built, specs):
        if err is not None:
            ctx.fail("module_does_not_build", {"module": sp["name"], "source": sp["source"][:3000]},
                     str(err)[:1500], "module builds")
            return
    spec = {"mods": [[base, [[n, val_src(v)] for n, c, subs in stmts for v in subs]] for base, stmts in mods]}
    total = sum(len(cs) for _, cs in spec["mods"])
    rows, werr = run_worker(ctx, spec, total)
    if werr:
        ctx.corr_break("worker", "worker", werr, "results")
        return
    flat = [(base, n, c, v) for base, stmts in mods for n, c, subs in stmts for v in subs]
    ct = ctab_tok()
    mq = []
    for base, n, c, v in flat:
        st = stmt_tok(c)
        mq.append("stmt ref 0 %s %s %s" % (ct, val_tok(v), st))
        mq.append("stmt cy %s %s %s %s" % (FX_AS, ct, val_tok(v), st))
    mres = ctx.model("match").batch(mq)
    sq = []
    stmts_seen = {}
    for base, n, c, v in flat:
        if n not in stmts_seen:
            stmts_seen[n] = len(sq)
            sq.append("safe %s %s" % (ct, stmt_tok(c)))
    sres = ctx.model("match").batch(sq)
    nin = 0
    for i, ((base, n, c, v), row) in enumerate(zip(flat, rows)):
        (rpy, tpy), (rcy, tcy) = row
        mref, mcy = norm_model(mres[2 * i]), norm_model(mres[2 * i + 1])
        inp = {"module": base, "func": n, "source": stmt_src(n, c), "subject": val_src(v)}
        safe, asok = sres[stmts_seen[n]].split()
        indom = safe == "1" and (asok == "1" or FX_AS == "1")
        nin += indom
        kinds = sorted({q[0] for p, _ in c for q in walk(p)})
        stratum = "%s/%s/%s" % ("thm-domain" if indom else "finding-domain", "".join(kinds),
                                rpy.split()[0] + ("-custom" if has_custom(v, "q") or has_custom(v, "M") else ""))
        ctx.case(stratum, inp, sig=(inp["source"], inp["subject"]),
                 nontrivial=any(k in kinds for k in "SMKOA") or any(g is not None for _, g in c))
        if rcy.startswith("CRASH"):
            shape = any(simple_or_in_keyed(q) for p, _ in c for q in walk(p))
            ctx.fail("simple_or_pattern_inside_class_or_mapping_pattern_crashes" if shape and FX_OR != "1"
                     else "compiled_match_crashes", inp, rcy, rpy)
            continue
        if "?" in rpy or rpy.startswith("IMPORT") or rcy.startswith("IMPORT"):
            ctx.corr_break("harness", inp, rcy, rpy)
            continue
        # the reference model is CPython (keeps match_ref honest)
        if mref != rpy:
            ctx.corr_break("match_ref vs CPython", inp, rpy, mref)
        # tie: compiled code vs extracted match_cy
        if mcy != rcy:
            ctx.corr_break("match_cy vs compiled", inp, rcy, mcy)
        # property: compiled code vs CPython
        if rcy != rpy:
            klass = classify(c, v, "result")
            if indom:
                klass = "match_result_mismatch"       # inside the theorem's domain: never a known class
            ctx.fail(klass, inp, rcy, rpy, note="model: cy=%s ref=%s" % (mcy, mref))
        elif tcy != tpy:
            ctx.fail(classify(c, v, "trace"), inp, tcy, tpy, note="same result, different calls on the subject")
    ctx.extra["in_theorem_domain"] = nin
    ctx.extra["total_cases"] = len(flat)


def replay(ctx, obj):
    inp = obj["input"]
    print("source:\n" + inp["source"] + "\nsubject: " + inp["subject"])
    print("observed:", obj.get("observed"), "\nexpected:", obj.get("expected"))
    print("(re-run ./check C31: the generator is seeded, the same statement is regenerated)")
